(* Generic driver: one S-expression per input line -> Extracted.dispatch -> one line out.
   Integers of any size are converted through the extracted Z arithmetic, so
   no Extract Constant is needed. *)
module E = Extracted

let rec pos_of_int n = if n = 1 then E.XH else if n land 1 = 0 then E.XO (pos_of_int (n lsr 1)) else E.XI (pos_of_int (n lsr 1))
let z_of_small n = if n = 0 then E.Z0 else if n > 0 then E.Zpos (pos_of_int n) else E.Zneg (pos_of_int (-n))
let rec int_of_pos = function E.XH -> 1 | E.XO p -> 2 * int_of_pos p | E.XI p -> 2 * int_of_pos p + 1
let ten = z_of_small 10
let chunk = z_of_small 1000000000

(* decimal text -> z, 9 digits at a time *)
let z_of_string s =
  let neg = String.length s > 0 && s.[0] = '-' in
  let ds = if neg then String.sub s 1 (String.length s - 1) else s in
  let n = String.length ds in
  let acc = ref E.Z0 in
  let i = ref 0 in
  let first = n mod 9 in
  if first > 0 then begin acc := z_of_small (int_of_string (String.sub ds 0 first)); i := first end;
  while !i < n do
    acc := E.drv_add (E.drv_mul !acc chunk) (z_of_small (int_of_string (String.sub ds !i 9)));
    i := !i + 9
  done;
  if neg then E.drv_opp !acc else !acc

let small_of_z = function E.Z0 -> 0 | E.Zpos p -> int_of_pos p | E.Zneg p -> - (int_of_pos p)

let rec pos_bits = function E.XH -> 1 | E.XO p | E.XI p -> 1 + pos_bits p

let string_of_z z =
  let fits = match z with E.Z0 -> true | E.Zpos p | E.Zneg p -> pos_bits p <= 60 in
  if fits then string_of_int (small_of_z z) else begin
    let neg = (match z with E.Zneg _ -> true | _ -> false) in
    let a = ref (if neg then E.drv_opp z else z) in
    let parts = ref [] in
    while (match !a with E.Z0 -> false | _ -> true) do
      let (q, r) = E.drv_div_eucl !a chunk in
      parts := small_of_z r :: !parts; a := q
    done;
    let b = Buffer.create 32 in
    if neg then Buffer.add_char b '-';
    (match !parts with
     | [] -> Buffer.add_char b '0'
     | p :: rest -> Buffer.add_string b (string_of_int p);
                    List.iter (fun x -> Buffer.add_string b (Printf.sprintf "%09d" x)) rest);
    Buffer.contents b
  end

exception Parse of string

let parse (s : string) : E.sx =
  let n = String.length s in
  let pos = ref 0 in
  let skip () = while !pos < n && (s.[!pos] = ' ' || s.[!pos] = '\t' || s.[!pos] = '\r') do incr pos done in
  let is_delim c = c = ' ' || c = '(' || c = ')' || c = '\t' || c = '\r' in
  let rec item () =
    skip ();
    if !pos >= n then raise (Parse "eof");
    if s.[!pos] = '(' then begin
      incr pos;
      let acc = ref [] in
      let fin = ref false in
      while not !fin do
        skip ();
        if !pos >= n then raise (Parse "unclosed");
        if s.[!pos] = ')' then (incr pos; fin := true) else acc := item () :: !acc
      done;
      E.SL (List.rev !acc)
    end else begin
      let st = !pos in
      while !pos < n && not (is_delim s.[!pos]) do incr pos done;
      let w = String.sub s st (!pos - st) in
      if w = "" then raise (Parse "empty");
      let c = w.[0] in
      if (c >= '0' && c <= '9') || (c = '-' && String.length w > 1) then E.SZ (z_of_string w)
      else E.SS (List.init (String.length w) (fun i -> z_of_small (Char.code w.[i])))
    end
  in
  let r = item () in
  skip ();
  if !pos <> n then raise (Parse "trailing");
  r

let rec print b = function
  | E.SZ z -> Buffer.add_string b (string_of_z z)
  | E.SS l -> List.iter (fun z -> Buffer.add_char b (Char.chr ((small_of_z z) land 255))) l
  | E.SL l ->
    Buffer.add_char b '(';
    List.iteri (fun i x -> if i > 0 then Buffer.add_char b ' '; print b x) l;
    Buffer.add_char b ')'

let () =
  let b = Buffer.create 65536 in
  (try
     while true do
       let line = input_line stdin in
       Buffer.clear b;
       (try print b (E.dispatch (parse line))
        with Parse m -> Buffer.clear b; Buffer.add_string b ("(bad parse " ^ m ^ ")")
           | Stack_overflow -> Buffer.clear b; Buffer.add_string b "(bad stack_overflow)");
       Buffer.add_char b '\n';
       print_string (Buffer.contents b)
     done
   with End_of_file -> ());
  flush stdout
