"""C02 — adverbs equal their definitional expansion for every verb and operand.

Link 1 (Coq): coq/C02/Properties.v — every eval_adverb_* of klongpy/adverbs.py, as a higher-order Gallina function over an
arbitrary (failing, effectful) verb, equals the definitional expansion of Spec.v; operator shortcuts = the expansion; chains
compose left to right; call traces.
Link 2 (here): translator (is_adverb, get_adverb_arity, get_adverb_fn dispatch, shortcut tables) + correspondence:
  T  the adverb expression evaluated as source text by the real interpreter,
  E  the expansion as separately evaluated verb applications on the real interpreter (harness/c02_child.py; the fixpoint
     test of Converge / Scan-Converging is Klong's Match, also evaluated separately),
  M  the extracted model (coq/C02/Run.v).
Property oracle: T == E.  Model equality: M == T (and the model's call trace == the applications E made).
"""
import ast
import json
import os
import random
import subprocess

from . import astlib
from .astlib import ShapeError
from .common import Check, sx, forbidden_scan, PY, VERIF, REPO

TRUSTED = [
    "Coq 8.16.1 kernel (coqc); vm_compute only in Examples / _refuted witnesses",
    "Print Assumptions: every C02 theorem closed under the global context (no axioms)",
    "translator harness/c02.py:generate (Python ast): is_adverb set, get_adverb_arity table, get_adverb_fn dispatch, shortcut tables and zero-divisor guard of eval_adverb_over / eval_adverb_scan_over, the compiler's _REDUCE_SCAN_OPS and reduce/scan text tables, the While / Scan-While loop tests",
    "extraction: ExtrOcamlBasic only; Z kept as inductive; ocaml/driver.ml",
    "correspondence harness: harness/c02.py, harness/c02_child.py (expansion oracle mirrors coq/C02/Spec.v), its own canonical form (strings = lists of characters)",
]
ASSUME = [
    "NumPy ufunc.reduce/accumulate along axis 0 applies the scalar operation column by column, left to right (float64 add.reduce over more than 8 "
    "contiguous elements is pairwise and outside every statement; the universe has at most 5); np.min/np.max return the least/greatest element; "
    "reduce on an object array is a left fold with the elements' own operator (modelled, sampled by link 2)",
    "reals are IEEE binary64 as computed by Coq.Floats.SpecFloat (SFadd/SFsub/SFmul/SFdiv, round to nearest even; int->float by binary_normalize): "
    "results are compared bit for bit with NumPy's; NaN payloads are not compared; np.isclose is modelled as abs(a-b) <= 1e-08 + 1e-05*abs(b) in binary64",
    "no int64 wrap-around: integers of the universe stay small (the model's integers are unbounded)",
    "operands come from literal text: the array representation (dtype, rank) is a function of the value; a list mixing integers and reals "
    "(only possible as a list of results) is treated as an object array by the model",
    "the verb semantics used by the extracted model cover integers, binary64 reals, nested numeric lists, characters and strings under Join; NumPy "
    "broadcasting of unequal shapes, Equal on reals, arithmetic on characters, :undefined as a value are not modelled (such cases are still "
    "checked text-vs-expansion on the implementation)",
    "a single Over / Scan-Over of + * | & over a variable or function argument may be run by the expression compiler: modelled from "
    "compiler.py _REDUCE_SCAN_OPS, _compiled_args' admission and the backend's reduce/scan text tables (regenerated); other compiled expressions "
    "(arithmetic inside the verbs) are C05's subject",
    "domain decisions where the reference is silent (the specification follows the implementation): Each-2 of an atom with a list (a number "
    "cannot be paired: error; a character is its one-character string; a dictionary stands for its keys), Each-Index of an atom (f([0;a])), "
    "Scan-Iterating with count 0 (b itself), a f\\[] (a itself, as the reference test-suite has it)",
]


# ---------------------------------------------------------------- translator
def _s(x):
    return astlib.coq_string(x)


def _str_const(node):
    v = astlib.const(node)
    if not isinstance(v, str):
        raise ShapeError("string constant expected")
    return v


def gen_is_adverb():
    m = astlib.module("klongpy/types.py")
    fn = astlib.find_func(m, "is_adverb")
    body = astlib.body_no_doc(fn)
    if len(body) != 1 or not isinstance(body[0], ast.Return):
        raise ShapeError("is_adverb: single return expected")
    c = body[0].value
    if not (isinstance(c, ast.Compare) and len(c.ops) == 1 and isinstance(c.ops[0], ast.In)
            and isinstance(c.left, ast.Name) and isinstance(c.comparators[0], ast.Set)):
        raise ShapeError("is_adverb: `s in {...}` expected")
    return [_str_const(e) for e in c.comparators[0].elts]


def _if_chain(stmts):
    """[If(test, body, orelse=[If ...])] -> [(test, body)], tail statements"""
    out = []
    node = stmts
    while len(node) == 1 and isinstance(node[0], ast.If):
        out.append((node[0].test, node[0].body))
        node = node[0].orelse
    return out, node


def gen_adverb_arity():
    m = astlib.module("klongpy/types.py")
    fn = astlib.find_func(m, "get_adverb_arity")
    if [a.arg for a in fn.args.args] != ["s", "ctx"]:
        raise ShapeError("get_adverb_arity(s, ctx) expected")
    body = astlib.body_no_doc(fn)
    if len(body) != 2 or not isinstance(body[1], ast.Raise):
        raise ShapeError("get_adverb_arity: if-chain then raise expected")
    chain, tail = _if_chain(body[:1])
    if tail:
        raise ShapeError("get_adverb_arity: trailing else")
    out = []
    for test, b in chain:
        if not (isinstance(test, ast.Compare) and isinstance(test.left, ast.Name) and test.left.id == "s"
                and len(test.ops) == 1 and isinstance(test.ops[0], ast.Eq)):
            raise ShapeError("get_adverb_arity: `s == ...` expected")
        k = _str_const(test.comparators[0])
        if len(b) != 1 or not isinstance(b[0], ast.Return):
            raise ShapeError("get_adverb_arity: return expected")
        v = b[0].value
        if isinstance(v, ast.Name) and v.id == "ctx":
            out.append((k, None))
        elif isinstance(v, ast.Constant) and isinstance(v.value, int) and v.value in (1, 2):
            out.append((k, v.value))
        else:
            raise ShapeError("get_adverb_arity: unexpected arity expression")
    return out


def _callee_name(e):
    """the eval_adverb_* function a get_adverb_fn branch resolves to"""
    if isinstance(e, ast.Name):
        return e.id
    if isinstance(e, ast.Lambda):
        b = e.body
        if isinstance(b, ast.Call) and isinstance(b.func, ast.Name):
            params = [a.arg for a in e.args.args]
            passed = [a.id for a in b.args if isinstance(a, ast.Name)]
            # lambda f,a,b: fn([klong,] f,a,b[,backend]) — the operands must be passed through in order
            core = [p for p in passed if p in params]
            if core != params:
                raise ShapeError("get_adverb_fn: lambda does not pass its parameters through in order")
            return b.func.id
    raise ShapeError("get_adverb_fn: unexpected branch value " + ast.dump(e)[:60])


def gen_adverb_fn():
    m = astlib.module("klongpy/adverbs.py")
    fn = astlib.find_func(m, "get_adverb_fn")
    body = [s for s in astlib.body_no_doc(fn) if not isinstance(s, ast.Assign)]
    if len(body) != 2 or not isinstance(body[1], ast.Raise):
        raise ShapeError("get_adverb_fn: if-chain then raise expected")
    chain, tail = _if_chain(body[:1])
    if tail:
        raise ShapeError("get_adverb_fn: trailing else")
    out = []
    for test, b in chain:
        if not (isinstance(test, ast.Compare) and isinstance(test.left, ast.Name) and test.left.id == "s"
                and len(test.ops) == 1 and isinstance(test.ops[0], ast.Eq)):
            raise ShapeError("get_adverb_fn: `s == ...` expected")
        k = _str_const(test.comparators[0])
        if len(b) != 1 or not isinstance(b[0], ast.Return):
            raise ShapeError("get_adverb_fn: return expected")
        v = b[0].value
        if isinstance(v, ast.IfExp):
            t = v.test
            if not (isinstance(t, ast.Compare) and isinstance(t.left, ast.Name) and t.left.id == "arity"
                    and isinstance(t.ops[0], ast.Eq) and astlib.const(t.comparators[0]) == 2):
                raise ShapeError("get_adverb_fn: `arity == 2` expected")
            out.append((k, _callee_name(v.body), _callee_name(v.orelse)))
        else:
            out.append((k, _callee_name(v), _callee_name(v)))
    return out


def _cond_token(c):
    s = ast.unparse(c)
    if s == "a.ndim == 1":
        return "ndim1"
    if s == "a.dtype != 'O'":
        return "nonobj"
    if s == "not _has_zero_divisor(a)":
        return "nozerodiv"
    if s.startswith("hasattr(np_backend.") or s == "np_backend.isarray(a)":
        return None          # true for every NumPy array operand
    return "?" + s


def _shortcut_table(fname, method):
    m = astlib.module("klongpy/adverbs.py")
    fn = astlib.find_func(m, fname)
    body = astlib.body_no_doc(fn)
    blocks = [s for s in body if isinstance(s, ast.If) and ast.unparse(s.test) == "isinstance(op, KGOp)"]
    if len(blocks) != 1 or blocks[0].orelse:
        raise ShapeError("%s: one `if isinstance(op, KGOp):` block expected" % fname)
    chain, tail = _if_chain(blocks[0].body)
    if tail:
        raise ShapeError("%s: shortcut chain has an else branch" % fname)
    out = []
    for test, b in chain:
        conds = test.values if isinstance(test, ast.BoolOp) and isinstance(test.op, ast.And) else [test]
        first = conds[0]
        if not (isinstance(first, ast.Call) and ast.unparse(first.func) == "safe_eq" and ast.unparse(first.args[0]) == "op.a"):
            raise ShapeError("%s: safe_eq(op.a, <op>) expected" % fname)
        opch = _str_const(first.args[1])
        toks = [t for t in (_cond_token(c) for c in conds[1:]) if t is not None]
        if len(b) != 1 or not isinstance(b[0], ast.Return):
            raise ShapeError("%s: return expected in shortcut branch" % fname)
        r = ast.unparse(b[0].value)
        if r.startswith("np_backend.") and r.endswith("." + method + "(a)"):
            kind = method_kind(method) + ":" + r[len("np_backend."):-len("." + method + "(a)")]
        elif r == "np_backend.min(a)":
            kind = "min"
        elif r == "np_backend.max(a)":
            kind = "max"
        elif r == "a if a.ndim == 1 else np_backend.concatenate(a, axis=0)":
            kind = "concat"
        else:
            kind = "?" + r
        out.append((opch, ":".join([kind] + toks)))
    return out, body


def method_kind(method):
    return method      # "reduce" / "accumulate"


def gen_over_prelude():
    """the statements of eval_adverb_over around the shortcut block, as text"""
    _, body = _shortcut_table("eval_adverb_over", "reduce")
    return [ast.unparse(s) for s in body if not (isinstance(s, ast.If) and ast.unparse(s.test) == "isinstance(op, KGOp)")]


def gen_scan_prelude():
    _, body = _shortcut_table("eval_adverb_scan_over", "accumulate")
    return [ast.unparse(s) for s in body if not (isinstance(s, ast.If) and ast.unparse(s.test) == "isinstance(op, KGOp)")]


OVER_PRELUDE = [
    "if is_atom(a):\n    return a",
    "a = backend.str_to_chr_arr(a) if isinstance(a, str) else a",
    "if len(a) == 1:\n    return a[0]",
    "np_backend = backend.np",
    "return functools.reduce(f, a)",
]
SCAN_PRELUDE = [
    "if is_empty(a):\n    return a",
    "if is_atom(a):\n    return backend.kg_asarray([a])",
    "a = backend.str_to_chr_arr(a) if isinstance(a, str) else a",
    "np_backend = backend.np",
    "r = list(itertools.accumulate(a, f))",
    "return backend.kg_asarray(r)",
]


def generate():
    out = ["From Coq Require Import List String.", "Import ListNotations.", "Open Scope string_scope."]

    # every table is emitted sorted by its key (the keys are distinct, so the order of the source's
    # elif branches / set elements carries no meaning; duplicates keep their relative order)
    v, why = astlib.try_flag(gen_is_adverb)
    out.append("Definition is_adverb_set : list string := %s.%s" % (
        astlib.coq_list([_s(x) for x in sorted(v or [])]), "" if why is None else "  (* shape not recognised: %s *)" % why))

    v, why = astlib.try_flag(gen_adverb_arity)
    items = ["(%s, %s)" % (_s(k), "None" if a is None else "Some %d" % a) for k, a in sorted(v or [], key=lambda e: e[0])]
    out.append("Definition adverb_arity : list (string * option nat) := %s.%s" % (
        astlib.coq_list(items), "" if why is None else "  (* shape not recognised: %s *)" % why))

    v, why = astlib.try_flag(gen_adverb_fn)
    items = ["(%s, (%s, %s))" % (_s(k), _s(d), _s(mo)) for k, d, mo in sorted(v or [], key=lambda e: e[0])]
    out.append("(* get_adverb_fn: symbol -> (function for arity 2, function for arity 1) *)")
    out.append("Definition adverb_fn : list (string * (string * string)) := %s.%s" % (
        astlib.coq_list(items), "" if why is None else "  (* shape not recognised: %s *)" % why))

    for name, fname, method in (("over_shortcuts", "eval_adverb_over", "reduce"), ("scan_shortcuts", "eval_adverb_scan_over", "accumulate")):
        v, why = astlib.try_flag(lambda: _shortcut_table(fname, method)[0])
        items = ["(%s, %s)" % (_s(k), _s(a)) for k, a in sorted(v or [], key=lambda e: e[0])]
        out.append("Definition %s : list (string * string) := %s.%s" % (
            name, astlib.coq_list(items), "" if why is None else "  (* shape not recognised: %s *)" % why))

    def compiled_tables():
        m = astlib.module("klongpy/compiler.py")
        ops_node = astlib.module_assign(m, "_REDUCE_SCAN_OPS")
        if not isinstance(ops_node, ast.Set):
            raise ShapeError("_REDUCE_SCAN_OPS is not a set literal")
        ops = [_str_const(e) for e in ops_node.elts]
        b = astlib.module("klongpy/backends/numpy_backend.py")
        fn = astlib.find_func(astlib.find_class(b, "NumpyBackendProvider"), "_ir_to_source")
        tables, templates = {}, {}
        for st in fn.body:
            if isinstance(st, ast.If) and isinstance(st.test, ast.Compare) and ast.unparse(st.test.left) == "node_type":
                kind = astlib.const(st.test.comparators[0])
                if kind not in ("reduce", "scan"):
                    continue
                for n in st.body:
                    if isinstance(n, ast.Assign) and ast.unparse(n.targets[0]) == "method":
                        v = n.value
                        if not (isinstance(v, ast.Call) and isinstance(v.func, ast.Attribute) and v.func.attr == "get"
                                and isinstance(v.func.value, ast.Dict) and ast.unparse(v.args[0]) == "op"):
                            raise ShapeError("%s: method = {...}.get(op) expected" % kind)
                        tables[kind] = [(_str_const(k), _str_const(x)) for k, x in zip(v.func.value.keys, v.func.value.values)]
                rets = [n for n in st.body if isinstance(n, ast.Return) and isinstance(n.value, ast.JoinedStr)]
                if len(rets) != 1:
                    raise ShapeError("%s: one f-string return expected" % kind)
                templates[kind] = ast.unparse(rets[0].value)
        if set(tables) != {"reduce", "scan"}:
            raise ShapeError("reduce / scan tables not found")
        return ops, tables, templates
    v, why = astlib.try_flag(compiled_tables)
    ops, tables, templates = v if v else ([], {"reduce": [], "scan": []}, {"reduce": "", "scan": ""})
    note = "" if why is None else "  (* shape not recognised: %s *)" % why
    out.append("(* the expression compiler: compiler.py _REDUCE_SCAN_OPS, numpy_backend._ir_to_source reduce / scan tables *)")
    out.append("Definition redscan_ops : list string := %s.%s" % (astlib.coq_list([_s(x) for x in sorted(ops)]), note))
    for name, kind in (("compiled_reduce_tbl", "reduce"), ("compiled_scan_tbl", "scan")):
        items = ["(%s, %s)" % (_s(k), _s(a)) for k, a in sorted(tables[kind], key=lambda e: e[0])]
        out.append("Definition %s : list (string * string) := %s." % (name, astlib.coq_list(items)))
        out.append("Definition %s_template : string := %s." % (name, _s(templates[kind])))

    def while_tests():
        m = astlib.module("klongpy/adverbs.py")
        res = []
        for fname in ("eval_adverb_while", "eval_adverb_scan_while"):
            fn = astlib.find_func(m, fname)
            loops = [n for n in ast.walk(fn) if isinstance(n, ast.While)]
            if len(loops) != 1:
                raise ShapeError("%s: one while loop expected" % fname)
            res.append(ast.unparse(loops[0].test))
        t = astlib.module("klongpy/types.py")
        fn = astlib.find_func(t, "kg_is_true")
        body = astlib.body_no_doc(fn)
        if len(body) != 1 or not isinstance(body[0], ast.Return) or [a.arg for a in fn.args.args] != ["q", "backend"]:
            raise ShapeError("kg_is_true(q, backend): single return expected")
        res.append(ast.unparse(body[0].value))
        return res
    v, why = astlib.try_flag(while_tests)
    v = v or ["", "", ""]
    klong = (v[0] == "kg_is_true(klong.eval(KGCall(a, b, arity=1)), klong._backend)"
             and v[1] == "kg_is_true(klong.eval(KGCall(a, b, arity=1)), backend)"
             and v[2] == "not (backend.is_number(q) and q == 0 or is_empty(q))")
    out.append("(* the loop tests of eval_adverb_while / eval_adverb_scan_while and the body of kg_is_true (types.py) *)")
    out.append("Definition while_test : string := %s.%s" % (_s(v[0]), "" if why is None else "  (* shape not recognised: %s *)" % why))
    out.append("Definition scan_while_test : string := %s." % _s(v[1]))
    out.append("Definition kg_is_true_body : string := %s." % _s(v[2]))
    out.append("(* true iff both loops judge the evaluated test by kg_is_true and kg_is_true is the Klong-truth expression; "
               "false = Python's own truth of the answer (the model then follows that) *)")
    out.append("Definition while_truth_is_klong : bool := %s." % astlib.coq_bool(klong))

    def guard():
        m = astlib.module("klongpy/adverbs.py")
        fn = astlib.find_func(m, "_has_zero_divisor")
        body = astlib.body_no_doc(fn)
        if len(body) != 1 or not isinstance(body[0], ast.Try) or len(body[0].body) != 1 or not isinstance(body[0].body[0], ast.Return):
            raise ShapeError("_has_zero_divisor: try: return <test> expected")
        h = body[0].handlers
        if len(h) != 1 or len(h[0].body) != 1 or ast.unparse(h[0].body[0]) != "return False":
            raise ShapeError("_has_zero_divisor: except: return False expected")
        return ast.unparse(body[0].body[0].value)
    v, why = astlib.try_flag(guard)
    out.append("(* the test of _has_zero_divisor(a) *)")
    out.append("Definition zero_divisor_guard : string := %s.%s" % (_s(v or ""), "" if why is None else "  (* shape not recognised: %s *)" % why))
    return "\n".join(out) + "\n"


# ---------------------------------------------------------------- universe
def L(*xs):
    return ["l"] + list(xs)


def S(s):
    return ["s", s]


ATOMS_NUM = [0, 1, 5, -3]
VECS = [L(), L(5), L(1, 2), L(3, 1, 2), L(4, -2, 7, 1), L(1, 2, 3, 4, 5)]
MATS = [L(L(1, 2), L(3, 4)), L(L(1, 2, 3)), L(L(5)), L(L(1, 2), L(3, 4), L(5, 7)), L(L(6, 5, 4), L(1, 2, 3)),
        L(L(2), L(3), L(4)), L(L(L(1, 2), L(3, 4)), L(L(5, 6), L(7, 8)))]
NESTED_NUM = [L(1, L(2, 3)), L(L(1, 2), L(3, 4, 5)), L(L(1), L()), L(1, L(2, L(3, L(4), 5), 6), 7), L(L(1, 2), 3, L(4, L(5))),
              L(4, L(1, 2), 0), L(8, L(2), 0), L(4, 0, L(1, 2))]      # object arrays holding a zero: the % guard
STRS = [S(""), S("a"), S("ab"), S("abc"), S("hello")]
STRUCT = [["c", "a"], L(S("ab"), S("cd")), L(S("a"), L(1)), L(["c", "a"], ["c", "b"]), L(S("ab"), 1, L(2))]
DICTS = [["d", [1, 2], [3, 4]], ["d"], ["d", [1, 2]], ["d", [S("k"), L(1, 2)]]]
REALS = [2.5, 0.5, -1.5, L(1.5, 2.25, 0.5), L(0.1, 0.2, 0.3), L(2.0, 4.0), L(0.1), L(L(0.1, 0.2), L(0.3, 0.4)),
         L(L(1.5, 2.5, 3.5), L(0.5, 0.25, 4.0)), L(1e100, 3.0), L(L(0.1, 0.7), L(0.2, 0.3), L(0.3, 0.9))]
NUM = ATOMS_NUM + VECS + MATS + NESTED_NUM + REALS
ALLOPS = NUM + STRS + STRUCT

A2 = ["+", "-", "*", "%", "&", "|", "=", "<", ">", "L+", "L-", "L*", "L%", "L&", "L|", "L=", "L<", "L>",
      "Lnc", "Ldec", "proj", "nproj", "named", "py",
      "Ssub", "Sdiv", "Srem", "Spow", "Slt", "Sidiv", "Lxx", "Lyy"]
S2 = [",", "L,", "Lsnd", "Lfst", "Lnest", "Sjoin"]
# inline one-operator lambdas whose arguments are swapped / repeated / single: an idiom recogniser must not take them
# for the bare operator
SWAPPED = {"Ssub", "Sdiv", "Sjoin", "Srem", "Spow", "Slt", "Sidiv", "Lxx", "Lyy", "Lsnd", "Lfst"}
A1 = ["-", "L-", "Linc", "Ldbl", "Lcap", "Lhalf", "proj", "named", "py", "pycap", "Lnewton"]
# While / Scan-While tests answering truth values other than 0/1: (test, verb, starting operands)
TRUTH_CASES = [("size", "Ldrop", [L(1, 2, 3), S("abc"), L(7), L(), S(""), L(L(1, 2), L(3))]),
               ("self", "Ldrop", [L(1, 2, 3), S("abc"), L(7), L(0), L(), S("")]),
               ("m4", "Linc", [0, 1, 4, 2.5]), ("rem10", "Linc2", [0, 4, 10]), ("realrem", "Linc", [0, 2, 4]),
               ("self", "Linc", [-3, 0]), ("self", "L-", [0.0, 0])]
S1 = ["#", "L#", ",", "L,", "|", "*", "Ldup", "Lid", "Lone", "Lcons", "Lflat"]
GROW1 = {"Ldup", "Lcons", "Ldbl", "named", ",", "L,"}
MONADIC_USE = ["each", "eachindex", "over", "scan", "eachpair", "converge", "scanconv"]
VERB_ARITY = {"each": 1, "each2": 2, "eachleft": 2, "eachright": 2, "eachpair": 2, "eachindex": 1, "over": 2, "overn": 2,
              "scan": 2, "scann": 2, "iterate": 1, "scaniter": 1, "converge": 1, "while": 1, "scanconv": 1, "scanwhile": 1}
PREDS = ["lt10", "lt0", "never", "short", "lt30"]
OPS = {"+", "-", "*", "%", "&", "|", "=", "<", ">", ",", "#"}


def is_num(v):
    if isinstance(v, (int, float)):
        return True
    return v[0] == "l" and all(is_num(x) for x in v[1:])


def universe(tier, rng):
    """the closed case universe; quick = a seeded sample of it that always contains every (adverb, verb) pair,
    every shortcut operator on every vector / matrix operand, and every chain"""
    full = []
    must = []

    def add(c, core=False):
        (must if core else full).append(c)

    for adv in VERB_ARITY:
        ar = VERB_ARITY[adv]
        for v in (A1 + S1 if ar == 1 else A2 + S2):
            arithmetic = v in (A1 if ar == 1 else A2)
            if adv in ("converge", "scanconv") and v in GROW1:
                continue
            operands = NUM if arithmetic else ALLOPS
            if v == "*" and ar == 1 and adv in ("converge", "scanconv"):
                # First of a string is a character, and klongpy's Match calls a character and its one-character string
                # equal (C01's subject) while Converge's own test does not: numeric operands only
                operands = [a for a in operands if is_num(a)]
            if v == "Lnewton":
                # Newton's iteration for the square root of 2 (the reference's Converge example): positive starts only
                operands = [2, 2.0, 9, 0.5]
            elif v == "Lhalf":
                operands = [a for a in operands if a not in REALS]      # integer division of reals is C01's
            if not arithmetic or adv == "each":
                operands = operands + DICTS          # dictionaries are atoms for every adverb but Each
            if adv in ("while", "scanwhile"):
                # an orbit that never ends must at least stay small: atoms, vectors, strings only
                operands = [a for a in operands if (a in ATOMS_NUM and a >= 0) or a in VECS or a in STRS or a in (2.5, 0.5) or a in DICTS]
            for a in operands:
                if v == "|" and ar == 1 and (isinstance(a, (int, float)) or a[0] in ("c", "d", "s")):
                    continue          # Reverse of an atom (a character of a string included) is C01's subject
                shortcut = ar == 2 and v in OPS and adv in ("over", "scan") and is_num(a) and not isinstance(a, (int, float))
                swapcore = (ar == 2 and v in SWAPPED and adv in ("over", "scan", "overn", "scann", "each2", "eachpair")
                            and a in (L(3, 1, 2), L(4, -2, 7, 1), L(L(1, 2), L(3, 4)), L(L(6, 5, 4), L(1, 2, 3)), L(1.5, 2.25, 0.5)))
                isatom = isinstance(a, (int, float)) or a[0] in ("c", "d")
                if adv in MONADIC_USE:
                    add({"adv": adv, "verb": v, "a": a}, core=shortcut or swapcore or a in (L(3, 1, 2), S("abc"), 5) or v in ("pycap", "Lnewton"))
                elif adv in ("while", "scanwhile"):
                    for p in PREDS:
                        add({"adv": adv, "verb": v, "a": a, "left": p}, core=(a == 1 and p == "lt10"))
                elif adv in ("iterate", "scaniter"):
                    for n in (0, 1, 3):
                        add({"adv": adv, "verb": v, "a": a, "left": n}, core=(a in (1, L(1, 2)) and n == 3))
                else:
                    if adv == "each2":
                        lefts = [7, L(), L(10, 20), L(10, 20, 30), L(L(1, 1), L(2, 2)), 0.5, L(0.5, 1.5, 0.1)]
                    elif adv in ("eachleft", "eachright"):
                        lefts = [0, 7, L(1, 2), 0.5]
                    else:
                        lefts = [0, 10, L(), L(1, 2), 0.5, L(0.1, 0.2)]
                    if not arithmetic:
                        lefts = lefts + [S("xy"), ["c", "z"], ["d", [1, 2]]]
                    for l in lefts:
                        add({"adv": adv, "verb": v, "a": a, "left": l}, core=(a in (L(3, 1, 2), S("abc")) and l in (7, 0, 10, L(10, 20, 30))) or (swapcore and l in (0, 10, 7, L(10, 20), L(1, 2))))
    for p, v, starts in TRUTH_CASES:
        for a in starts:
            for adv in ("while", "scanwhile"):
                add({"adv": adv, "verb": v, "a": a, "left": p}, core=True)
    # chains: every first adverb of monadic use x every adverb of monadic verbs (+ one 3-chain)
    cverbs1 = ["-", "#", "Lid", "Lone", "Lcap", "|", "py"]
    cverbs2 = ["+", ",", "&", "Lsnd", "Lnc", "L+", "py", "-", "Ssub", "Sjoin", "Sdiv", "Lxx"]
    cops = [L(L(1, 2), L(3, 4)), L(L(1, 2, 3), L(4, 5, 6), L(7, 8, 9)), L(1, L(2, L(3, L(4), 5), 6), 7), L(3, 1, 2), L(L(5)), L(), 5,
            L(S("ab"), S("cd")), L(L(1), L(2, 3)), L(L(0.1, 0.2), L(0.3, 0.4)), ["d", [1, 2], [3, 4]]]
    calm1 = ["Lid", "Lone", "Lcap", "#", "-", "pycap"]      # verbs under which a repeated application stays bounded
    for first in MONADIC_USE:
        for second in ("each", "eachindex", "converge", "scanconv"):
            vs = cverbs1 if VERB_ARITY[first] == 1 else cverbs2
            if second in ("converge", "scanconv"):
                # the derived monad is applied until a fixpoint: only combinations whose orbit stays bounded
                # (an operator shortcut inside an endless orbit never passes through the evaluation budget)
                if first in ("eachindex", "scan", "scanconv"):
                    continue
                if VERB_ARITY[first] == 1:
                    vs = calm1
            for v in vs:
                for a in cops:
                    if v in ("|",) and isinstance(a, (int, float)):
                        continue
                    if v in (A1 if VERB_ARITY[first] == 1 else A2) and not is_num(a):
                        continue          # arithmetic on strings is outside the verbs' domain (and can explode)
                    add({"adv": first, "verb": v, "a": a, "chain": [second]}, core=(a == cops[0] or a == cops[2]))
    for v in ("+", ",", "Lnc"):
        for a in cops[:3]:
            add({"adv": "over", "verb": v, "a": a, "chain": ["each", "each"]}, core=True)
            add({"adv": "over", "verb": v, "a": a, "chain": ["each", "scanconv"]}, core=True)
    if tier == "thorough":
        cases = must + full
    else:
        k = min(len(full), 5200)
        cases = must + rng.sample(full, k)
    for i, c in enumerate(cases):
        c["id"] = i
    return cases, len(must) + len(full)


# ---------------------------------------------------------------- running both sides
def run_children(cases, nproc=4):
    env = dict(os.environ, PYTHONPATH=REPO + ":" + VERIF, PYTHONHASHSEED="0")
    shards = [cases[i::nproc] for i in range(nproc)]
    procs = []
    for sh in shards:
        p = subprocess.Popen([PY, "-W", "ignore", "-m", "harness.c02_child"], stdin=subprocess.PIPE, stdout=subprocess.PIPE,
                             stderr=subprocess.PIPE, env=env, cwd=VERIF)
        procs.append((p, sh))
    import threading
    results = {}
    errs = []

    def feed(p, sh):
        try:
            out, err = p.communicate(("\n".join(json.dumps(c) for c in sh) + "\n").encode(), timeout=1500)
        except subprocess.TimeoutExpired:
            p.kill()
            errs.append("child timed out")
            return
        lines = [l for l in out.decode().split("\n") if l.startswith("{")]
        if len(lines) != len(sh):
            errs.append("child answered %d of %d cases: %s" % (len(lines), len(sh), err.decode()[-800:]))
            return
        for l in lines:
            o = json.loads(l)
            results[o["id"]] = o
    ths = [threading.Thread(target=feed, args=ps) for ps in procs]
    for t in ths:
        t.start()
    for t in ths:
        t.join()
    if errs:
        raise RuntimeError("; ".join(errs))
    return results


def to_sx(v):
    """structured operand -> model value"""
    if isinstance(v, int):
        return ["i", v]
    if isinstance(v, float):
        import struct
        return ["r", struct.unpack(">Q", struct.pack(">d", v))[0]]
    t = v[0]
    if t == "c":
        return ["c", ord(v[1])]
    if t == "s":
        return ["s"] + [ord(c) for c in v[1]]
    if t == "l":
        return ["l"] + [to_sx(x) for x in v[1:]]
    if t == "d":
        return ["d"] + [[to_sx(k), to_sx(x)] for k, x in v[1:]]
    raise ValueError(v)


MODEL_FUEL = 120


def model_request(c, route=0):
    adv = c["adv"]
    if "left" not in c:
        left = ["none"]
    elif adv in ("while", "scanwhile"):
        left = ["pred", c["left"]]
    else:
        left = to_sx(c["left"])
    return sx(["run", adv, c["verb"], c.get("chain", []), left, to_sx(c["a"]), MODEL_FUEL, route])


def norm(c):
    """the one comparison form (strings = lists of characters, NumPy's numeric homogenisation, NaN): harness/c02_child.norm"""
    from .c02_child import norm as child_norm
    return child_norm(c)


def has_real(c):
    if isinstance(c, list):
        return (len(c) > 0 and c[0] == "r") or any(has_real(x) for x in c[1:])
    return False


def all_real(c):
    """every integer leaf read as a real"""
    import struct
    if isinstance(c, list):
        if len(c) == 2 and c[0] == "i":
            return ["r", struct.unpack(">Q", struct.pack(">d", float(c[1])))[0]]
        return [c[0]] + [all_real(x) for x in c[1:]] if c and isinstance(c[0], str) else [all_real(x) for x in c]
    return c


def model_calls(m):
    log = m[-1]
    out = []
    for e in log[1:]:
        out.append([e[0]] + [norm(x) for x in e[1:]])
    return out


def impl_calls(apps):
    return [[a[0]] + [norm(x) for x in a[1:]] for a in apps]


def py_calls(tlog):
    return [[2 if a[0] == "d" else 1] + [norm(x) for x in a[1:]] for a in tlog]


def classify(chk, c, o, m):
    """returns (property_failure or None, correspondence_failure or None)"""
    t, e = o["tn"], o["en"]
    terr = t[0] in ("e",)
    eerr = e[0] in ("e",)
    thang = t[0] == "hang"
    ehang = e[0] == "hang"
    prop = None
    outside = e[0] == "outside"
    unrep = bool(o.get("unrep"))
    key = c["adv"] + ("+" + "+".join(c["chain"]) if c.get("chain") else "")
    chk.count("adv_" + key)
    if outside:
        chk.count("outside_documented_domain")
    elif unrep:
        chk.count("result_list_not_representable")
    elif thang or ehang:
        chk.count("over_budget")
        if thang != ehang:
            prop = "one of text / expansion exceeded the evaluation budget (%s / %s)" % (t[0], e[0])
    elif terr and eerr:
        chk.count("both_error")
    elif terr != eerr:
        prop = "text %s but expansion %s" % ("raises " + t[1] if terr else "gives a value", "raises " + e[1] if eerr else "gives a value")
    elif t != e and c["verb"] in ("%", "L%") and all_real(t) == all_real(e):
        # real division: NumPy keeps a1 of %\\a an integer in one path and converts it in the other (C01: numeric homogenisation)
        chk.count("agree_value_modulo_int_real")
    elif t != e:
        prop = "text and expansion give different values"
    else:
        chk.count("agree_value")
        if c["verb"] in ("py", "pycap") and not eerr:
            want = [a for a in impl_calls(o["eapps"]) if a[0] != "p"]
            if py_calls(o["tlog"]) != want:
                prop = "the Python verb was not applied to the same arguments in the same order as the expansion prescribes"
            else:
                chk.count("py_call_traces_compared")
    # model equality
    corr = None
    if m[0] == "bad":
        corr = "model rejected the request: %r" % (m,)
    elif m[0] == "err" and m[1] in (99,):
        chk.count("model_unmodelled")
    elif unrep:
        pass
    else:
        chk.count("model_compared")
        if m[0] == "fuel":
            if not thang:
                corr = "model runs out of fuel, implementation %s" % t[0]
        elif m[0] == "err":
            if not terr:
                corr = "model raises (%s), implementation does not" % m[1]
        else:
            mv = norm(m[1])
            if terr or thang:
                corr = "model gives a value, implementation %s" % t[0]
            elif mv != t:
                corr = "model and implementation give different values"
            elif c["verb"] not in OPS and not outside and not eerr and not prop and model_calls(m) != impl_calls(o["eapps"]):
                corr = "model's applications of the verb differ from the expansion's"
            else:
                chk.count("model_agrees")
    return prop, corr


def judge(t, e):
    """property oracle on two normalised results: None = agree (or both fail), else what differs"""
    terr, eerr = t[0] == "e", e[0] == "e"
    thang, ehang = t[0] == "hang", e[0] == "hang"
    if thang or ehang:
        return None if thang == ehang else "one of text / expansion exceeded the evaluation budget (%s / %s)" % (t[0], e[0])
    if terr and eerr:
        return None
    if terr != eerr:
        return "text %s but expansion %s" % ("raises " + t[1] if terr else "gives a value", "raises " + e[1] if eerr else "gives a value")
    return None if t == e else "text and expansion give different values"


def model_vs(m, t):
    """model equality on a model answer and a normalised implementation result: None = agree / not comparable"""
    if m[0] == "bad":
        return "model rejected the request: %r" % (m,)
    if m[0] == "err" and m[1] == 99:
        return None
    if m[0] == "fuel":
        return None if t[0] == "hang" else "model runs out of fuel, implementation %s" % t[0]
    if m[0] == "err":
        return None if t[0] == "e" else "model raises (%s), implementation does not" % m[1]
    if t[0] in ("e", "hang"):
        return "model gives a value, implementation %s" % t[0]
    return None if norm(m[1]) == t else "model and implementation give different values"


def replay_body(c, o, m=None):
    return {"case": c, "text": o.get("text"), "operand": o.get("a"), "text_result": o.get("t"), "expansion_result": o.get("e"),
            "python_verb_calls_text": o.get("tlog"), "expansion_applications": o.get("eapps"), "model": m}


def run(tier, replay=None):
    chk = Check("C02", tier)
    rng = random.Random(chk.seed)
    chk.generate(generate())
    chk.build_model()
    hits = forbidden_scan("C02")
    proof = chk.build_proofs()
    if hits:
        proof["ok"] = False
        proof["error"] = "forbidden declarations: %r" % hits
        proof["broken"] = hits[0]
    cases, total = universe(tier, rng)
    chk.counters["universe_size"] = total
    outs = run_children(cases, nproc=4)
    models = chk.run_model([model_request(c) for c in cases])
    # the compiled route: single Over / Scan-Over of an operator, operand in a variable / function argument
    routed = [c for c in cases if not c.get("chain") and c["adv"] in ("over", "scan") and c["verb"] in OPS]
    routed_models = dict(zip([c["id"] for c in routed], chk.run_model([model_request(c, 1) for c in routed])))
    props, corrs = [], []
    seen = set()
    for c, m in zip(cases, models):
        o = outs[c["id"]]
        chk.count("evaluations")
        if "infra" in o:
            raise RuntimeError("child could not run case %r: %s" % (c, o["infra"]))
        prop, corr = classify(chk, c, o, m)
        nontrivial = o["en"][0] not in ("outside", "e", "hang") or o["tn"][0] not in ("e", "hang")
        if nontrivial and o["text"] not in seen:
            seen.add(o["text"])
            chk.count("distinct_nontrivial")
        # the operand in a variable / as a function argument: judged by the same expansion
        if "tvn" in o and o["en"][0] != "outside" and not o.get("unrep"):
            for key, how in (("tv", "with the operand in a variable"), ("tf", "with the operand as a function argument")):
                chk.count("variable_forms_judged")
                pv = judge(o[key + "n"], o["en"])
                if pv and not (c["verb"] in ("%", "L%") and all_real(o[key + "n"]) == all_real(o["en"])):
                    if not prop:
                        prop = "%s: %s (%s)" % (how, pv, o[key + "_text"])
                        o = dict(o, text=o[key + "_text"], t=o[key])
                m1 = routed_models.get(c["id"])
                if m1 is not None:
                    chk.count("compiled_route_model_compared")
                    cv = model_vs(m1, o[key + "n"])
                    if cv and not corr:
                        corr = "compiled route, %s: %s" % (how, cv)
        if prop:
            props.append((prop, c, o, m))
        if corr:
            corrs.append((corr, c, o, m))
        if nontrivial and not prop and not corr:
            chk.sample({"text": o["text"], "result": sx(o["t"])[:120], "expansion_applications": len(o["eapps"])}, limit=8)
    if os.environ.get("VERIF_DEBUG"):
        for what, c, o, m in props + corrs:
            print("DEBUG", what, "|", o.get("text"), "|", sx(o.get("t"))[:90], "|", sx(o.get("e"))[:90], "|", sx(m)[:120], flush=True)
    # property failures: one VIOLATION per class (adverb, what)
    shown = set()
    for prop, c, o, m in props:
        k = (c["adv"], tuple(c.get("chain", [])), prop.split(" (")[0])
        if k in shown:
            continue
        shown.add(k)
        if len(shown) > 12:
            break
        chk.violation("%s %s: %s  [text result %s, expansion %s]" % (c["adv"], o["text"], prop, sx(o["t"])[:80], sx(o["e"])[:80]),
                      replay_body(c, o, m))
    chk.counters["property_failures"] = len(props)
    chk.counters["correspondence_failures"] = len(corrs)
    if not chk.violations:
        if corrs:
            corr, c, o, m = corrs[0]
            chk.violation("correspondence between klongpy and the Coq model broke (%s, first: %s %s); no failing input of the property found in %d cases"
                          % (len(corrs), o["text"], corr, len(cases)),
                          {"broken": "correspondence C02/Model.v", "detail": replay_body(c, o, m)}, no_input=True)
        if not proof["ok"] and not chk.violations:
            chk.violation("proof obligation no longer checks: %s" % proof["broken"],
                          {"broken_obligation": proof["broken"], "coq_error": proof["error"], "generated": chk.generated_text}, no_input=True)
    return chk.finish(
        rule="closed universe: 16 adverbs x closed verb set (operators, equivalent lambdas, non-commutative/non-associative lambdas, projections, "
             "named functions, a logging Python callable) x operands (atoms, strings, vectors of length 0..5, matrices, rank 3, nested lists, dictionaries) "
             "x left operands / counts / predicates, plus all chains (7 first adverbs x 4 adverbs of monadic verbs) and two 3-chains; "
             "thorough = the whole universe, quick = every core case (all shortcut operators on every numeric vector/matrix, every adverb x verb, every chain) "
             "+ a seeded sample. distinct_nontrivial = distinct source texts whose text or expansion evaluation yields a value (not both errors, not outside the documented domain)",
        trusted_base=TRUSTED, assumptions=ASSUME)


def replay(path):
    body = json.load(open(path))
    r = body.get("replay", {})
    d = r.get("detail", r)
    c = d.get("case")
    if not c:
        print(json.dumps(body, indent=1))
        return 0
    o = run_children([dict(c, id=0)], nproc=1)[0]
    print("text      :", o["text"])
    print("actual    :", sx(o["t"]))
    for key in ("tv", "tf"):
        if key in o:
            print("text      :", o[key + "_text"])
            print("actual    :", sx(o[key]))
    print("expected  :", sx(o["e"]), "(the expansion, as separately evaluated applications)")
    ok = o["tn"] == o["en"] and all(o.get(k + "n", o["en"]) == o["en"] for k in ("tv", "tf"))
    return 0 if ok else 1
