"""C11 — readable output reads back to the same value (.w/.rs/.r, Format/Form).

Link 1 (Coq): coq/C11/Properties.v — the reader applied to the writer's text returns the value
   (kg_asarray-normalised), for ALL writable values (any nesting depth, any code points).
Link 2 (here): the real kg_write / .rs / .r / ~ / $ / :$ of $VERIF_REPO against the extracted model on an
   enumerated value universe; the assumptions about float text are exercised on many floats per run.
"""
import ast
import itertools
import json
import os
import random
import re
import shutil
import struct
import sys

from . import astlib
from .astlib import ShapeError
from .common import Check, sx, forbidden_scan, VERIF, REPO

TRUSTED = [
    "Coq 8.16.1 kernel (coqc); vm_compute only in Examples and _refuted witnesses",
    "Print Assumptions: all C11 theorems closed under the global context (no axioms); float text conversion and "
    "non-ASCII character classes are Section variables (record `env`) with the hypotheses `env_ok`",
    "translator harness/c11.py:generate (Python ast): kg_read delimiter list, read_list loop shape and read_neg flags, "
    "the .rs/.r call sites, the literal pieces of kg_write_symbol/char/list/dict/string; str.isspace/isalpha/isdigit/isnumeric "
    "ranges of the running CPython for code points >= 128",
    "extraction: ExtrOcamlBasic only; Z kept inductive; ocaml/driver.ml",
    "correspondence harness: value universe enumerator, canonical form of results (c11.canon), look-up-table instantiation of "
    "fmt_real/parse_real/real_of_int with the texts computed by the running Python",
]
ASSUME = [
    "float(str(f)) == f bit for bit for every finite float and str(f) matches -?D+(.D+)?(e[+-]?D+)? with a '.' or an 'e' "
    "(Section hypotheses env_ok; checked on every run for the floats counted under float_text_checked, by Python and by the extracted real_shape)",
    "str(np.float64(f)) == repr(float(f)) (both spellings reach kg_write_float)",
    "np.asarray's shape discovery and dtype inference on nested Python lists is modelled by `asarray` (rshape = longest common "
    "prefix of element shapes); integers inside lists are restricted to int64 (uint64/object/float64 promotion of larger ones is not modelled); "
    "nesting deeper than NumPy's 64 dimensions is not modelled",
    "int(text) is modelled for ASCII digits only (other Unicode decimal digits -> Err); never produced by the writer",
    "dictionary keys compare as Python objects (1 == 1.0, 0ca == \"a\"); the model compares an int key with a real key through real_of_int",
    "Match (~) in the theorem is the idealised structural match (an integer matches the real it converts to); the harness uses klongpy's own ~",
]

STD = {
    "gen_delims": [59, 40, 41, 123, 125, 93],
}


# ------------------------------------------------------------------ translator
def _zs(s):
    return "[" + "; ".join(str(ord(c)) for c in s) + "]"


def _ranges(pred):
    out, start = [], None
    for c in range(128, 0x110000):
        if pred(chr(c)):
            if start is None:
                start = c
        elif start is not None:
            out.append((start, c - 1))
            start = None
    if start is not None:
        out.append((start, 0x10FFFF))
    return out


def _coq_ranges(name, rs):
    body = ";\n  ".join("; ".join("(%d, %d)" % r for r in rs[i:i + 8]) for i in range(0, len(rs), 8))
    return "Definition %s : list (Z * Z) := [\n  %s].\n" % (name, body)


def _join_pieces(ret):
    """''.join([OPEN, SEP.join(<comprehension>), CLOSE]) -> (OPEN, SEP, CLOSE)"""
    if not (isinstance(ret, ast.Return) and isinstance(ret.value, ast.Call)):
        raise ShapeError("return ''.join(...) expected")
    c = ret.value
    if not (isinstance(c.func, ast.Attribute) and c.func.attr == "join" and astlib.const(c.func.value) == ""
            and len(c.args) == 1 and isinstance(c.args[0], ast.List) and len(c.args[0].elts) == 3):
        raise ShapeError("''.join([a, b, c]) expected")
    a, b, d = c.args[0].elts
    if not (isinstance(b, ast.Call) and isinstance(b.func, ast.Attribute) and b.func.attr == "join"
            and len(b.args) == 1 and isinstance(b.args[0], ast.ListComp)):
        raise ShapeError("SEP.join([... for ...]) expected")
    comp = b.args[0]
    if not (isinstance(comp.elt, ast.Call) and isinstance(comp.elt.func, ast.Name) and comp.elt.func.id == "kg_write"):
        raise ShapeError("elements are not written with kg_write")
    return astlib.const(a), astlib.const(b.func.value), astlib.const(d)


def _fprefix(fn, argname):
    """`return <display form> if display else f"PREFIX{arg}"` -> PREFIX"""
    body = astlib.body_no_doc(fn)
    if len(body) != 1 or not isinstance(body[0], ast.Return) or not isinstance(body[0].value, ast.IfExp):
        raise ShapeError("%s: single conditional return expected" % fn.name)
    e = body[0].value
    if not (isinstance(e.test, ast.Name) and e.test.id == "display"):
        raise ShapeError("%s: condition is not `display`" % fn.name)
    js = e.orelse
    if not (isinstance(js, ast.JoinedStr) and len(js.values) == 2 and isinstance(js.values[0], ast.Constant)
            and isinstance(js.values[1], ast.FormattedValue) and isinstance(js.values[1].value, ast.Name)
            and js.values[1].value.id == argname and js.values[1].conversion == -1 and js.values[1].format_spec is None):
        raise ShapeError("%s: f-string PREFIX{%s} expected" % (fn.name, argname))
    return js.values[0].value


def generate():
    out = ["From Coq Require Import ZArith List.", "Import ListNotations.", "Open Scope Z_scope."]
    notes = []

    def emit(name, ty, fn, bad):
        v, why = astlib.try_flag(fn)
        if why is not None:
            notes.append("(* %s: shape not recognised: %s *)" % (name, why.replace("*)", "* )")))
            v = bad
        if ty == "bool":
            out.append("Definition %s : bool := %s." % (name, astlib.coq_bool(v)))
        else:
            out.append("Definition %s : list Z := %s." % (name, _zs(v)))

    P = astlib.module("klongpy/parser.py")
    S = astlib.module("klongpy/sys_fn.py")
    W = astlib.module("klongpy/writer.py")

    def delims():
        fn = astlib.find_func(P, "kg_read")
        found = []
        for n in ast.walk(fn):
            if isinstance(n, ast.Compare) and len(n.ops) == 1 and isinstance(n.ops[0], ast.In) \
                    and isinstance(n.left, ast.Name) and n.left.id == "a" and isinstance(n.comparators[0], (ast.List, ast.Tuple, ast.Set)):
                found.append([astlib.const(e) for e in n.comparators[0].elts])
        if len(found) != 1 or not all(isinstance(x, str) and len(x) == 1 for x in found[0]):
            raise ShapeError("kg_read: one `a in [...]` of single characters expected")
        return "".join(found[0])
    emit("gen_delims", "zs", delims, "")

    def loop_body():
        fn = astlib.find_func(P, "read_list")
        loops = [n for n in fn.body if isinstance(n, ast.While)]
        if len(loops) != 1:
            raise ShapeError("read_list: one while loop expected")
        return loops[0].body

    def rereads():
        b = loop_body()
        def is_reread(n):
            return (isinstance(n, ast.If) and isinstance(n.test, ast.Call) and isinstance(n.test.func, ast.Name)
                    and n.test.func.id == "safe_eq" and len(n.test.args) == 2 and isinstance(n.test.args[1], ast.Constant)
                    and n.test.args[1].value == "[")
        kinds = []
        for n in b:
            if isinstance(n, ast.Assign) and isinstance(n.value, ast.Call) and isinstance(n.value.func, ast.Name) and n.value.func.id == "kg_read":
                kinds.append("read")
            elif isinstance(n, ast.If) and isinstance(n.test, ast.Compare) and isinstance(n.test.ops[0], ast.Is) \
                    and len(n.body) == 1 and isinstance(n.body[0], ast.Break):
                kinds.append("none-break")
            elif is_reread(n):
                kinds.append("reread")
            elif isinstance(n, ast.Expr) and isinstance(n.value, ast.Call) and isinstance(n.value.func, ast.Attribute) and n.value.func.attr == "append":
                kinds.append("append")
            elif isinstance(n, ast.Assign) and isinstance(n.value, ast.Call) and isinstance(n.value.func, ast.Name) and n.value.func.id == "skip":
                kinds.append("skip")
            else:
                raise ShapeError("read_list loop: unexpected statement %s" % ast.dump(n)[:60])
        if kinds == ["read", "none-break", "append", "skip"]:
            return False
        if kinds == ["read", "none-break", "reread", "append", "skip"]:
            return True
        raise ShapeError("read_list loop: statements %r" % kinds)
    emit("gen_list_rereads_bracket", "bool", rereads, True)

    def kw_true(call, name):
        for k in call.keywords:
            if k.arg == name:
                return astlib.const(k.value) is True
        return False

    def list_neg():
        calls = [c for n in loop_body() for c in astlib.calls_in(n, "kg_read")]
        if len(calls) != 1:
            raise ShapeError("read_list loop: one kg_read call expected")
        if not kw_true(calls[0], "ignore_newline"):
            raise ShapeError("read_list: ignore_newline=True expected")
        return kw_true(calls[0], "read_neg")
    emit("gen_list_read_neg", "bool", list_neg, False)

    def helper_builds_dict():
        """-> (top-level dictionary built, nested ones built)"""
        fn = astlib.find_func(S, "_read_data_object")
        b = [ast.unparse(n) for n in astlib.body_no_doc(fn)]
        top_only = ["if isinstance(a, KGCall) and a.a is copy_lambda:\n    return klong.eval(a)", "return a"]
        deep = ["if isinstance(a, KGCall) and a.a is copy_lambda:\n    return {k: _read_data_object(klong, v) for k, v in a.args.items()}",
                "if isinstance(a, list):\n    return [_read_data_object(klong, x) for x in a]",
                "if isinstance(a, numpy.ndarray) and a.dtype == object:\n    flat = a.reshape(-1)\n    for j in range(flat.size):\n        flat[j] = _read_data_object(klong, flat[j])",
                "return a"]
        if b == top_only:
            return True, False
        if b == deep:
            return True, True
        raise ShapeError("_read_data_object: body not recognised")

    def site(fname):
        fn = astlib.find_func(S, fname)
        calls = astlib.calls_in(fn, "kg_read_array")
        if len(calls) != 1:
            raise ShapeError("%s: one kg_read_array call expected" % fname)
        neg = kw_true(calls[0], "read_neg")
        inl = kw_true(calls[0], "ignore_newline")
        rets = [n for n in ast.walk(fn) if isinstance(n, ast.Return) and n.value is not None
                and not (isinstance(n.value, ast.Constant) and n.value.value is None)]
        if len(rets) != 1:
            raise ShapeError("%s: one value return expected" % fname)
        r = rets[0].value
        builds = (False, False)
        if isinstance(r, ast.Call) and isinstance(r.func, ast.Name) and r.func.id == "_read_data_object" and len(r.args) == 2 \
                and ast.unparse(r.args[1]) == "a":
            builds = helper_builds_dict()
        elif not (isinstance(r, ast.Name) and r.id == "a"):
            raise ShapeError("%s: returns %s" % (fname, ast.unparse(r)))
        return neg, builds[0], builds[1], inl
    emit("gen_rs_read_neg", "bool", lambda: site("eval_sys_read_string")[0], False)
    emit("gen_r_read_neg", "bool", lambda: site("eval_sys_read")[0], False)
    emit("gen_rs_builds_dict", "bool", lambda: site("eval_sys_read_string")[1], False)
    emit("gen_r_builds_dict", "bool", lambda: site("eval_sys_read")[1], False)
    emit("gen_rs_builds_nested", "bool", lambda: site("eval_sys_read_string")[2], False)
    emit("gen_r_builds_nested", "bool", lambda: site("eval_sys_read")[2], False)
    emit("gen_rs_ignore_newline", "bool", lambda: site("eval_sys_read_string")[3], False)
    emit("gen_r_ignore_newline", "bool", lambda: site("eval_sys_read")[3], False)

    def rs_fresh():
        """eval_sys_read_string keeps nothing between calls: its body is exactly `_, a = kg_read_array(x, 0, ...)` followed by
        `return <a or _read_data_object(klong, a)>` — no container attribute or module global is read or written"""
        fn = astlib.find_func(S, "eval_sys_read_string")
        b = astlib.body_no_doc(fn)
        if len(b) != 2 or not isinstance(b[0], ast.Assign) or not isinstance(b[1], ast.Return):
            raise ShapeError("eval_sys_read_string: body is not `_, a = kg_read_array(...)`; `return ...`")
        if ast.unparse(b[0].targets[0]) != "(_, a)" or not (isinstance(b[0].value, ast.Call) and ast.unparse(b[0].value.func) == "kg_read_array"):
            raise ShapeError("eval_sys_read_string: first statement is %s" % ast.unparse(b[0])[:60])
        args = [ast.unparse(x) for x in b[0].value.args]
        if args[:3] != ["x", "0", "klong._backend"]:
            raise ShapeError("eval_sys_read_string: parser called on %r" % (args,))
        if ast.unparse(b[1].value) not in ("a", "_read_data_object(klong, a)"):
            raise ShapeError("eval_sys_read_string: returns %s" % ast.unparse(b[1].value))
        for n in ast.walk(fn):
            if isinstance(n, (ast.Global, ast.Nonlocal)):
                raise ShapeError("eval_sys_read_string: global/nonlocal statement")
        return True
    emit("gen_rs_fresh_parse", "bool", rs_fresh, False)

    def r_channel():
        fn = astlib.find_func(S, "eval_sys_read")
        b = astlib.body_no_doc(fn)
        src = [ast.unparse(n) for n in b[:3]]
        if len(b) != 4 or src[0] != "f = klong['.sys.cin']" or src[1] != "k = f.raw.tell()" or not isinstance(b[3], ast.If):
            raise ShapeError("eval_sys_read: f = ...; k = f.raw.tell(); r = ...; if r == '' expected")
        if src[2] == "r = f.raw.read()":
            lstrip = False
        elif src[2] == "r = f.raw.read().lstrip()":
            lstrip = True
        else:
            raise ShapeError("eval_sys_read: text assignment is %s" % src[2])
        iff = b[3]
        if ast.unparse(iff.test) != "r == ''":
            raise ShapeError("eval_sys_read: end-of-file test is %s" % ast.unparse(iff.test))
        if [ast.unparse(n) for n in iff.body] != ["f.at_eof = True", "return None"]:
            raise ShapeError("eval_sys_read: end-of-file branch")
        els = iff.orelse
        if len(els) < 3 or not isinstance(els[0], ast.Assign) or ast.unparse(els[0].targets[0]) != "(i, a)":
            raise ShapeError("eval_sys_read: i, a = kg_read_array(...) expected")
        call = els[0].value
        if not (isinstance(call, ast.Call) and ast.unparse(call.func) == "kg_read_array" and len(call.args) >= 2
                and ast.unparse(call.args[0]) == "r" and ast.unparse(call.args[1]) == "0"):
            raise ShapeError("eval_sys_read: parser is not called on (r, 0)")
        if not isinstance(els[-1], ast.Return) or ast.unparse(els[-1].value) not in ("a", "_read_data_object(klong, a)"):
            raise ShapeError("eval_sys_read: `return a` / `return _read_data_object(klong, a)` expected")
        mid = [ast.unparse(n) for n in els[1:-1]]
        if mid == ["f.raw.seek(k, 0)", "f.raw.read(i)"]:
            by = False
        elif mid == ["f.raw.seek(k + i, 0)"]:
            by = True
        else:
            raise ShapeError("eval_sys_read: repositioning is %r" % (mid,))
        for n in ast.walk(fn):
            if isinstance(n, ast.Assign) and n is not b[2] and any(ast.unparse(t) == "r" for t in n.targets):
                raise ShapeError("eval_sys_read: r is assigned twice")
        return lstrip, by
    emit("gen_r_lstrip", "bool", lambda: r_channel()[0], True)
    emit("gen_r_reposition_bytes", "bool", lambda: r_channel()[1], True)
    # eval_sys_read keeps nothing between calls: the skeleton pinned by r_channel is tell / read / parse (r, 0) / reposition / return of THAT parse
    emit("gen_r_fresh_parse", "bool", lambda: r_channel() is not None, False)

    emit("gen_sym_prefix", "zs", lambda: _fprefix(astlib.find_func(W, "kg_write_symbol"), "x"), "")
    emit("gen_char_prefix", "zs", lambda: _fprefix(astlib.find_func(W, "kg_write_char"), "c"), "")

    def list_pieces():
        b = astlib.body_no_doc(astlib.find_func(W, "kg_write_list"))
        if len(b) != 1:
            raise ShapeError("kg_write_list: single return expected")
        return _join_pieces(b[0])

    def dict_pieces():
        b = astlib.body_no_doc(astlib.find_func(W, "kg_write_dict"))
        if not b or not isinstance(b[-1], ast.Return):
            raise ShapeError("kg_write_dict: final return expected")
        p = _join_pieces(b[-1])
        comp = b[-1].value.args[0].elts[1].args[0]
        if ast.unparse(comp.elt.args[0]) != "list(e)" or ast.unparse(comp.generators[0].iter) != "d.items()":
            raise ShapeError("kg_write_dict: entries are not written as list(e) for e in d.items()")
        return p
    for i, nm in enumerate(["open", "sep", "close"]):
        emit("gen_list_" + nm, "zs", lambda i=i: list_pieces()[i], "")
    for i, nm in enumerate(["open", "sep", "close"]):
        emit("gen_dict_" + nm, "zs", lambda i=i: dict_pieces()[i], "")

    def string_pieces():
        b = astlib.body_no_doc(astlib.find_func(W, "kg_write_string"))
        want = ["if display:\n    return s", None, None, None, "return ''.join(arr)"]
        if len(b) != 5 or ast.unparse(b[0]) != want[0] or ast.unparse(b[4]) != want[4]:
            raise ShapeError("kg_write_string: statement skeleton")
        a0 = b[1]
        if not (isinstance(a0, ast.Assign) and ast.unparse(a0.targets[0]) == "arr" and isinstance(a0.value, ast.List) and len(a0.value.elts) == 1):
            raise ShapeError("kg_write_string: arr = [OPEN]")
        opn = astlib.const(a0.value.elts[0])
        loop = b[2]
        if not (isinstance(loop, ast.For) and ast.unparse(loop.target) == "c" and ast.unparse(loop.iter) == "s" and len(loop.body) == 2):
            raise ShapeError("kg_write_string: for c in s with two statements")
        iff, app = loop.body
        if not (isinstance(iff, ast.If) and isinstance(iff.test, ast.Compare) and ast.unparse(iff.test.left) == "c"
                and isinstance(iff.test.ops[0], ast.Eq) and len(iff.body) == 1 and not iff.orelse):
            raise ShapeError("kg_write_string: if c == Q")
        when = astlib.const(iff.test.comparators[0])
        e = iff.body[0]
        if not (isinstance(e, ast.Expr) and isinstance(e.value, ast.Call) and ast.unparse(e.value.func) == "arr.append" and len(e.value.args) == 1):
            raise ShapeError("kg_write_string: arr.append(Q)")
        wth = astlib.const(e.value.args[0])
        if ast.unparse(app) != "arr.append(c)":
            raise ShapeError("kg_write_string: arr.append(c)")
        c = b[3]
        if not (isinstance(c, ast.Expr) and isinstance(c.value, ast.Call) and ast.unparse(c.value.func) == "arr.append" and len(c.value.args) == 1):
            raise ShapeError("kg_write_string: arr.append(CLOSE)")
        cls = astlib.const(c.value.args[0])
        return opn, cls, when, wth
    for i, nm in enumerate(["open", "close", "esc_when", "esc_with"]):
        emit("gen_str_" + nm, "zs", lambda i=i: string_pieces()[i], "")

    text = "\n".join(out + notes) + "\n"
    text += "(* classification of code points >= 128 by the running CPython (str.isspace / isalpha / isdigit / isnumeric) *)\n"
    text += _coq_ranges("gen_ext_space", _ranges(str.isspace))
    text += _coq_ranges("gen_ext_alpha", _ranges(str.isalpha))
    text += _coq_ranges("gen_ext_digit", _ranges(str.isdigit))
    text += _coq_ranges("gen_ext_numeric", _ranges(str.isnumeric))
    return text


# ------------------------------------------------------------------ abstract values <-> implementation values
def fbits(x):
    return struct.unpack(">Q", struct.pack(">d", float(x)))[0]


def bits_to_float(b):
    return struct.unpack(">d", struct.pack(">Q", b))[0]


def I(z): return ("i", z)
def R(f): return ("r", fbits(f))
def Ch(c): return ("c", ord(c))
def St(s): return ("s",) + tuple(ord(c) for c in s)
def Sy(s): return ("y",) + tuple(ord(c) for c in s)
def L(*xs): return ("l",) + tuple(xs)
def D(*kvs): return ("d",) + tuple((k, v) for k, v in kvs)


def canon(v):
    """implementation value -> abstract value (dictionary order preserved, no sorting)"""
    import numpy as np
    from klongpy.core import KGSym, KGChar, KGCall, KGOp, KGFn
    if v is None:
        return ("o", 0)
    if isinstance(v, KGCall):
        return ("o", 2)
    if isinstance(v, (KGOp, KGFn)):
        return ("o", 1)
    if isinstance(v, (bool, np.bool_)):
        return ("o", 9)
    if isinstance(v, (int, np.integer)):
        return ("i", int(v))
    if isinstance(v, (float, np.floating)):
        return ("r", fbits(v))
    if isinstance(v, KGChar):
        return ("c", ord(str(v))) if len(v) == 1 else ("o", 8)
    if isinstance(v, KGSym):
        return ("y",) + tuple(ord(c) for c in str(v))
    if isinstance(v, str):
        return ("s",) + tuple(ord(c) for c in v)
    if isinstance(v, np.ndarray):
        if v.ndim == 0:
            return canon(v.item())
        return ("l",) + tuple(canon(x) for x in v)
    if isinstance(v, (list, tuple)):
        return ("l",) + tuple(canon(x) for x in v)
    if isinstance(v, dict):
        return ("d",) + tuple((canon(k), canon(x)) for k, x in v.items())
    return ("o", 7)


def from_model(x):
    """parsed model s-expression -> abstract value"""
    t = x[0]
    if t in ("i", "r", "c", "o"):
        return (t, x[1])
    if t in ("s", "y"):
        return (t,) + tuple(x[1:])
    if t == "l":
        return ("l",) + tuple(from_model(e) for e in x[1:])
    if t == "d":
        return ("d",) + tuple((from_model(e[0]), from_model(e[1])) for e in x[1:])
    raise ValueError("model value %r" % (x,))


def raw(v):
    """abstract value -> what kg_read would hand to kg_asarray (nested Python lists)"""
    from klongpy.core import KGSym, KGChar
    t = v[0]
    if t == "i":
        return int(v[1])
    if t == "r":
        return bits_to_float(v[1])
    if t == "c":
        return KGChar(chr(v[1]))
    if t == "s":
        return "".join(chr(c) for c in v[1:])
    if t == "y":
        return KGSym("".join(chr(c) for c in v[1:]))
    if t == "l":
        return [raw(e) for e in v[1:]]
    if t == "d":
        return {raw(k): raw(x) for k, x in v[1:]}
    raise ValueError(v)


def impl_value(v, mode, backend):
    """abstract -> implementation value.  mode 'array': lists through kg_asarray (what klongpy holds after
    reading a literal); mode 'object': every list a 1-d object array (values other operations can leave behind)."""
    import numpy as np
    t = v[0]
    if t == "l":
        if mode == "array":
            return backend.kg_asarray(raw(v))
        arr = np.empty(len(v) - 1, dtype=object)
        for i, e in enumerate(v[1:]):
            arr[i] = impl_value(e, mode, backend)
        return arr
    if t == "d":
        return {raw(k): impl_value(x, mode, backend) for k, x in v[1:]}
    return raw(v)


def reals_of(v, acc):
    t = v[0]
    if t == "r":
        acc[0].add(v[1])
    elif t == "i":
        acc[1].add(v[1])
    elif t == "l":
        for e in v[1:]:
            reals_of(e, acc)
    elif t == "d":
        for k, x in v[1:]:
            reals_of(k, acc)
            reals_of(x, acc)
    return acc


def env_tables(*vals):
    """the float environment of one case, computed by the running Python"""
    acc = (set(), set())
    for v in vals:
        reals_of(v, acc)
    roi = []
    for z in sorted(acc[1]):
        try:
            b = fbits(float(z))
        except OverflowError:
            continue
        roi.append((z, b))
        acc[0].add(b)
    fmt = [(b, tuple(ord(c) for c in repr(bits_to_float(b)))) for b in sorted(acc[0])]
    return fmt, roi


def vsx(v):
    t = v[0]
    if t in ("i", "r", "c", "o"):
        return "(%s %d)" % (t, v[1])
    if t in ("s", "y"):
        return "(" + " ".join([t] + [str(c) for c in v[1:]]) + ")"
    if t == "l":
        return "(" + " ".join(["l"] + [vsx(e) for e in v[1:]]) + ")"
    if t == "d":
        return "(" + " ".join(["d"] + ["(%s %s)" % (vsx(k), vsx(x)) for k, x in v[1:]]) + ")"
    raise ValueError(v)


def env_sx(fmt, roi):
    return "(%s) (%s)" % (" ".join("(%d (%s))" % (b, " ".join(map(str, t))) for b, t in fmt),
                          " ".join("(%d %d)" % p for p in roi))


def show(v, limit=160):
    """short human-readable rendering of an abstract value for replays"""
    def go(v):
        t = v[0]
        if t == "i": return str(v[1])
        if t == "r": return repr(bits_to_float(v[1]))
        if t == "c": return "0c" + chr(v[1])
        if t == "s": return json.dumps("".join(chr(c) for c in v[1:]))
        if t == "y": return ":" + "".join(chr(c) for c in v[1:])
        if t == "l": return "[" + " ".join(go(e) for e in v[1:]) + "]"
        if t == "d": return ":{" + " ".join("[%s %s]" % (go(k), go(x)) for k, x in v[1:]) + "}"
        return "<%s %s>" % (t, v[1:])
    return go(v)[:limit]


# ------------------------------------------------------------------ the universe
ALPHA = ['"', "[", "]", ":", ";", " ", "\n", "0", "c", "a"]
EXTRA_CHARS = ["{", "}", "-", ".", "e", "(", ")", "\t", "\\", "'", "\u00e9", "\u20ac", "\U0001F600", "\u00a0", "\u0663", "\u00b2", "\u2003", "\x00", "\x7f"]
INTS_INNER = [0, 1, -1, 7, -42, 10, 99, 100, 1000000, 2 ** 31 - 1, -2 ** 31, 2 ** 53 + 1, -(2 ** 53) - 1, 2 ** 63 - 1, -2 ** 63]
INTS_TOP = [2 ** 63, 2 ** 64, 10 ** 30, -10 ** 30, -2 ** 63 - 1]
REALS = [0.0, -0.0, 1.0, -1.0, -1.5, 2.5, 0.1, 1e100, -1e100, 1e-7, 1.5e-7, -2.5e-10, 1e16, 1e22, 1.2345678912345e+25, 123456789.123,
         5e-324, 1.7976931348623157e308, -1.7976931348623157e308, 2.2250738585072014e-308, 1 / 3, 1e15, 1e-5, 0.0001, 9007199254740993.0,
         1e21, 123456.789e3, 4.35, 2.0 ** 70, 3.141592653589793]
SYMS = ["a", "x", "y", "foo", "a.b", ".f", "a1", "Z9", ".sys.cin", "inf", "nan", "e", "c0c", "\u00e9t\u00e9", "x\u0663"]


def strings_upto(n):
    for k in range(n + 1):
        for t in itertools.product(ALPHA, repeat=k):
            yield "".join(t)


SPECIAL_STRINGS = ["] [", "a] [b", "} {", "[] []", ']"', '" "', "1 -2", "0c", " :", ':"', '":', '0c"', "[1 2]", ':"a"', "é€", 'say "hi"', '""', '"""', "a\nb\n", "]]", "[[", " [", "] ", ":{[1 2]}", "\U0001F600x",
                   "1e5", "-", "\\", "tab\there", ":foo", "0cx", ";;", " ", "a" * 40 + '"' + "b" * 40]


def atoms(tier):
    out = []
    out += [I(z) for z in INTS_INNER]
    out += [R(f) for f in REALS]
    out += [Ch(c) for c in ALPHA + EXTRA_CHARS]
    out += [St(s) for s in strings_upto(2 if tier == "quick" else 3)]
    out += [St(s) for s in SPECIAL_STRINGS]
    out += [Sy(s) for s in SYMS]
    return out


LEAVES3 = [I(1), R(2.5), St("a")]


def trees(depth, k, leaves):
    """all values of nesting depth <= depth whose lists have <= k elements"""
    if depth == 0:
        return list(leaves)
    sub = trees(depth - 1, k, leaves)
    out = list(leaves)
    for n in range(k + 1):
        for t in itertools.product(sub, repeat=n):
            out.append(L(*t))
    return out


_tree_cache = {}


def TREES23():
    if "23" not in _tree_cache:
        _tree_cache["23"] = [v for v in trees(2, 3, LEAVES3) if v[0] == "l"]
    return _tree_cache["23"]


def TREES32():
    if "32" not in _tree_cache:
        _tree_cache["32"] = [v for v in trees(3, 2, LEAVES3) if v[0] == "l"]
    return _tree_cache["32"]


def rand_value(rng, depth, pool, inner=True):
    if depth == 0 or rng.random() < 0.35:
        return rng.choice(pool)
    n = rng.choice([0, 1, 1, 2, 2, 3, 4])
    return L(*[rand_value(rng, depth - 1, pool) for _ in range(n)])


def rand_string(rng):
    n = rng.choice([0, 1, 2, 3, 5, 8, 13, 40])
    pool = ALPHA * 3 + EXTRA_CHARS
    s = []
    for _ in range(n):
        r = rng.random()
        if r < 0.8:
            s.append(rng.choice(pool))
        else:
            c = rng.randint(0, 0x10FFFF)
            if 0xD800 <= c <= 0xDFFF:
                c = 0x263A
            s.append(chr(c))
    return "".join(s)


def universe(tier, rng):
    """yield (kind, mode, abstract value)"""
    at = atoms(tier)
    for a in at:
        yield "atom", "array", a
    for z in INTS_TOP:
        yield "atom", "array", I(z)
    small = [I(1), I(-2), R(2.5), R(-0.0), R(1e100), R(1e-7), Ch("a"), Ch('"'), Ch("["), Ch("]"), Ch(" "), St(""), St('a"'), St("["), St("]"),
             St(':"'), St("\n"), Sy("s"), Sy("a.b")]
    # depth 1: every list of <= 2 elements over `small`, every list of 3 over a core
    for n in range(3):
        for t in itertools.product(small, repeat=n):
            yield "list1", "array", L(*t)
    core = [I(-2), R(2.5), Ch("["), St('"'), Sy("s"), St("")]
    for t in itertools.product(core, repeat=3):
        yield "list1", "array", L(*t)
    # every atom once inside a list and once nested twice, next to a neighbour
    for a in at:
        if a[0] == "s" and len(a) > 3 and tier == "quick":
            continue
        yield "list1", "array", L(a)
        yield "list2", "array", L(I(7), L(a, St("z")))
    # nestings: all trees of depth <= 2 with lists of <= 3 elements over {1, 2.5, "a"}; depth 3 with <= 2 elements
    for v in trees(2, 2, LEAVES3):
        if v[0] == "l":
            yield "tree2", "array", v
    for name, ts, nq in (("tree2w", TREES23(), 6000), ("tree3", TREES32(), 8000)):
        if tier == "quick":
            for i in sorted(rng.sample(range(len(ts)), nq)):
                yield name, "array", ts[i]
        else:
            for v in ts:
                yield name, "array", v
    # seeded random nestings over the full atom set (depth <= 3, some deeper)
    pool = at + [St(rand_string(rng)) for _ in range(200)]
    n_rand = 3000 if tier == "quick" else 12000
    for j in range(n_rand):
        d = 3 if j % 10 else rng.choice([4, 5, 6])
        v = rand_value(rng, d, pool)
        if v[0] != "l":
            v = L(v)
        yield "random", "array", v
    # the same kind of value held as object arrays (what ,/_/@ can leave behind): may be non-normal
    for v in trees(2, 2, LEAVES3):
        if v[0] == "l":
            yield "object", "object", v
    for j in range(150 if tier == "quick" else 1500):
        v = rand_value(rng, 3, small + [I(3), R(0.5)])
        if v[0] != "l":
            v = L(v)
        yield "object", "object", v
    # dictionaries (top level): keys atoms, values atoms and lists
    keys = [I(1), I(-2), St("a"), Ch("b"), Sy("s"), R(2.5), St(""), St('k"'), I(10 ** 20), Ch("["), St("}")]
    vals = small + [L(), L(I(1), I(2)), L(I(1), R(2.5)), L(L(I(1)), L(St("}"))), L(St("a"), L(I(1), L(R(0.5)))), I(10 ** 20)]
    # dictionaries inside lists and inside dictionaries, to depth 4
    d1 = D((I(1), I(2)))
    d2 = D((St("a"), L(I(1), R(2.5))), (Sy("s"), St('q"')))
    nested = [L(d1), L(I(7), d1), L(d1, d2), L(L(d1, I(1)), L(I(2), I(3))), L(L(d1), L(d2)), L(D(), D()), L(St("}"), d1, Ch("{")),
              D((I(1), d1)), D((Sy("k"), D((I(2), D((I(3), L(I(4), D()))))))), D((St("x"), L(I(1), d2, L(d1)))), L(I(1), L(I(2), L(d2))),
              D((I(1), D())), L(R(2.5), d1, I(3)), L(L(I(1), I(2)), d1)]
    for v in nested:
        yield "nested_dict", "array", v
    for j in range(100 if tier == "quick" else 1500):
        def rnd(depth):
            r = rng.random()
            if depth == 0 or r < 0.3:
                return rng.choice(small + [I(10 ** 20)])
            if r < 0.65:
                return L(*[rnd(depth - 1) for _ in range(rng.randint(0, 3))])
            ks = rng.sample(keys, rng.randint(0, 3))
            return D(*[(k, rnd(depth - 1)) for k in ks])
        v = rnd(4)
        # integers outside int64 only directly inside dictionaries (NumPy promotion in lists is not modelled)
        def fix(v, inlist):
            if v[0] == "i" and inlist and not -2 ** 63 <= v[1] < 2 ** 63:
                return I(5)
            if v[0] == "l":
                return L(*[fix(e, True) for e in v[1:]])
            if v[0] == "d":
                return D(*[(k, fix(x, False)) for k, x in v[1:]])
            return v
        yield "nested_dict", "array", fix(v, False)
    yield "dict", "array", D()
    for k in keys:
        for x in vals:
            yield "dict", "array", D((k, x))
    for j in range(150 if tier == "quick" else 2000):
        n = rng.choice([2, 2, 3, 4])
        ks = rng.sample(keys, n)
        yield "dict", "array", D(*[(k, rng.choice(vals)) for k in ks])


# ------------------------------------------------------------------ implementation side
class Impl:
    def __init__(self):
        from klongpy import KlongInterpreter
        from klongpy.core import KGSym
        from klongpy.writer import kg_write
        self.k = KlongInterpreter()
        self.kg_write = kg_write
        self.backend = self.k._backend
        self.KGSym = KGSym

    def write(self, x):
        return self.kg_write(x, self.backend)

    def rs(self, text):
        self.k["t"] = text
        return self.k(".rs(t)")

    @staticmethod
    def _has_dict(x):
        import numpy as np
        if isinstance(x, dict):
            return True
        if isinstance(x, (list, tuple)) or (isinstance(x, np.ndarray) and x.dtype == object and x.ndim > 0):
            return any(Impl._has_dict(e) for e in x)
        return False

    def match(self, a, b):
        import numpy as np
        if not (isinstance(a, dict) or isinstance(b, dict)) and (self._has_dict(a) or self._has_dict(b)):
            # a list holding dictionaries: element by element (klongpy's ~ compares dictionaries with Python ==, which raises on list values)
            seq = lambda x: isinstance(x, (list, tuple)) or (isinstance(x, np.ndarray) and x.ndim > 0)
            if not (seq(a) and seq(b)) or len(a) != len(b):
                return False
            return all(self.match(x, y) for x, y in zip(a, b))
        if isinstance(a, dict) or isinstance(b, dict):
            # klongpy's ~ on two dictionaries is Python dict equality and raises on list values (not C11's subject):
            # dictionaries are compared entry by entry, keys as Python objects, values with ~
            if not (isinstance(a, dict) and isinstance(b, dict)) or len(a) != len(b):
                return False
            for (k1, x1), (k2, x2) in zip(a.items(), b.items()):
                if type(k1) is not type(k2) and not (isinstance(k1, (int, float)) and isinstance(k2, (int, float))):
                    return False
                if not (k1 == k2 and self.match(x1, x2)):
                    return False
            return True
        self.k["a"] = a
        self.k["b"] = b
        r = self.k("a~b")
        return bool(r == 1)

    def roundtrip(self, x):
        """-> dict(text, err, back(abstract), text2, match)"""
        out = {"text": None, "err": None, "back": None, "text2": None, "match": None}
        try:
            out["text"] = self.write(x)
        except Exception as e:  # noqa
            out["err"] = "write:" + type(e).__name__
            return out
        try:
            y = self.rs(out["text"])
        except Exception as e:  # noqa
            out["err"] = "rs:" + type(e).__name__
            return out
        out["back"] = canon(y)
        try:
            out["text2"] = self.write(y)
        except Exception as e:  # noqa
            out["err"] = "write2:" + type(e).__name__
        try:
            out["match"] = self.match(x, y)
        except Exception as e:  # noqa
            out["match"] = False
            out["match_err"] = type(e).__name__
        return out

    def file_roundtrip(self, x, path):
        """.w to a file channel, .r from it"""
        k = self.k
        k["v"] = x
        k["fn"] = path
        k('.tc(c::.oc(fn));.w(v);.cc(c)')
        with open(path, encoding="utf-8") as f:
            text = f.read()
        y = k('.fc(c::.ic(fn));r::.r();.cc(c);r')
        return text, y


def cps(s):
    return tuple(ord(c) for c in s)


def amatch(a, b):
    """Match on abstract values as Klong defines it: same kind of object everywhere (a character is not a
    one-character string, a symbol is not a string), numbers by value (an integer matches the real equal to it).
    klongpy's own ~ is also required by the oracle; this adds the kinds, which ~ does not look at."""
    ta, tb = a[0], b[0]
    if ta in ("i", "r") and tb in ("i", "r"):
        va = a[1] if ta == "i" else bits_to_float(a[1])
        vb = b[1] if tb == "i" else bits_to_float(b[1])
        try:
            if ta != tb:
                return float(va) == float(vb)
        except OverflowError:
            return False
        return a[1] == b[1] or (ta == "r" and va == vb)
    if ta != tb:
        return False
    if ta == "l":
        return len(a) == len(b) and all(amatch(x, y) for x, y in zip(a[1:], b[1:]))
    if ta == "d":
        return len(a) == len(b) and all(amatch(k1, k2) and amatch(x1, x2) for (k1, x1), (k2, x2) in zip(a[1:], b[1:]))
    return a == b


# ------------------------------------------------------------------ shards
def check_classes(chk, rng):
    """ASCII classes are hard-wired in the model; the rest comes from the generated ranges: compare with CPython"""
    pts = list(range(128)) + [0x85, 0xA0, 0xAA, 0xB2, 0xB5, 0xBC, 0x660, 0x663, 0x2003, 0x3000, 0x4E00, 0x1F600, 0x10FFFF, 0xD7FF, 0xE000]
    pts += [rng.randint(128, 0x10FFFF) for _ in range(1500)]
    pts = [p for p in pts if not 0xD800 <= p <= 0xDFFF]
    outs = chk.run_model(["(cls %d)" % p for p in pts])
    from klongpy.core import is_symbolic
    bad = None
    for p, o in zip(pts, outs):
        c = chr(p)
        want = [int(c.isspace()), int(c.isalpha()), int(c.isdigit()), int(c.isnumeric()), int(bool(is_symbolic(c)))]
        chk.count("evaluations")
        chk.count("class_points")
        if list(o) != want and bad is None:
            bad = {"kind": "character-class", "code_point": p, "python": want, "model": list(o)}
    return bad


FLOAT_RE = re.compile(r"-?[0-9]+(\.[0-9]+)?(e[+-]?[0-9]+)?\Z")


def check_float_text(chk, rng):
    """the Section hypotheses about float text, on REALS + seeded random finite floats of every magnitude"""
    import numpy as np
    n = 20000 if chk.tier == "quick" else 100000
    fs = list(REALS)
    # targeted: subnormals, powers of two around 2^53, the 1e22/1e23 boundary, 17-significant-digit values, negative zero,
    # integers outside int64 as floats, neighbours of powers of ten
    fs += [bits_to_float(b) for b in (1, 2, 3, 0xF, 0x000FFFFFFFFFFFFF, 0x0010000000000000, 0x0010000000000001, 0x8000000000000001, 0x800FFFFFFFFFFFFF)]
    for e in (52, 53, 54, 62, 63, 64, 65, 100, 1023):
        for d in (-2, -1, 0, 1, 2):
            b = fbits(2.0 ** e) + d
            fs += [bits_to_float(b), -bits_to_float(b)]
    for e in range(-30, 40):
        b = fbits(float("1e%d" % e))
        fs += [bits_to_float(b + d) for d in (-1, 0, 1)]
    fs += [1e22, 1e23, 9.999999999999999e22, 1.0000000000000001e23, 8.41e21, 0.1 + 0.2, 1 / 3, 2 / 3, 5e-324, 1.7976931348623157e308, 0.30000000000000004,
           9007199254740993.0, 2.0 ** 63, -2.0 ** 63, 2.0 ** 64, 1.8446744073709552e19, 1e19, 123456789012345678.0, -0.0, 0.0, 4.35, 4.3500000000000005,
           1.1754943508222875e-38, 2.2250738585072009e-308, 6.02214076e23, 1.23456789012345678e-7]
    while len(fs) < n:
        r = rng.random()
        if r < 0.5:
            b = rng.getrandbits(64)
        elif r < 0.7:
            b = fbits(rng.uniform(-1e6, 1e6))
        elif r < 0.8:
            b = fbits(float(rng.randint(-10 ** 18, 10 ** 18)))
        elif r < 0.9:
            b = fbits(round(rng.uniform(-1000, 1000), rng.randint(0, 6)))
        else:
            b = fbits(10.0 ** rng.randint(-320, 308) * rng.choice([1, -1, 2.5, 1.1]))
        f = bits_to_float(b)
        if f != f or f in (float("inf"), float("-inf")):
            continue
        fs.append(f)
    bad = None
    texts = []
    for f in fs:
        t = repr(f)
        texts.append(t)
        ok = (fbits(float(t)) == fbits(f) and FLOAT_RE.match(t) is not None and ("." in t or "e" in t)
              and str(np.float64(f)) == t and str(f) == t
              and fbits(float("   " + t)) == fbits(f) and fbits(float(t + "  ")) == fbits(f) and fbits(float(" " + t + " ")) == fbits(f))
        chk.count("float_text_checked")
        if not ok and bad is None:
            bad = {"kind": "float-text-assumption", "float_hex": f.hex(), "repr": t, "str_np": str(np.float64(f))}
    outs = chk.run_model(["(shape (%s))" % " ".join(str(ord(c)) for c in t) for t in texts])
    for t, o in zip(texts, outs):
        chk.count("evaluations")
        if o != 1 and bad is None:
            bad = {"kind": "float-text-shape(model real_shape)", "repr": t, "model": o}
    # negative controls: the shape predicate must reject what read_num would not read back
    neg = ["inf", "nan", "-inf", "1", "-5", "1e", "1.", ".5", "1e+", "1.5e", "1.5.5", "1e5e5", "", "-", "1 ", "1.5x"]
    outs = chk.run_model(["(shape (%s))" % " ".join(str(ord(c)) for c in t) for t in neg])
    for t, o in zip(neg, outs):
        chk.count("evaluations")
        if o != 0 and bad is None:
            bad = {"kind": "float-text-shape negative control", "text": t, "model": o}
    return bad


def check_ints(chk, rng):
    zs = [0, 1, -1, 9, 10, 11, 99, 100, 101, 2 ** 63, -2 ** 63, 10 ** 30, -10 ** 30 + 1] + [rng.randint(-10 ** 40, 10 ** 40) for _ in range(300)] \
        + [rng.randint(-1000, 1000) for _ in range(300)] + [10 ** k for k in range(25)] + [10 ** k - 1 for k in range(1, 25)]
    outs = chk.run_model(["(wint %d)" % z for z in zs])
    bad = None
    for z, o in zip(zs, outs):
        chk.count("evaluations")
        if "".join(chr(c) for c in o) != str(z) and bad is None:
            bad = {"kind": "integer-text", "z": z, "model": o}
    outs = chk.run_model(["(pint (%s))" % " ".join(str(ord(c)) for c in str(z)) for z in zs])
    for z, o in zip(zs, outs):
        chk.count("evaluations")
        if not (isinstance(o, list) and o[0] == "some" and o[1] == z) and bad is None:
            bad = {"kind": "integer-parse", "z": z, "model": o}
    return bad


def check_asarray(chk, impl, cases):
    """kg_asarray itself (NumPy's homogenisation) against the model's asarray, on the raw nested lists"""
    reqs, want = [], []
    for v in cases:
        x = impl.backend.kg_asarray(raw(v))
        w = canon(x)
        fmt, roi = env_tables(v, w)
        reqs.append("(asarray %s %s)" % (env_sx(fmt, roi), vsx(v)))
        want.append(w)
    outs = chk.run_model(reqs)
    bad = None
    for v, w, o in zip(cases, want, outs):
        chk.count("evaluations")
        chk.count("asarray_cases")
        try:
            m = from_model(o)
        except Exception:
            m = ("bad", repr(o)[:100])
        if m != w and bad is None:
            bad = {"kind": "kg_asarray-correspondence", "value": show(v), "impl": show(w), "model": show(m) if m[0] != "bad" else m}
    return bad


HAND_TEXTS = ["[1  2\n3]", '[1 :"c" 2]', ' :"x" 5', "[1 2", "", "   ", "[", "]", "[1 [2 [3", ":{[1 2] [3 4]}", ":{[1 2] [1 3]}", "[:{[1 2]}]", "foo", ":foo bar",
              "[a b]", "-5", "- 5", "[-5 - 5]", "1.5.5", "1e5", "1e+5", "[1e-5]", "0c", "0ca0cb", '"abc', '"a""', "[;]", "[1;2]", "\n1", "[\n1\n]", ':"c"[1]',
              ":1", ':"s"', "::", ":[", ":|", "+", "\\~", "[+]", "[1 2]x", "12abc", "1 2", '["[" 1]', "[0c[ 1]", "x", ".f", ":{}", ":{[1]}", ':{["ab"]}', ":{[[1] 2]}",
              "[1 2.5 :{[1 2]}]", "[0c]]", "[0c ]", '[":"""]', '[1 :"a""b" 2]', "0c\n", "-0.0", "[-0.0 0]", "1e400", "[1e400]", "00012", "-007", "[1 -2 3.5e+10]"]


def check_hand_texts(chk, impl):
    """reader alone on hand-written texts (spaces, newlines, comments, truncated input, operators)"""
    reqs, want = [], []
    for t in HAND_TEXTS:
        try:
            y = impl.rs(t)
            w = ("ok", canon(y))
        except Exception as e:  # noqa
            w = ("err", type(e).__name__)
        vs = [w[1]] if w[0] == "ok" else []
        vs.append(("l",) + tuple(("i", int(tok)) for tok in re.findall(r"-?[0-9]+", t)))
        # reals that appear in the text must be in the table: take every number-looking token
        fl = set()
        for tok in re.findall(r"-?[0-9]+(?:\.[0-9]+)?(?:e[+-]?[0-9]+)?", t):
            try:
                f = float(tok)
                if f == f and abs(f) != float("inf"):
                    fl.add(fbits(f))
            except ValueError:
                pass
        fmt, roi = env_tables(*vs)
        have = {b for b, _ in fmt}
        fmt = fmt + [(b, cps(repr(bits_to_float(b)))) for b in sorted(fl - have)]
        # the table is keyed by text: add the literal spelling of the tokens too
        extra = []
        for tok in re.findall(r"-?[0-9]+(?:\.[0-9]*)?(?:e[+-]?[0-9]+)?", t):
            try:
                f = float(tok)
            except ValueError:
                continue
            if f == f and ("." in tok or "e" in tok):
                extra.append((fbits(f), cps(tok)))
        reqs.append("(read 0 (%s) (%s) (%s))" % (" ".join("(%d (%s))" % (b, " ".join(map(str, tt))) for b, tt in extra + fmt),
                                                 " ".join("(%d %d)" % p for p in roi), " ".join(str(ord(c)) for c in t)))
        want.append(w)
    outs = chk.run_model(reqs)
    bad = None
    for t, w, o in zip(HAND_TEXTS, want, outs):
        chk.count("evaluations")
        chk.count("hand_texts")
        if o[0] == "ok":
            m = ("ok", from_model(o[1]))
        else:
            m = ("err", o[0])
        same = (m[0] == w[0]) and (m[0] == "err" or m[1] == w[1])
        if not same and bad is None:
            bad = {"kind": "reader-correspondence (hand-written text)", "text": t, "impl": repr(w)[:200], "model": repr(m)[:200]}
    return bad


def check_form(chk, impl):
    """x:$$x on atoms"""
    at = [I(z) for z in INTS_INNER + INTS_TOP] + [R(f) for f in REALS] + [Ch(c) for c in ALPHA + EXTRA_CHARS] \
        + [St(s) for s in list(strings_upto(2)) + SPECIAL_STRINGS] + [Sy(s) for s in SYMS]
    reqs = []
    res = []
    for a in at:
        fmt, roi = env_tables(a)
        reqs.append("(form %s %s)" % (env_sx(fmt, roi), vsx(a)))
        x = raw(a)
        impl.k["x"] = x
        try:
            ft = impl.k("$x")
            y = impl.k("x:$$x")
            ok = impl.match(x, y)
            res.append((cps(ft) if isinstance(ft, str) else None, canon(y), ok, type(y).__name__))
        except Exception as e:  # noqa
            res.append((None, ("o", 7), False, type(e).__name__))
    outs = chk.run_model(reqs)
    bad_prop = bad_corr = None
    for a, (ft, y, ok, ty), o in zip(at, res, outs):
        chk.count("evaluations")
        chk.count("form_cases")
        if not (ok and y == a):
            if bad_prop is None:
                bad_prop = {"kind": "form-format", "x": show(a), "format": "".join(map(chr, ft)) if ft else None, "form_result": show(y) if y[0] != "o" else ty}
            continue
        mfmt = tuple(o[0][1:]) if o[0][0] == "fmt" else None
        mres = from_model(o[1][1]) if o[1][0] == "ok" else None     # (undef) / (err) -> None
        if (mfmt != ft or mres != y) and bad_corr is None:
            bad_corr = {"kind": "form-correspondence", "x": show(a), "impl_format": ft, "model_format": mfmt, "model_form": repr(mres)[:100]}
    return bad_prop, bad_corr


FORM_TEMPLATES = None
FORM_TEXTS = ["", "5", "-5", "+5", " 5 ", "5  ", "\t5\n", "1_000", "1__0", "_1", "1_", "007", "-007", "- 5", "--5", "1.5", "-1.5e-10", "1e5", "1e+100", "1E5", ".5", "5.", "-0.0",
              "inf", "nan", "-inf", "Infinity", "1_0.5", " 1.5 ", "1.5 ", "abc", ":abc", "::a", ":", "a", " ", "  ", "ab", "1.5.5", "1 2", "0x10", "0b1", "12345678901234567890123",
              "-98765432109876543210", "\u00e9", "x y", '"', '""', "[1 2]", "0cx", ":{}", "1e", "e5", "1e400", "-", "+", ".", "1.0", "1.", "00", "5e-324", "9007199254740993"]
FORM_WIDTHS = [0, 1, 2, 5, -5, 12, -12, 30, -30]


def form_result(impl, a, text):
    """a:$text on the implementation -> ('ok', abstract) | ('undef',) | ('err', class)"""
    from klongpy.core import KLONG_UNDEFINED
    impl.k["a"] = a
    impl.k["b"] = text
    try:
        y = impl.k("a:$b")
    except Exception as e:  # noqa
        return ("err", type(e).__name__)
    if y is KLONG_UNDEFINED:
        return ("undef",)
    return ("ok", canon(y))


def model_fres(o):
    if o[0] == "ok":
        return ("ok", from_model(o[1]))
    return (o[0],)


def float_table_for(texts, vals):
    """fmt/roi tables: the reals of vals plus float(text) for every text float() accepts (keyed by that text)"""
    fmt, roi = env_tables(*vals)
    extra = []
    for t in texts:
        try:
            f = float(t)
        except (ValueError, OverflowError):
            continue
        b = fbits(f) if f == f else 0x7FF8000000000000
        extra.append((b, cps(t)))
    return extra + fmt, roi


def check_form_matrix(chk, impl):
    """a:$text for every template kind x every text shape; w$x and x:$(w$x) for every atom x every width"""
    templates = [I(1), I(-7), R(1.5), Ch("x"), St("s"), St(""), Sy("y")]
    reqs, want = [], []
    for a in templates:
        for t in FORM_TEXTS:
            fmt, roi = float_table_for([t], [a])
            reqs.append("(formx (%s) (%s) %s (%s))" % (" ".join("(%d (%s))" % (b, " ".join(map(str, tt))) for b, tt in fmt),
                                                       " ".join("(%d %d)" % q for q in roi), vsx(a), " ".join(str(ord(c)) for c in t)))
            want.append((a, t, form_result(impl, raw(a), t)))
    outs = chk.run_model(reqs)
    bad_corr = bad_prop = None
    for (a, t, w), o in zip(want, outs):
        chk.count("evaluations")
        chk.count("form_matrix")
        m = model_fres(o)
        # NaN: compare as "a NaN"
        def norm(r):
            if r[0] == "ok" and r[1][0] == "r" and bits_to_float(r[1][1]) != bits_to_float(r[1][1]):
                return ("ok", ("r", "nan"))
            return r[:1] if r[0] == "err" else r
        if norm(m) != norm(w) and bad_corr is None:
            bad_corr = {"kind": "form-correspondence (template x text)", "template": show(a), "text": t, "impl": repr(w)[:120], "model": repr(m)[:120]}
    # Format2
    atoms2 = [I(z) for z in INTS_INNER + INTS_TOP] + [R(f) for f in REALS] + [Ch(c) for c in ALPHA + ["\u00e9"]] \
        + [St(x) for x in ["", "a", " a ", "12", ":q", "two\nlines", "\u00e9\u20ac"]] + [Sy(x) for x in SYMS]
    reqs, rows = [], []
    for x in atoms2:
        for wd in FORM_WIDTHS:
            xv = raw(x)
            impl.k["x"] = xv
            impl.k["w"] = wd
            try:
                t = impl.k("w$x")
                t = t if isinstance(t, str) else None
            except Exception as e:  # noqa
                t = None
            back = form_result(impl, xv, t) if (t is not None and x[0] in ("i", "r")) else None
            fmt, roi = float_table_for([t] if t else [], [x])
            reqs.append("(fmt2 (%s) (%s) (i %d) %s)" % (" ".join("(%d (%s))" % (b, " ".join(map(str, tt))) for b, tt in fmt),
                                                        " ".join("(%d %d)" % q for q in roi), wd, vsx(x)))
            rows.append((x, wd, t, back))
    outs = chk.run_model(reqs)
    for (x, wd, t, back), o in zip(rows, outs):
        chk.count("evaluations")
        chk.count("format2_cases")
        if x[0] in ("i", "r"):
            # the property for numbers: x:$(w$x) is x
            if not (back is not None and back[0] == "ok" and back[1] == x):
                if bad_prop is None:
                    bad_prop = {"kind": "form-format2", "x": show(x), "width": wd, "format2": t, "form_result": repr(back)[:100],
                                "expected": "x:$(w$x) is x"}
                continue
        mt = "".join(chr(c) for c in o[0][1:]) if o[0][0] == "some" else None
        mb = model_fres(o[1]) if o[1][0] != "skip" else None
        if (mt != t or (back is not None and mb != back)) and bad_corr is None:
            bad_corr = {"kind": "format2-correspondence", "x": show(x), "width": wd, "impl": t, "model": mt, "impl_form": repr(back)[:80], "model_form": repr(mb)[:80]}
    return bad_prop, bad_corr


KNOWN_MIXED = "C11-mixed-int-real-list"


def replay_known(chk, impl):
    """the witness of C11_mixed_refuted, produced by klongpy's own operations: (-1)_[1 2.5 "a"] is the list [1 2.5]
    held as an object array; written [1 2.5], read back [1.0 2.5]"""
    x = impl.k('(-1)_[1 2.5 "a"]')
    r = impl.roundtrip(x)
    fails = r["err"] is None and r["text"] == "[1 2.5]" and r["text2"] == "[1.0 2.5]" and r["back"] == L(R(1.0), R(2.5))
    chk.count("evaluations")
    if fails:
        chk.finding(KNOWN_MIXED, "a list mixing integers and reals that klongpy holds as an object array is read back with all "
                    "elements real and writes differently", {"expr": '(-1)_[1 2.5 "a"]', "roundtrip": {k: (show(v) if k == "back" and v else v) for k, v in r.items()}})
        return None
    return {"kind": "known finding %s no longer reproduces as the model predicts" % KNOWN_MIXED, "roundtrip": repr(r)[:300]}


def normal_py(impl, held):
    try:
        return canon(impl.backend.kg_asarray(raw(held))) == held
    except Exception:  # noqa
        return True


def check_roundtrip(chk, impl, rng, cases=None, sel=0):
    """the property itself + correspondence, over the universe"""
    cases = list(universe(chk.tier, rng)) if cases is None else cases
    rows = []
    reqs = []
    seen = set()
    for kind, mode, v in cases:
        try:
            x = impl_value(v, mode, impl.backend)
        except Exception as e:  # noqa
            rows.append((kind, mode, v, None, {"err": "build:" + type(e).__name__}))
            reqs.append("(cls 0)")
            continue
        held = canon(x)          # what klongpy actually holds (kg_asarray already applied in mode 'array')
        r = impl.roundtrip(x)
        back = r["back"] if r["back"] is not None else ("o", 7)
        fmt, roi = env_tables(held, back)
        reqs.append("(rt %d %s %s)" % (sel, env_sx(fmt, roi), vsx(held)))
        rows.append((kind, mode, v, held, r))
    outs = chk.run_model(reqs)
    bad_prop = bad_corr = None
    known_hits = 0
    for (kind, mode, v, held, r), o in zip(rows, outs):
        chk.count("evaluations")
        chk.count("rt_" + kind)
        if held is None:
            if bad_corr is None:
                bad_corr = {"kind": "could not build the implementation value", "value": show(v), "error": r["err"]}
            continue
        if held not in seen:
            seen.add(held)
            chk.count("distinct_nontrivial")
        mtext = "".join(chr(c) for c in o[0][1:])
        mrd = o[1]
        mw2 = "".join(chr(c) for c in o[2][1:]) if o[2][0] == "w2" else None
        m_writable = o[3][1] == 1
        m_normal = o[4][1] == 1
        mback = from_model(mrd[1]) if mrd[0] == "ok" else None
        corr = (r["err"] is None and mrd[0] == "ok" and r["text"] == mtext and r["back"] == mback and r["text2"] == mw2) or \
               (r["err"] is not None and r["err"].startswith("rs:") and mrd[0] == "err" and r["text"] == mtext)
        prop = r["err"] is None and r["match"] is True and r["text2"] == r["text"] and amatch(held, r["back"])
        if not m_writable and bad_corr is None:
            bad_corr = {"kind": "universe value outside the model's `writable`", "value": show(held)}
        if not prop:
            if not corr and mode == "object" and not normal_py(impl, held):
                # the known class by the implementation's own kg_asarray, while model and implementation disagree
                # (something else is broken): not the input to report
                chk.count("known_class_unconfirmed")
                continue
            if corr and not m_normal and mode == "object":
                known_hits += 1
                chk.count("known_class_mixed_int_real")
                if chk.match_known(KNOWN_MIXED) is None and bad_prop is None:
                    bad_prop = {"kind": "roundtrip", "value": show(held), "mode": mode, "impl": {k: (show(x) if k == "back" and x else x) for k, x in r.items()}}
            elif bad_prop is None:
                bad_prop = {"kind": "roundtrip", "value": show(held), "mode": mode, "held_as": mode,
                            "impl": {k: (show(x) if k == "back" and x else x) for k, x in r.items()},
                            "expected": "read back matches and writes %r again" % (r["text"],)}
            continue
        if not corr and bad_corr is None:
            bad_corr = {"kind": "roundtrip-correspondence", "value": show(held), "impl_text": r["text"], "model_text": mtext,
                        "impl_back": show(r["back"]) if r["back"] else r["err"], "model_back": show(mback) if mback else mrd[0],
                        "impl_text2": r["text2"], "model_text2": mw2}
        if kind in ("tree3", "random", "dict", "object"):
            chk.sample({"kind": kind, "text": r["text"][:80]}, limit=8)
    return bad_prop, bad_corr


def check_files(chk, impl, rng):
    """.w to a file channel and .r back (the .r call site), on a sample of the universe"""
    work = os.path.join(VERIF, ".work", "C11-%d" % os.getpid())
    os.makedirs(work, exist_ok=True)
    bad_prop = bad_corr = None
    try:
        cases = [("file", "array", v) for v in
                 [I(-5), I(0), I(10 ** 30), R(-0.0), R(-1.5), R(1e-7), R(1e100), Ch('"'), Ch("a"), Ch(" "), St(""), St('a"b'), St("x\ny"), St(':"c"'), St("["),
                  Sy("foo"), Sy("a.b"), L(), L(I(1), I(-2)), L(I(-1)), L(R(-2.5), R(1.0)), L(St("["), I(1)), L(Ch("["), L(Ch("]"))), L(St('"'), St("")),
                  L(L(I(1), I(2)), L(I(3), I(4))), L(L(), L()), L(I(1), L(R(2.0), R(3.5)), St("a")), L(Sy("s"), Ch("\n")),
                  D(), D((I(1), I(2))), D((St("a"), L(I(1), R(2.5))), (Sy("s"), St('q"')), (I(-3), Ch("}")))]]
        pool = [I(-7), R(2.5), St('a"'), Ch("["), Sy("s"), St("]")]
        for _ in range(40 if chk.tier == "quick" else 400):
            cases.append(("file", "array", L(*[rand_value(rng, 2, pool) for _ in range(rng.randint(0, 3))])))
        reqs, rows = [], []
        for j, (kind, mode, v) in enumerate(cases):
            x = impl_value(v, mode, impl.backend)
            held = canon(x)
            path = os.path.join(work, "f%d.txt" % j)
            try:
                text, y = impl.file_roundtrip(x, path)
                back = canon(y)
                text2 = impl.write(y)
                ok = impl.match(x, y) and text2 == text and amatch(held, back)
                r = {"text": text, "back": back, "text2": text2, "ok": ok, "err": None}
            except Exception as e:  # noqa
                r = {"text": None, "back": None, "text2": None, "ok": False, "err": type(e).__name__ + ": " + str(e)[:80]}
            fmt, roi = env_tables(held, r["back"] or ("o", 7))
            reqs.append("(rt 1 %s %s)" % (env_sx(fmt, roi), vsx(held)))
            rows.append((held, r))
        outs = chk.run_model(reqs)
        for (held, r), o in zip(rows, outs):
            chk.count("evaluations")
            chk.count("rt_file")
            if not r["ok"]:
                if bad_prop is None:
                    bad_prop = {"kind": "roundtrip through .w to a file and .r", "value": show(held),
                                "impl": {k: (show(x) if k == "back" and x else x) for k, x in r.items()}}
                continue
            mtext = "".join(chr(c) for c in o[0][1:])
            mback = from_model(o[1][1]) if o[1][0] == "ok" else None
            if (mtext != r["text"] or mback != r["back"]) and bad_corr is None:
                bad_corr = {"kind": "file-roundtrip-correspondence", "value": show(held), "impl_text": r["text"], "model_text": mtext,
                            "impl_back": show(r["back"]), "model_back": show(mback) if mback else o[1][0]}
    finally:
        shutil.rmtree(work, ignore_errors=True)
    return bad_prop, bad_corr


def wider_sweep(chk, impl, budget=60000):
    """after a broken obligation / correspondence: the property's own oracle (implementation only) over the
    thorough universe, a different seed, and the Form/Format atoms; returns the first failing input outside the known class"""
    rng = random.Random(chk.seed + 7919)
    n = 0
    for kind, mode, v in universe("thorough", rng):
        if kind in ("tree2w", "tree3") and rng.random() < 0.8:
            continue
        n += 1
        if n > budget:
            break
        try:
            x = impl_value(v, mode, impl.backend)
        except Exception:  # noqa
            continue
        chk.count("sweep_cases")
        r = impl.roundtrip(x)
        held = canon(x)
        if r["err"] is None and r["match"] is True and r["text2"] == r["text"] and amatch(held, r["back"]):
            continue
        if mode == "object" and chk.match_known(KNOWN_MIXED) is not None:
            try:
                if canon(impl.backend.kg_asarray(raw(held))) != held:
                    continue        # the known class: not in kg_asarray's normal form
            except Exception:  # noqa
                pass
        return {"kind": "roundtrip (wider sweep)", "value": show(held), "mode": mode,
                "impl": {k: (show(y) if k == "back" and y else y) for k, y in r.items()},
                "expected": "read back matches and writes %r again" % (r["text"],)}
    return None


CHANNEL_POOL = None


def channel_pool():
    global CHANNEL_POOL
    if CHANNEL_POOL is None:
        CHANNEL_POOL = [
            I(0), I(7), I(-5), I(120), I(10 ** 30), R(2.5), R(-1.5e-10), R(1e100), R(-0.0), Ch("x"), Ch(" "), Ch("]"), Ch('"'), Ch("\u00e9"),
            St(""), St("a"), St('say "hi"'), St("two\nlines"), St("b ]"), St(':"c"'), St("\u00e9\u20ac"), St("\U0001F600 "), St("ends in 9"), St("["),
            Sy("foo"), Sy("a.b"), Sy("z9"), L(), L(I(1), I(2), I(3)), L(I(-1)), L(R(2.5), R(-3.0)), L(St("x"), Ch("y"), Sy("z")),
            L(L(I(1), I(2)), L(I(3), I(4))), L(L(), L()), L(I(1), L(St("]"), L(R(0.5)))), L(St("\u00e9"), I(3)),
            D(), D((I(1), I(2))), D((Sy("a"), L(I(1), L(I(2), I(3))))), D((St("k\u00fc"), St('q"')), (I(-3), Ch("}")))]
    return CHANNEL_POOL


def channel_groups(tier, rng):
    """(values, separator, trailing text) — files of 1..6 written values"""
    pool = channel_pool()
    for v in pool:
        yield [v], " ", ""
        yield [v], " ", " "
    core = pool if tier == "thorough" else [pool[i] for i in (1, 2, 6, 10, 13, 15, 17, 18, 20, 24, 28, 32, 35, 36, 38, 39)]
    for a in core:
        for b in core:
            yield [a, b], " ", ""
    tri = [pool[i] for i in ((2, 6, 13, 17, 20, 28, 34, 39) if tier == "quick" else (1, 2, 6, 11, 13, 17, 20, 24, 28, 34, 37, 39))]
    for t in itertools.product(tri, repeat=3):
        yield list(t), " ", ""
    for j in range(300 if tier == "quick" else 3000):
        n = rng.randint(3, 6)
        yield [rng.choice(pool) for _ in range(n)], rng.choice([" ", " ", "  ", "   ", "\t", " \t "]), rng.choice(["", "", " ", "  "])
    # line breaks between the objects (one object per line, blank lines)
    for j in range(40 if tier == "quick" else 300):
        n = rng.randint(2, 4)
        yield [rng.choice(pool) for _ in range(n)], rng.choice(["\n", " \n", "\n\n"]), rng.choice(["", "\n"])


def check_channel(chk, impl, rng):
    """files of several values written with .w through a real output channel (a separator written with .d between them),
    read back with .r() again and again on one real input channel until it returns nothing"""
    work = os.path.join(VERIF, ".work", "C11ch-%d" % os.getpid())
    os.makedirs(work, exist_ok=True)
    path = os.path.join(work, "chan.txt")
    k = impl.k
    k["path"] = path
    bad_prop = bad_corr = None
    rows, reqs = [], []
    try:
        for vals, sep, trail in channel_groups(chk.tier, rng):
            xs = [impl_value(v, "array", impl.backend) for v in vals]
            held = [canon(x) for x in xs]
            for i, x in enumerate(xs):
                k["v%d" % i] = x
            k["sep"] = sep
            k["trail"] = trail
            prog = ".tc(T::.oc(path));" + ";.d(sep);".join(".w(v%d)" % i for i in range(len(xs))) + ";.d(trail);.cc(T)"
            r = {"err": None, "got": [], "texts": []}
            try:
                k(prog)
                with open(path, encoding="utf-8", newline="") as f:
                    text = f.read()
                k(".fc(F::.ic(path))")
                try:
                    for _ in range(len(xs) + 4 if "\n" not in sep + trail else len(text) + 4):
                        y = k(".r()")
                        if y is None:
                            break
                        r["got"].append(y)
                finally:
                    k(".cc(F);.fc(0)")
            except Exception as e:  # noqa
                r["err"] = type(e).__name__ + ": " + str(e)[:80]
                text = None
            want_text = sep.join(impl.write(x) for x in xs) + trail
            backs = [canon(y) for y in r["got"]]
            fmt, roi = env_tables(*(held + backs))
            reqs.append("(rfile %s (%s))" % (env_sx(fmt, roi), " ".join(str(ord(c)) for c in (text if text is not None else want_text))))
            rows.append((vals, sep, trail, xs, held, r, backs, text, want_text))
        outs = chk.run_model(reqs)
        for (vals, sep, trail, xs, held, r, backs, text, want_text), o in zip(rows, outs):
            chk.count("evaluations")
            chk.count("channel_files")
            chk.count("channel_values", len(vals))
            blank_sep = True        # since fix 6a41e04 line breaks are white space for .r as well
            what = {"kind": "repeated .r on one channel", "value": " ; ".join(show(h, 60) for h in held), "separator": sep, "file_text": text,
                    "read_back": [show(b, 60) for b in backs], "error": r["err"]}
            if blank_sep:
                ok = r["err"] is None and len(backs) == len(held)
                if ok:
                    for x, y, h, bk in zip(xs, r["got"], held, backs):
                        try:
                            ok = ok and impl.match(x, y) and amatch(h, bk) and impl.write(y) == impl.write(x)
                        except Exception:  # noqa
                            ok = False
                if not ok:
                    if bad_prop is None:
                        what["expected"] = "%d values, each matching what was written, in order" % len(held)
                        bad_prop = what
                    continue
            if o[0] == "ok":
                m = [from_model(e) for e in o[1:]]
            else:
                m = o[0]
            impl_res = backs if r["err"] is None else "err"
            if (text != want_text or m != impl_res) and bad_corr is None:
                what["kind"] = "channel-correspondence"
                what["model"] = [show(e, 60) for e in m] if isinstance(m, list) else m
                what["expected_file_text"] = want_text
                bad_corr = what
            chk.sample({"kind": "channel", "file": (text or "")[:60], "values": len(held)}, limit=10)
    finally:
        shutil.rmtree(work, ignore_errors=True)
    return bad_prop, bad_corr


def _walk_dicts(x, fn):
    import numpy as np
    if isinstance(x, dict):
        for v in list(x.values()):
            _walk_dicts(v, fn)
        fn(x)
    elif isinstance(x, (list, tuple)) or (isinstance(x, np.ndarray) and x.dtype == object and x.ndim > 0):
        for v in x:
            _walk_dicts(v, fn)


def reread_values(tier, rng):
    d1 = D((I(1), I(2)))
    d2 = D((St("a"), L(I(1), R(2.5))), (Sy("s"), St('q"')))
    base = [L(d1), L(I(7), d1), L(d1, d2), L(L(d1, I(1)), L(I(2), I(3))), L(L(d1), L(d2)), L(D(), D()), L(St("}"), d1, Ch("{")),
            D((I(1), d1)), D((Sy("k"), D((I(2), D((I(3), L(I(4), D()))))))), D((St("x"), L(I(1), d2, L(d1)))), L(I(1), L(I(2), L(d2))),
            D((I(1), D())), L(R(2.5), d1, I(3)), L(L(I(1), I(2)), d1), d1, d2, D(), D((I(1), L(D((I(5), I(6))), St("x")))),
            L(L(D((St("name"), St("")), (St("tags"), L()))), I(7)), L(D((Ch("a"), D((I(1), L(I(2), D((Sy("k"), St("v")))))))), L(D())),
            L(I(1), I(2), I(3)), L(St("a"), Ch("b"), Sy("c"), R(1.5)), I(5), St("x")]
    for v in base:
        yield v
    keys = [I(1), I(-2), St("a"), Ch("b"), Sy("s"), R(2.5), St("")]
    leaves = [I(1), R(2.5), St("a"), Ch("["), Sy("q"), L(), L(I(1), I(2))]
    def rnd(depth):
        r = rng.random()
        if depth == 0 or r < 0.25:
            return rng.choice(leaves)
        if r < 0.6:
            return L(*[rnd(depth - 1) for _ in range(rng.randint(0, 3))])
        return D(*[(k, rnd(depth - 1)) for k in rng.sample(keys, rng.randint(0, 3))])
    for _ in range(150 if tier == "quick" else 2000):
        v = rnd(4)
        yield v if v[0] in ("l", "d") else L(v)


def check_reread(chk, impl, rng):
    """REPEATED-READ shard: the same written text is read twice in one interpreter (.rs of the string; .r of the file from its start),
    and between the two readings the program uses the first result: it adds an entry to every dictionary inside it (in place).
    Oracle: the second reading matches the original and writes identically; the two readings share no dictionary object."""
    work = os.path.join(VERIF, ".work", "C11rr-%d" % os.getpid())
    os.makedirs(work, exist_ok=True)
    path = os.path.join(work, "rr.txt")
    k = impl.k
    k["path"] = path
    bad_prop = bad_corr = None

    def fill_in(x):
        def add(d):
            k["d"] = d
            k("d,[:seen 1]")
        _walk_dicts(x, add)

    def ids(x):
        out = set()
        _walk_dicts(x, lambda d: out.add(id(d)))
        return out

    def file_read():
        k(".fc(F::.ic(path))")
        try:
            return k(".r()")
        finally:
            k(".cc(F);.fc(0)")

    rows, reqs = [], []
    try:
        for v in reread_values(chk.tier, rng):
            x = impl_value(v, "array", impl.backend)
            held = canon(x)
            text = impl.write(x)
            k["v"] = x
            k(".tc(T::.oc(path));.w(v);.cc(T)")
            for sel, reader in ((0, lambda: impl.rs(text)), (1, file_read)):
                r = {"err": None}
                try:
                    y1 = reader()
                    keep = ids(y1)
                    fill_in(y1)
                    y2 = reader()
                    r["back"] = canon(y2)
                    r["text2"] = impl.write(y2)
                    r["match"] = impl.match(x, y2)
                    r["shared"] = len(keep & ids(y2))
                    y3 = reader()                    # and once more, untouched in between
                    r["third"] = canon(y3)
                except Exception as e:  # noqa
                    r["err"] = type(e).__name__ + ": " + str(e)[:80]
                fmt, roi = env_tables(held, r.get("back") or ("o", 7))
                reqs.append("(reread %d %s %s)" % (sel, env_sx(fmt, roi), vsx(held)))
                rows.append((sel, held, text, r))
        outs = chk.run_model(reqs)
        for (sel, held, text, r), o in zip(rows, outs):
            chk.count("evaluations")
            chk.count("reread_cases")
            what = {"kind": "second reading of the same text (%s) after the first result was updated in place" % (".rs" if sel == 0 else ".r of the file"),
                    "value": show(held), "text": text, "second_reading": show(r["back"]) if r.get("back") else None, "second_write": r.get("text2"),
                    "dictionary_objects_shared_with_first_reading": r.get("shared"), "error": r["err"]}
            ok = (r["err"] is None and r["match"] is True and amatch(held, r["back"]) and r["text2"] == text and r["shared"] == 0
                  and r["third"] == r["back"])
            if not ok:
                if bad_prop is None:
                    what["expected"] = "matches the written value, writes %r again, shares no dictionary object with the first reading" % text
                    bad_prop = what
                continue
            m = from_model(o[1]) if o[0] == "ok" else o[0]
            if m != r["back"] and bad_corr is None:
                what["kind"] = "reread-correspondence"
                what["model"] = show(m) if isinstance(m, tuple) else m
                bad_corr = what
    finally:
        shutil.rmtree(work, ignore_errors=True)
    return bad_prop, bad_corr


# ------------------------------------------------------------------ run
def run(tier, replay=None):
    chk = Check("C11", tier)
    rng = random.Random(chk.seed)
    chk.generate(generate())
    chk.build_model()
    hits = forbidden_scan("C11")
    proof = chk.build_proofs()
    if hits:
        proof["ok"] = False
        proof["error"] = "forbidden declarations: %r" % hits
        proof["broken"] = hits[0]
    impl = Impl()
    bad_props, bad_corrs = [], []

    b = replay_known(chk, impl)
    if b:
        bad_corrs.append(b)
    for b in (check_classes(chk, rng), check_float_text(chk, rng), check_ints(chk, rng)):
        if b:
            bad_corrs.append(b)
    asar = [v for v in trees(2, 2, LEAVES3) if v[0] == "l"]
    for ts in (TREES23(), TREES32()):
        asar += ts if tier == "thorough" else [ts[i] for i in sorted(rng.sample(range(len(ts)), 5000))]
    asar += [L(*[rand_value(rng, 4, [I(1), I(2 ** 53 + 1), R(0.5), St("s"), Ch("c"), Sy("y")]) for _ in range(rng.randint(0, 3))]) for _ in range(500)]
    b = check_asarray(chk, impl, asar)
    if b:
        bad_corrs.append(b)
    b = check_hand_texts(chk, impl)
    if b:
        bad_corrs.append(b)
    for fn in (lambda: check_roundtrip(chk, impl, rng), lambda: check_files(chk, impl, rng), lambda: check_channel(chk, impl, rng),
               lambda: check_reread(chk, impl, rng), lambda: check_form(chk, impl), lambda: check_form_matrix(chk, impl)):
        bp, bc = fn()
        if bp:
            bad_props.append(bp)
        if bc:
            bad_corrs.append(bc)

    for bp in bad_props:
        chk.violation("written value does not read back to a matching value that writes identically (%s): %s" % (bp["kind"], bp.get("value", bp.get("x", ""))), bp)
    if not chk.violations and (bad_corrs or not proof["ok"]):
        bp = wider_sweep(chk, impl)
        if bp:
            chk.violation("written value does not read back to a matching value that writes identically (%s): %s" % (bp["kind"], bp["value"]), bp)
    if not chk.violations:
        for bc in bad_corrs:
            chk.violation("correspondence between klongpy and the Coq model broke (%s); no failing input of the property found in %d cases"
                          % (bc["kind"], chk.counters.get("evaluations", 0)), {"broken": "correspondence C11/Model.v", "detail": bc}, no_input=True)
        if not proof["ok"] and not chk.violations:
            chk.violation("proof obligation no longer checks: %s" % proof["broken"],
                          {"broken_obligation": proof["broken"], "coq_error": proof["error"], "generated": chk.generated_text[:3000]}, no_input=True)
    return chk.finish(
        rule="closed universe: every atom of the lists INTS/REALS/chars/symbols, every string of length <= 2 (quick) / 3 (thorough) over the alphabet "
             "\" [ ] : ; space newline 0 c a plus special strings; every list of <= 2 of 19 atoms; every atom inside a list and nested twice; every nesting of depth <= 2 "
             "with <= 2 elements, (thorough: all 81k / quick: 6000 sampled) of depth <= 2 with <= 3 elements and (thorough: all 76k / quick: 8000 sampled) of depth 3 with <= 2 elements over {1, 2.5, \"a\"}; seeded random nestings to depth 6; "
             "object-array held lists; top-level dictionaries; file round trips through .w/.r; repeated reads (.rs twice, .r of the file twice, the first result updated in place in between) of values holding dictionaries at every depth; files of 1..6 values (every kind, 40-value pool: all singles, all pairs of a core, "
             "all triples of 8 (quick) / 12 (thorough), seeded groups of 3..6 with blank/tab separators and trailing blanks, and newline separators for model comparison) written through .w/.d on an output channel and read with repeated .r; x:$$x on atoms; kg_asarray and reader shards. "
             "distinct_nontrivial = distinct values held by klongpy in the round-trip shard",
        trusted_base=TRUSTED, assumptions=ASSUME)
