"""C07 — gradient and Jacobian computation is observationally pure.

Link 1 (Coq): coq/C07/Properties.v
  C07_restore                 every form, either backend, EVERY differentiated function, returning or failing:
                              all variables and all pre-existing array buffers are what they were
  C07_restore_outside_alias   the same for any input conversion of numeric_grad, outside the alias class
  C07_alias_refuted / C07_full_statement_refuted_on_pinned_tree   R4 (np.asarray does not copy)
  C07_refuted_without_finally what each `finally` is for
  C07_again                   the same function evaluated afterwards returns the same
Link 2 (here): the real operators on real interpreters (numpy and torch backends), with a differentiated
function that faults at its k-th evaluation for every k, against the extracted model: result class, number
of evaluations, the program state *seen by the function at every evaluation*, its argument, and the final state.
"""
import ast
import json
import os
import random
import struct
import subprocess
import sys

from . import astlib
from .astlib import ShapeError
from .common import Check, sx, forbidden_scan, PY, VERIF, REPO

FINDING_ALIAS = "C07-numeric-grad-perturbs-callers-float64-array"

TRUSTED = [
    "Coq 8.16.1 kernel (coqc); vm_compute only in the _refuted witnesses and Examples",
    "Print Assumptions: C07_restore, C07_restore_outside_alias, C07_again closed under the global context (no axioms)",
    "translator harness/c07.py:generate (Python ast): numeric_grad's input conversion and restore, numeric_jacobian's private copies, "
    "the three try/finally restores (eval_dyad_grad.func, call_fn_with_tensors, single_param_fn)",
    "extraction: ExtrOcamlBasic only; ocaml/driver.ml",
    "correspondence harness: CPython object identity (`is`), numpy/torch dtype and requires_grad attributes, IEEE double + and - for decoding perturbed elements",
]
ASSUME = [
    "one variable scope (the operators are used at top level; scoping of klong[...] across nested function frames is C03's subject)",
    "the differentiated function reads the store but does not assign globals itself (a function that assigns globals is not expected to be pure); "
    "its behaviour at each call (raise / scalar / vector / tensor / non-number) is an arbitrary oracle in the theorems",
    "torch internals (autograd.grad, functional.jacobian) are represented by: one call of the function, fresh result tensors, no write to existing memory (sampled by link 2)",
    "numpy: np.asarray(x, dtype=float64) returns x itself iff x is a float64 ndarray; np.array/.copy()/.flatten()/.astype allocate; tensor.detach().cpu().numpy() shares memory (modelled, sampled by link 2)",
]


# ---------------------------------------------------------------- translator
def _is_sub_assign(node, base, index=None, value=None):
    """`base[index] = value` (names)"""
    if not (isinstance(node, ast.Assign) and len(node.targets) == 1 and isinstance(node.targets[0], ast.Subscript)):
        return False
    t = node.targets[0]
    if ast.unparse(t.value) != base:
        return False
    if index is not None and ast.unparse(t.slice) != index:
        return False
    if value is not None and ast.unparse(node.value) != value:
        return False
    return True


def _store_bases(fn):
    """base expressions of all subscript stores (x[i] = .., x[i] += ..) inside fn"""
    out = []
    for n in ast.walk(fn):
        tg = []
        if isinstance(n, ast.Assign):
            tg = n.targets
        elif isinstance(n, (ast.AugAssign, ast.AnnAssign)):
            tg = [n.target]
        for t in tg:
            if isinstance(t, ast.Subscript):
                out.append(ast.unparse(t.value))
    return out


def _assigns_to(fn, name):
    """values assigned to Name(name) anywhere in fn, in source order"""
    out = []
    for n in ast.walk(fn):
        if isinstance(n, ast.Assign) and len(n.targets) == 1 and isinstance(n.targets[0], ast.Name) and n.targets[0].id == name:
            out.append(n)
    out.sort(key=lambda n: n.lineno)
    return [n.value for n in out]


def _conversion_copies(call):
    """does this expression produce a new float array whatever its argument is?  None = shape not recognised"""
    if not isinstance(call, ast.Call):
        return None
    f = call.func
    if isinstance(f, ast.Attribute) and f.attr in ("copy", "flatten") and not call.args:
        inner = _conversion_copies(f.value)
        return True if inner is not None else None
    if isinstance(f, ast.Attribute) and isinstance(f.value, ast.Name) and f.value.id == "np":
        kws = {k.arg: k.value for k in call.keywords}
        if set(kws) - {"dtype", "copy"} or len(call.args) != 1 or ast.unparse(call.args[0]) != "x":
            return None
        if f.attr == "asarray":
            return False if "copy" not in kws else None
        if f.attr == "array":
            if "copy" not in kws:
                return True
            c = kws["copy"]
            return bool(c.value) if isinstance(c, ast.Constant) and isinstance(c.value, bool) else None
    return None


def _numeric_grad_flags():
    m = astlib.module("klongpy/autograd.py")
    fn = astlib.find_func(m, "numeric_grad")
    # conversion: the last assignment to x that is not the to_numpy one
    vals = [v for v in _assigns_to(fn, "x") if "to_numpy" not in ast.unparse(v)]
    if len(vals) != 1:
        raise ShapeError("numeric_grad: expected one conversion assignment to x, got %d" % len(vals))
    copies = _conversion_copies(vals[0])
    if copies is None:
        raise ShapeError("numeric_grad: conversion %s not recognised" % ast.unparse(vals[0]))
    bases = set(_store_bases(fn))
    if not bases <= {"x", "grad"}:
        raise ShapeError("numeric_grad: stores to %r" % sorted(bases))
    loops = [n for n in fn.body if isinstance(n, (ast.While, ast.For))]
    if len(loops) != 1:
        raise ShapeError("numeric_grad: one loop expected")
    # func is given copies
    fcalls = astlib.calls_in(loops[0], "func")
    if len(fcalls) != 2 or any("x.copy()" not in ast.unparse(c) for c in fcalls):
        raise ShapeError("numeric_grad: func is not called twice with x.copy()")
    # restore `x[idx] = orig` : in a finally or at the end of the loop body
    in_finally = False
    for n in ast.walk(loops[0]):
        if isinstance(n, ast.Try):
            if any(_is_sub_assign(s, "x", "idx", "orig") for s in n.finalbody):
                in_finally = True
    plain = any(_is_sub_assign(s, "x", "idx", "orig") for s in loops[0].body)
    if not in_finally and not plain:
        raise ShapeError("numeric_grad: no restore of x[idx]")
    return copies, in_finally


def _numeric_jacobian_flags():
    """(x is flattened into a NEW array, the perturbed arrays are x.copy()s)"""
    m = astlib.module("klongpy/autograd.py")
    fn = astlib.find_func(m, "numeric_jacobian")
    vals = [v for v in _assigns_to(fn, "x") if "to_numpy" not in ast.unparse(v)]
    if len(vals) != 1:
        raise ShapeError("numeric_jacobian: conversion of x")
    v = vals[0]
    if not (isinstance(v, ast.Call) and isinstance(v.func, ast.Attribute) and not v.args):
        raise ShapeError("numeric_jacobian: conversion %s" % ast.unparse(v))
    if v.func.attr in ("flatten", "copy"):
        flat_copy = True
    elif v.func.attr == "ravel":
        flat_copy = False
    else:
        raise ShapeError("numeric_jacobian: conversion %s" % ast.unparse(v))
    if _conversion_copies(v.func.value) is None:
        raise ShapeError("numeric_jacobian: conversion %s" % ast.unparse(v))
    bases = set(_store_bases(fn))
    if not bases <= {"x_plus", "x_minus", "jacobian"}:
        raise ShapeError("numeric_jacobian: stores to %r" % sorted(bases))
    pert_copy = True
    for nm in ("x_plus", "x_minus"):
        a = _assigns_to(fn, nm)
        if len(a) != 1:
            raise ShapeError("numeric_jacobian: %s" % nm)
        if ast.unparse(a[0]) == "x":
            pert_copy = False
        elif ast.unparse(a[0]) not in ("x.copy()", "np.array(x)", "np.copy(x)"):
            raise ShapeError("numeric_jacobian: %s = %s" % (nm, ast.unparse(a[0])))
    return flat_copy, pert_copy


def _touches_klong(node):
    return any(isinstance(t, ast.Subscript) and ast.unparse(t.value) == "klong"
               for n in ast.walk(node) for t in (n.targets if isinstance(n, ast.Assign) else [n.target] if isinstance(n, ast.AugAssign) else []))


def _rebind_restores_in_finally(fn, bind_stmt, restore_stmt):
    """fn body is  <bind_stmt>; try: ... finally: <restore_stmt> [; return ...]   (True)
    or the restore is a plain statement after the call (False).  No other assignment to klong[...]."""
    body = astlib.body_no_doc(fn)
    if not body or ast.unparse(body[0]) != bind_stmt:
        raise ShapeError("%s: first statement is not %s" % (fn.name, bind_stmt))
    rest = body[1:]
    tries = [n for n in rest if isinstance(n, ast.Try)]
    if len(tries) == 1:
        t = tries[0]
        if t.handlers or t.orelse:
            raise ShapeError("%s: try has handlers" % fn.name)
        if [ast.unparse(s) for s in t.finalbody] != [restore_stmt]:
            raise ShapeError("%s: finally body is not %s" % (fn.name, restore_stmt))
        if any(_touches_klong(s) for s in t.body) or any(_touches_klong(s) for s in rest if s is not t):
            raise ShapeError("%s: other assignments to klong[...]" % fn.name)
        return True
    if not tries:
        rs = [s for s in rest if ast.unparse(s) == restore_stmt]
        if len(rs) == 1 and not any(_touches_klong(s) for s in rest if s is not rs[0]):
            return False
    raise ShapeError("%s: restore discipline not recognised" % fn.name)


def _grad_finally():
    m = astlib.module("klongpy/dyads.py")
    fn = astlib.find_func(m, "eval_dyad_grad")
    func = astlib.find_func_deep(fn, "func")
    origs = _assigns_to(fn, "orig")
    if len(origs) != 1 or ast.unparse(origs[0]) != "klong[a]":
        raise ShapeError("eval_dyad_grad: orig = klong[a] expected")
    return _rebind_restores_in_finally(func, "klong[a] = v", "klong[a] = orig")


def _mj_finally():
    m = astlib.module("klongpy/autograd.py")
    fn = astlib.find_func(m, "multi_jacobian_of_fn")
    spf = astlib.find_func_deep(fn, "single_param_fn")
    d = spf.args
    names = [a.arg for a in d.args]
    defaults = [ast.unparse(x) for x in d.defaults]
    if names != ["v", "s", "orig"] or defaults != ["sym", "original"]:
        raise ShapeError("single_param_fn signature")
    origs = _assigns_to(fn, "original")
    if len(origs) != 1 or ast.unparse(origs[0]) != "klong[sym]":
        raise ShapeError("multi_jacobian_of_fn: original = klong[sym] expected")
    return _rebind_restores_in_finally(spf, "klong[s] = v", "klong[s] = orig")


def _mg_finally():
    m = astlib.module("klongpy/autograd.py")
    fn = astlib.find_func(m, "multi_grad_of_fn")
    cf = astlib.find_func_deep(fn, "call_fn_with_tensors")
    body = astlib.body_no_doc(cf)
    if not body or ast.unparse(body[0]) != "originals = {sym: klong._context[sym] for sym in param_syms}":
        raise ShapeError("call_fn_with_tensors: originals")
    bind = "for (sym, tensor) in zip(param_syms, tensors):\n    klong[sym] = tensor"
    restore = "for (sym, orig) in originals.items():\n    klong[sym] = orig"

    def norm(s):
        return ast.unparse(s).replace("for sym, tensor in", "for (sym, tensor) in").replace("for sym, orig in", "for (sym, orig) in")
    tries = [n for n in body if isinstance(n, ast.Try)]
    if len(body) == 2 and len(tries) == 1:
        t = tries[0]
        if t.handlers or t.orelse:
            raise ShapeError("call_fn_with_tensors: try has handlers")
        if [norm(s) for s in t.finalbody] == [restore] and norm(t.body[0]) == bind:
            return True
        raise ShapeError("call_fn_with_tensors: try/finally shape")
    if not tries and any(norm(s) == restore for s in body) and any(norm(s) == bind for s in body):
        return False
    raise ShapeError("call_fn_with_tensors: restore discipline not recognised")


def _fn_own_frame():
    """every path by which autograd hands control to the user function is a proper call: klong.call(KGCall(...)) (pushes a frame)
    or a plain Python call; no klong.call / klong.eval of a bare function body or symbol in the gradient entry points"""
    def ok_return(r, pyname):
        v = r.value
        if not isinstance(v, ast.Call):
            return False
        f = v.func
        if isinstance(f, ast.Name) and f.id == pyname:
            return True                                            # fn(*args) / b(v): a Python callable
        if isinstance(f, ast.Attribute) and f.attr == "call" and ast.unparse(f.value) == "klong" and len(v.args) == 1:
            a = v.args[0]
            return isinstance(a, ast.Call) and isinstance(a.func, ast.Name) and a.func.id == "KGCall"
        return False
    m = astlib.module("klongpy/autograd.py")
    inv = astlib.find_func(m, "_invoke_fn")
    rets = [n for n in ast.walk(inv) if isinstance(n, ast.Return)]
    if not rets or not all(ok_return(r, "fn") for r in rets):
        return False
    for name in ("grad_of_fn", "jacobian_of_fn", "multi_jacobian_of_fn", "multi_grad_of_fn"):
        fn = astlib.find_func(m, name)
        for n in ast.walk(fn):
            if isinstance(n, ast.Call) and isinstance(n.func, ast.Attribute) and n.func.attr in ("call", "eval") \
                    and ast.unparse(n.func.value) == "klong":
                return False
    d = astlib.module("klongpy/dyads.py")
    cf = astlib.find_func_deep(astlib.find_func(d, "eval_dyad_grad"), "call_fn")
    rets = [n for n in ast.walk(cf) if isinstance(n, ast.Return)]
    return bool(rets) and all(ok_return(r, "b") for r in rets)


def generate():
    out = []
    notes = []

    def flag(name, fn, pick=lambda v: v):
        v, why = astlib.try_flag(fn)
        if why is not None:
            notes.append("(* %s: shape not recognised: %s *)" % (name, why.replace("*)", "* )")))
            return None
        return v
    ng = flag("numeric_grad", _numeric_grad_flags)
    out.append("Definition ng_input_conversion_copies : bool := %s." % astlib.coq_bool(bool(ng and ng[0])))
    out.append("Definition ng_restore_in_finally : bool := %s." % astlib.coq_bool(bool(ng and ng[1])))
    nj = flag("numeric_jacobian", _numeric_jacobian_flags)
    out.append("Definition nj_flattens_into_copy : bool := %s." % astlib.coq_bool(bool(nj and nj[0])))
    out.append("Definition nj_perturbs_copies : bool := %s." % astlib.coq_bool(bool(nj and nj[1])))
    out.append("Definition grad_func_restores_in_finally : bool := %s." % astlib.coq_bool(bool(flag("eval_dyad_grad.func", _grad_finally))))
    out.append("Definition mg_restores_in_finally : bool := %s." % astlib.coq_bool(bool(flag("call_fn_with_tensors", _mg_finally))))
    out.append("Definition mj_restores_in_finally : bool := %s." % astlib.coq_bool(bool(flag("single_param_fn", _mj_finally))))
    out.append("Definition fn_invoked_in_own_frame : bool := %s." % astlib.coq_bool(bool(flag("_invoke_fn / call_fn", _fn_own_frame))))
    return "\n".join(out + notes) + "\n"


# ---------------------------------------------------------------- implementation side (child process, one per backend)
IMPL_SCRIPT = r'''
import sys, json, struct
sys.path.insert(0, %(verif)r)
import numpy as np
backend = sys.argv[1]
from klongpy import KlongInterpreter
from klongpy.core import KGSym, KGFn, KGLambda, KGFnWrapper
from klongpy.autograd import NonScalarLossError
torch = None
if backend == "torch":
    import torch

def fbits(x):
    return struct.unpack(">Q", struct.pack(">d", float(x)))[0]

class Boom(Exception):
    pass

def elems(a):
    a = np.asarray(a)
    if a.dtype.kind in "iub":
        return [int(v) for v in a.reshape(-1)]
    return [fbits(v) for v in a.reshape(-1)]

def structure(v, depth=0):
    """structural description of any value: functions with their bodies and ARGUMENT VECTORS (projections), dictionaries, lists"""
    if depth > 8:
        return ["deep"]
    if v is None:
        return ["none"]
    if isinstance(v, KGSym):
        return ["sym", str(v)]
    if isinstance(v, bool):
        return ["bool", int(v)]
    if isinstance(v, int):
        return ["int", v]
    if isinstance(v, float):
        return ["float", fbits(v)]
    if isinstance(v, str):
        return ["str", v]
    if isinstance(v, np.ndarray) and v.dtype == object:
        return ["objarr", list(v.shape)] + [structure(x, depth + 1) for x in v.reshape(-1)]
    if isinstance(v, (np.ndarray, np.integer, np.floating)) or (torch is not None and isinstance(v, torch.Tensor)):
        return canon(v, [])[:-1]
    if isinstance(v, (list, tuple)):
        return [type(v).__name__] + [structure(x, depth + 1) for x in v]
    if isinstance(v, dict):
        return ["dict"] + sorted(([structure(a, depth + 1), structure(b, depth + 1)] for a, b in v.items()), key=repr)
    if isinstance(v, KGFn):
        return [type(v).__name__, structure(v.a, depth + 1), structure(v.args, depth + 1), structure(getattr(v, "arity", None))]
    if isinstance(v, KGLambda):
        return ["KGLambda", getattr(getattr(v, "fn", None), "__name__", "?")]
    if isinstance(v, KGFnWrapper):
        return ["KGFnWrapper"]
    r = [type(v).__name__]
    for attr in ("a", "args", "arity"):
        if hasattr(v, attr):
            r.append(structure(getattr(v, attr), depth + 1))
    return r

def canon(v, init_objs):
    ident = -1
    for i, o in enumerate(init_objs):
        if o is v:
            ident = i
            break
    if isinstance(v, bool):
        return ["obj", "bool", ident]
    if isinstance(v, int):
        return ["int", v]
    if isinstance(v, float):
        return ["float", fbits(v)]
    if isinstance(v, np.ndarray):
        if v.dtype == object:
            return ["obj", "ndarray-object", ident, structure(v)]
        return ["nd", str(v.dtype), list(v.shape), elems(v), ident]
    if torch is not None and isinstance(v, torch.Tensor):
        return ["tt", str(v.dtype).replace("torch.", ""), list(v.shape), elems(v.detach().cpu().numpy()), int(bool(v.requires_grad)), ident]
    if isinstance(v, (np.integer, np.floating)):
        return ["npscalar", str(v.dtype), elems(v), ident]
    if isinstance(v, KGSym):
        return ["sym", str(v)]
    return ["obj", type(v).__name__, ident, structure(v)]

def classify_result(r):
    """what the differentiated function handed back, as the model's fval"""
    if torch is not None and isinstance(r, torch.Tensor):
        return ["t", int(r.numel()), int(bool(r.requires_grad))]
    if isinstance(r, np.ndarray):
        if r.dtype == object:
            return ["b"]
        return ["v", int(r.size)]
    if isinstance(r, (bool, int, float, np.integer, np.floating)):
        return ["s"]
    return ["b"]

def process_state():
    st = {"numpy.geterr": sorted(np.geterr().items()),
          "numpy.printoptions": sorted((a, str(b)) for a, b in np.get_printoptions().items())}
    if torch is not None:
        st["torch.is_grad_enabled"] = bool(torch.is_grad_enabled())
        st["torch.default_dtype"] = str(torch.get_default_dtype())
    return st

def make_param(spec):
    kind, data = spec
    if kind == "klong":
        return None
    if kind == "np":
        return np.array(data[1], dtype=data[0])
    if kind == "tt":
        return torch.tensor(data[1], dtype=getattr(torch, data[0]))
    raise ValueError(kind)

def run_case(case, fault_kind, fault_k):
    k = KlongInterpreter(backend=backend)
    st = {"n": 0, "snaps": [], "args": [], "outs": {}}
    # parameters first, so that they are the first globals
    for name, spec in case["params"]:
        if spec[0] == "klong":
            k(name + "::" + spec[1])
        elif spec[0] == "alias":
            k._context._context[0][KGSym(name)] = k._context._context[0][KGSym(spec[1])]      # the SAME object under a second name
        else:
            k[name] = make_param(spec)
    if case.get("assigns"):
        k("cnt::100")
    gd = k._context._context[0]
    def snapshot():
        return [[str(n), canon(v, init_objs)] for n, v in gd.items()]
    def tick(x):
        if st.get("probing"):
            return 0               # f() before/after is an observation, not one of the operator's evaluations
        st["n"] += 1
        st["snaps"].append(snapshot())
        st["args"].append(None if case["nilad"] else canon(x, init_objs))
        return 1 if st["n"] == fault_k else 0
    def probe(x):
        if not st.get("probing"):
            st["outs"][st["n"]] = classify_result(x)
        return x
    def boom(x):
        raise Boom()
    k["tick"] = tick
    k["probe"] = probe
    k["boom"] = boom
    good = case["good"]
    bad = {"none": good, "raise": "boom(0)", "vector": "[1.0 2.0]*(" + good + ")", "nonnum": ":foo", "unknown": "qq+(" + good + ")"}[fault_kind]
    arg = "0" if case["nilad"] else "x"
    k("fgood::{" + good + "}")
    # (a conditional directly inside a call argument does not parse in klongpy: go through an inner function)
    k("finner::{:[tick(" + arg + ");" + bad + ";" + good + "]}")
    a1 = "" if case["nilad"] else "x"
    for d in case.get("globals", []):
        k(d)
    if case.get("own_locals"):
        # the differentiated function ITSELF declares a local named like an existing global (and, where the form allows, like the
        # parameter) and assigns it; "direct_unknown": it also refers to an unknown name in its own body, after probe
        loc = case["own_locals"]
        tail = "probe(" + loc + ")" + ("+nosuch" if case.get("direct_unknown") else "")
        k(case["fname"] + "::{[" + loc + "];" + loc + "::finner(" + a1 + ");" + tail + "}")
    elif case.get("assigns"):
        # the differentiated function itself assigns a global after every evaluation that returns
        k("fmid::{[r];r::finner(" + a1 + ");cnt::cnt+1;r}")
        k(case["fname"] + "::{probe(fmid(" + a1 + "))}")
    else:
        k(case["fname"] + "::{probe(finner(" + a1 + "))}")
    for d in case.get("pre", []):
        k(d)
    init_objs = [v for n, v in gd.items()]
    init_names = [str(n) for n in gd.keys()]
    init = snapshot()
    def fprobe():
        st["probing"] = True
        try:
            return canon(k(case["probe_expr"]), [])
        except Exception as e:
            return ["exc", type(e).__name__]
        finally:
            st["probing"] = False
    def canary():
        # an evaluation that produces inf under the backend's normal floating-point mode
        try:
            return canon(k("1%%[0.0 1.0]"), [])
        except Exception as e:
            return ["exc", type(e).__name__]
    f_before = fprobe()
    canary_before = canary()
    proc_before = process_state()
    saved_err = np.geterr()
    cnt_before = gd.get(KGSym("cnt")) if case.get("assigns") else None
    returned = None
    try:
        rv = k(case["expr"])
        cls = "ok"
        detail = ""
        if case.get("returns"):
            returned = [canon(rv, []), canon(k(case["returns"]), [])]
    except Boom:
        cls, detail = "raise", "Boom"
    except NonScalarLossError as e:
        cls, detail = "nonscalar", str(e)[:80]
    except KeyError as e:
        cls, detail = "key", str(e)[:80]
    except Exception as e:
        cls, detail = "other", type(e).__name__ + ": " + str(e)[:80]
    final = snapshot()
    proc_after = process_state()
    canary_after = canary()
    np.seterr(**saved_err)      # do not let a leak of one case reach the next one
    if torch is not None:
        torch.set_grad_enabled(True)
    cnt_after = gd.get(KGSym("cnt")) if case.get("assigns") else None
    if case.get("assigns"):
        cnt_after = canon(cnt_after, [])
        k("cnt::100")                      # so that f() before/after is compared on the same state
        final_wo = snapshot()
    f_after = fprobe()
    final2 = snapshot()
    script = []
    for i in range(1, st["n"] + 1):
        if case.get("direct_unknown"):
            script.append(["x", 2])          # the reference to the unknown name after probe makes every evaluation fail
        elif i in st["outs"]:
            script.append(st["outs"][i])
        elif i == fault_k and fault_kind == "raise":
            script.append(["x", 1])
        else:
            script.append(["x", 2])
    extra = {"process": [proc_before, proc_after], "canary": [canary_before, canary_after]}
    if case.get("assigns"):
        extra.update({"cnt_after": cnt_after, "final_with_cnt_reset": final_wo})
    if returned is not None:
        extra["returned"] = returned
    return {"extra": extra, "class": cls, "detail": detail, "ncalls": st["n"], "init": init, "names": init_names, "snaps": st["snaps"], "args": st["args"],
            "final": final, "final_after_probe": final2, "f_before": f_before, "f_after": f_after, "script": script}

cases = json.loads(sys.stdin.read())
out = []
for case in cases:
    base = run_case(case, "none", 0)
    res = [{"fault": ["none", 0], "r": base}]
    n = base["ncalls"]
    for kind in case["faults"]:
        ks = range(1, n + 1)
        if case.get("max_k"):
            ks = [q for q in ks if q <= case["max_k"] or q == n]
        for fk in ks:
            res.append({"fault": [kind, fk], "r": run_case(case, kind, fk)})
    out.append(res)
print("RESULTS " + json.dumps(out))
'''


def have_torch():
    p = subprocess.run([PY, "-W", "ignore", "-c", "import torch"], stdout=subprocess.PIPE, stderr=subprocess.PIPE)
    return p.returncode == 0


def run_impl(backend, cases):
    env = dict(os.environ, PYTHONPATH=REPO + ":" + VERIF, PYTHONHASHSEED="0")
    p = subprocess.run([PY, "-W", "ignore", "-c", IMPL_SCRIPT % {"verif": VERIF}, backend], input=json.dumps(cases).encode(),
                       stdout=subprocess.PIPE, stderr=subprocess.PIPE, env=env, timeout=1500)
    lines = [l for l in p.stdout.decode().split("\n") if l.startswith("RESULTS ")]
    if not lines:
        raise RuntimeError("C07 implementation runner (%s) produced no results: %s" % (backend, p.stderr.decode()[-2000:]))
    return json.loads(lines[0][8:])


# ---------------------------------------------------------------- case universe
def lit(vals):
    return "[" + " ".join(repr(v) for v in vals) + "]"


def mat(rows):
    return "[" + " ".join(lit(r) for r in rows) + "]"


def single_params(backend, tier, rng):
    """(label, spec) for the single parameter p"""
    out = [("intarr", ["klong", lit([1, 2, 3])]),
           ("fltarr", ["klong", lit([1.0, 2.0, 3.0])]),
           ("flt1", ["klong", lit([2.5])]),
           ("fltmat", ["klong", mat([[1.0, 2.0], [3.0, 4.5]])]),
           ("intscalar", ["klong", "2"]),
           ("fltscalar", ["klong", "2.5"]),
           ("np_f32", ["np", ["float32", [1.0, 2.5]]]),
           ("np_f64", ["np", ["float64", [1.5, 2.0, 3.0]]]),
           ("np_i64", ["np", ["int64", [3, 1]]]),
           # scalars COMPUTED by the backend (a reduction, one update step): NumPy scalars / 0-d tensors, not Python numbers
           ("computed_scalar", ["klong", "+/[0.25 0.25]"]),
           ("updated_scalar", ["klong", "(+/[1.0 2.0])-0.1*2.0"]),
           ("computed_int", ["klong", "+/[1 2]"])]
    if backend == "torch":
        out += [("tt_f64", ["tt", ["float64", [1.0, 2.5, 3.0]]]),
                ("tt_f32", ["tt", ["float32", [1.0, 2.5]]]),
                ("tt_f64mat", ["tt", ["float64", [[1.0, 2.0], [3.0, 4.0]]]])]
    if tier == "thorough":
        n = rng.randint(4, 7)
        out += [("intarr_n", ["klong", lit([rng.randint(-4, 9) for _ in range(n)])]),
                ("fltarr_n", ["klong", lit([rng.randint(-8, 16) / 4.0 for _ in range(n)])]),
                ("fltmat33", ["klong", mat([[rng.randint(1, 12) / 2.0 for _ in range(3)] for _ in range(3)])]),
                ("np_f64_n", ["np", ["float64", [rng.randint(-8, 16) / 4.0 for _ in range(n)]]])]
    return out


def multi_params(backend, tier, rng):
    out = [("flt_flt", [["klong", lit([1.0, 2.0])], ["klong", lit([3.0])]]),
           ("int_intscalar", [["klong", lit([1, 2])], ["klong", "3"]]),
           ("fs_fs", [["klong", "2.0"], ["klong", "3.5"]]),
           ("flt_intscalar", [["klong", lit([1.5, 2.0])], ["klong", "3"]]),
           ("npf64_npf32", [["np", ["float64", [1.0, 2.0]]], ["np", ["float32", [3.0]]]]),
           ("flt_computed", [["klong", lit([1.0, 2.0])], ["klong", "+/[0.25 0.25]"]]),
           ("computed_computed", [["klong", "(+/[1.0 2.0])-0.1*2.0"], ["klong", "+/[1 2]"]])]
    if backend == "torch":
        out += [("ttf64_ttf32", [["tt", ["float64", [1.0, 2.0]]], ["tt", ["float32", [3.0]]]])]
    if tier == "thorough":
        n = rng.randint(3, 5)
        out += [("flt_n", [["klong", lit([rng.randint(1, 9) / 2.0 for _ in range(n)])], ["klong", lit([rng.randint(1, 9) / 2.0 for _ in range(2)])]]),
                ("npf64_n", [["np", ["float64", [rng.randint(1, 9) / 2.0 for _ in range(n)]]], ["klong", "1.5"]])]
    return out


def build_cases(backend, tier, rng):
    cases = []
    gfaults = ["raise", "vector", "nonnum", "unknown"]
    jfaults = ["raise", "nonnum", "unknown"]
    for label, spec in single_params(backend, tier, rng):
        common = {"params": [["p", spec]], "nilad": False}
        loss = "+/+/x*x" if "mat" in label else "+/x*x"      # +/ of a matrix reduces along the first axis only
        cases.append(dict(common, form="gradvar", label=label, expr="f:>p", fname="f", good=loss, probe_expr="fgood(p)", faults=gfaults))
        cases.append(dict(common, form="nablasym", label=label, expr="p∇f", fname="f", good=loss, probe_expr="fgood(p)", faults=gfaults))
        cases.append(dict(common, form="jacvar", label=label, expr="p∂f", fname="f", good="x*x", probe_expr="fgood(p)", faults=jfaults))
    # a literal point on the left of ∇ (no variable involved at all)
    cases.append({"params": [["p", ["klong", "0"]]], "nilad": False, "form": "nablapoint", "label": "literal", "expr": "[1.0 2.0]∇f", "fname": "f",
                  "good": "+/x*x", "probe_expr": "fgood([1.0 2.0])", "faults": gfaults,
                  "point": ["float64", [2], [1.0, 2.0]]})
    for label, specs in multi_params(backend, tier, rng):
        common = {"params": [["w", specs[0]], ["b", specs[1]]], "nilad": True}
        cases.append(dict(common, form="gradmulti", label=label, expr="f:>[w b]", fname="f", good="(+/w*w)+(+/b*b)", probe_expr="fgood()", faults=gfaults))
        cases.append(dict(common, form="jacmulti", label=label, expr="[w b]∂f", fname="f", good="(w*w),b*b", probe_expr="fgood()", faults=jfaults))
        # the same symbol twice, and an undefined symbol in the list
        # the same symbol twice (on torch the first tensor is unused: zero gradient since fix 4b0d1b8)
        cases.append(dict(common, form="gradmulti", label=label + "_dup", expr="f:>[w w]", fname="f", good="(+/w*w)+(+/b*b)", probe_expr="fgood()", faults=["raise", "nonnum"], syms=["w", "w"]))
        cases.append(dict(common, form="jacmulti", label=label + "_dup", expr="[w w]∂f", fname="f", good="(w*w),b*b", probe_expr="fgood()", faults=["raise"], syms=["w", "w"]))
    # one array object under two names (w and b are the same ndarray / tensor)
    for label, spec in (("alias_flt", ["klong", lit([1.0, 2.0])]), ("alias_int", ["klong", lit([1, 2])]), ("alias_npf64", ["np", ["float64", [1.5, 2.5]]])):
        common = {"params": [["w", spec], ["b", ["alias", "w"]]], "nilad": True}
        cases.append(dict(common, form="gradmulti", label=label, expr="f:>[w b]", fname="f", good="(+/w*w)+(+/b*b)", probe_expr="fgood()", faults=["raise", "vector"]))
        cases.append(dict(common, form="jacmulti", label=label, expr="[w b]∂f", fname="f", good="(w*w),b*b", probe_expr="fgood()", faults=["raise"]))
        common = {"params": [["q", spec], ["p", ["alias", "q"]]], "nilad": False}
        cases.append(dict(common, form="gradvar", label=label, expr="f:>p", fname="f", good="+/x*x", probe_expr="fgood(p)", faults=["raise"]))
        cases.append(dict(common, form="nablasym", label=label, expr="p∇f", fname="f", good="+/x*x", probe_expr="fgood(p)", faults=["raise", "unknown"]))
    # the differentiated function itself assigns a global (allowed: C07_restore_with_writes)
    for label, spec in (("intarr", ["klong", lit([1, 2, 3])]), ("fltarr", ["klong", lit([1.0, 2.0, 3.0])]), ("fltscalar", ["klong", "2.5"])):
        common = {"params": [["p", spec]], "nilad": False, "assigns": True}
        cases.append(dict(common, form="gradvar", label=label + "_assign", expr="f:>p", fname="f", good="+/x*x", probe_expr="fgood(p)", faults=["raise", "vector"]))
        cases.append(dict(common, form="nablasym", label=label + "_assign", expr="p∇f", fname="f", good="+/x*x", probe_expr="fgood(p)", faults=["raise", "nonnum"]))
        cases.append(dict(common, form="jacvar", label=label + "_assign", expr="p∂f", fname="f", good="x*x", probe_expr="fgood(p)", faults=["raise"]))
    common = {"params": [["w", ["klong", lit([1.0, 2.0])]], ["b", ["klong", "3.5"]]], "nilad": True, "assigns": True}
    cases.append(dict(common, form="gradmulti", label="flt_fs_assign", expr="f:>[w b]", fname="f", good="(+/w*w)+(+/b*b)", probe_expr="fgood()", faults=["raise", "unknown"]))
    cases.append(dict(common, form="jacmulti", label="flt_fs_assign", expr="[w b]∂f", fname="f", good="(w*w),b*b", probe_expr="fgood()", faults=["raise"]))
    # the differentiated function ITSELF declares a local that collides with an existing global (e, t) or with the parameter name (p),
    # or refers to an unknown name in its own body: its evaluation must happen in its own frame (fn_invoked_in_own_frame)
    own_single = [("intarr", ["klong", lit([1, 2, 3])]), ("fltarr", ["klong", lit([1.0, 2.0, 3.0])]), ("fltscalar", ["klong", "2.5"])]
    if backend == "torch":
        own_single.append(("tt_f32", ["tt", ["float32", [1.0, 2.5]]]))
    G = ["e::[9 9 9]", 't::"keep me"']
    for label, spec in own_single:
        for loc in ("e", "p", "t"):
            common = {"params": [["p", spec]], "nilad": False, "own_locals": loc, "globals": G}
            cases.append(dict(common, form="gradvar", label=label + "_local_" + loc, expr="f:>p", fname="f", good="+/x*x", probe_expr="fgood(p)", faults=["raise", "vector"]))
            cases.append(dict(common, form="nablasym", label=label + "_local_" + loc, expr="p∇f", fname="f", good="+/x*x", probe_expr="fgood(p)", faults=["raise", "nonnum"]))
            cases.append(dict(common, form="jacvar", label=label + "_local_" + loc, expr="p∂f", fname="f", good="x*x", probe_expr="fgood(p)", faults=["raise"]))
        common = {"params": [["p", spec]], "nilad": False, "own_locals": "e", "globals": G, "direct_unknown": True}
        cases.append(dict(common, form="gradvar", label=label + "_unknown_in_f", expr="f:>p", fname="f", good="+/x*x", probe_expr="fgood(p)", faults=[]))
        cases.append(dict(common, form="nablasym", label=label + "_unknown_in_f", expr="p∇f", fname="f", good="+/x*x", probe_expr="fgood(p)", faults=[]))
        cases.append(dict(common, form="jacvar", label=label + "_unknown_in_f", expr="p∂f", fname="f", good="x*x", probe_expr="fgood(p)", faults=[]))
    own_multi = [("flt_flt", [["klong", lit([1.0, 2.0])], ["klong", lit([3.0])]]), ("int_intscalar", [["klong", lit([1, 2])], ["klong", "3"]]),
                 ("fs_fs", [["klong", "2.0"], ["klong", "3.5"]])]
    if backend == "torch":
        own_multi.append(("ttf32_fs", [["tt", ["float32", [1.0, 2.0]]], ["klong", "3.5"]]))
    for label, specs in own_multi:
        for loc in ("e", "t"):
            common = {"params": [["w", specs[0]], ["b", specs[1]]], "nilad": True, "own_locals": loc, "globals": G}
            cases.append(dict(common, form="gradmulti", label=label + "_local_" + loc, expr="f:>[w b]", fname="f", good="(+/w*w)+(+/b*b)", probe_expr="fgood()", faults=["raise", "vector"]))
            cases.append(dict(common, form="jacmulti", label=label + "_local_" + loc, expr="[w b]∂f", fname="f", good="(w*w),b*b", probe_expr="fgood()", faults=["raise"]))
        common = {"params": [["w", specs[0]], ["b", specs[1]]], "nilad": True, "own_locals": "e", "globals": G, "direct_unknown": True}
        cases.append(dict(common, form="gradmulti", label=label + "_unknown_in_f", expr="f:>[w b]", fname="f", good="(+/w*w)+(+/b*b)", probe_expr="fgood()", faults=[]))
        cases.append(dict(common, form="jacmulti", label=label + "_unknown_in_f", expr="[w b]∂f", fname="f", good="(w*w),b*b", probe_expr="fgood()", faults=[]))
    # nested scopes (property oracle only; the model has one scope): the gradient expression is evaluated inside a Klong function whose
    # locals / arguments are named like globals; observed: all globals before/after, and on success the locals handed back
    g1 = {"params": [["p", ["klong", lit([7.0, 8.0])]]], "nilad": False, "form": "scoped", "fname": "f", "probe_expr": "fgood(p)"}
    for nm, body, good, ret, call in (
            ("local:>", "{[p];p::[1.0 2.0 3.0];f:>p;p}", "+/x*x", "[1.0 2.0 3.0]", "h()"),
            ("local-nabla", "{[p];p::[1.0 2.0 3.0];p∇f;p}", "+/x*x", "[1.0 2.0 3.0]", "h()"),
            ("local-jac", "{[p];p::[1.0 2.0 3.0];p∂f;p}", "x*x", "[1.0 2.0 3.0]", "h()"),
            ("arg:>", "{f:>x;x}", "+/x*x", "p", "h(p)"),
            ("arg-nabla", "{x∇f;x}", "+/x*x", "p", "h(p)"),
            ("arg-jac", "{x∂f;x}", "x*x", "p", "h(p)"),
            ("arg-y-nabla", "{y∇f;y}", "+/x*x", "p", "h(0;p)")):
        cases.append(dict(g1, label=nm, pre=["h::" + body], expr=call, returns=ret, good=good, faults=["raise", "vector"] if "jac" not in nm else ["raise"]))
    # functions with temporaries evaluated (hence compiled) BEFORE the gradient: f(..) before/after must agree in value AND kind;
    # nested numeric differentiation (second derivatives, Hessians, a gradient inside the differentiated function)
    g3 = {"params": [["a", ["klong", "3"]], ["b", ["klong", "1"]], ["p", ["klong", "2"]], ["w", ["klong", lit([1.0, 2.0, 3.0])]], ["q", ["klong", lit([1.0, 2.0])]]],
          "nilad": False, "form": "scoped", "fname": "f", "good": "+/x*x", "faults": [],
          "pre": ["g::{[t];t::x*a;t+b}", "s::{[t];t::+/x*x;t*a}", "r::{+/x*x*x}", "hh::{[u];u::x∇r;+/u*u}"]}
    for nm, expr, probe in (("temp-nabla-sym", "p∇g", "g(2)"), ("temp-nabla-lit", "2∇g", "g(2)"), ("temp-nabla-vec", "w∇s", "s([1 2 3])"),
                            ("temp:>", "g:>p", "g(2)"), ("temp:>vec", "s:>w", "s([1 2 3])"), ("temp-jac", "w∂{[t];t::x*a;t+b}", "g(2)"),
                            ("nested-second-derivative", "q∇{+/x∇r}", "r(q)"), ("nested-hessian", "q∂{x∇r}", "r(q)"),
                            ("nested-grad-under:>", "{+/x∇r}:>q", "r(q)"), ("nested-:>-under-nabla", "q∇{+/r:>x}", "r(q)"),
                            ("nested-local", "q∇hh", "hh(q)"), ("nested-jac-of-jac", "q∂{+/x∂{x*x}}", "r(q)")):
        cases.append(dict(g3, label=nm, expr=expr, probe_expr=probe))
    # the differentiated function is a NAMED PROJECTION (arity 2 and 3, open slot first / last): its argument vector must not be
    # touched (function values are compared structurally) and g(v) for a fresh v must give what it gave   [property oracle only]
    g4 = {"params": [["p", ["klong", lit([1.0, 2.0, 3.0])]], ["v", ["klong", lit([5.0, 7.0, 9.0])]], ["s", ["klong", "2.0"]]],
          "nilad": False, "form": "scoped", "fname": "f", "probe_expr": "g(v)"}
    projs = (("proj2-first", "fd::{probe(finner(x))+0*y}", "g::fd(;2.0)"), ("proj2-last", "fd::{probe(finner(y))+0*x}", "g::fd(2.0;)"),
             ("proj3-first", "fd::{probe(finner(x))+0*(y+z)}", "g::fd(;2.0;3.0)"), ("proj3-last", "fd::{probe(finner(z))+0*(x+y)}", "g::fd(1.0;2.0;)"),
             ("proj3-middle", "fd::{probe(finner(y))+0*(x+z)}", "g::fd(1.0;;3.0)"), ("proj2-array", "fd::{probe(finner(x))+0*+/y}", "g::fd(;v)"))
    for nm, d1, d2 in projs:
        for fnm, expr, good, faults in (("gradvar", "g:>p", "+/x*x", ["raise", "vector"]), ("nabla", "p∇g", "+/x*x", ["raise", "nonnum"]),
                                        ("jac", "p∂g", "x*x", ["raise"]), ("sysjac", ".jacobian(g;p)", "x*x", ["raise"]),
                                        ("gradscalar", "g:>s", "+/x*x", ["raise"]), ("gradlit", "g:>[1.0 2.0]", "+/x*x", [])):
            cases.append(dict(g4, label=nm + "/" + fnm, pre=[d1, d2], expr=expr, good=good, faults=faults))
    # failures BEFORE anything is bound: operands swapped (the left symbol of ∇ names a function), the parameter bound to a dictionary,
    # a string, :undefined; all globals are compared structurally before/after, fgood(p) must still work
    g5 = {"params": [["p", ["klong", lit([1.0, 2.0, 3.0])]], ["d", ["klong", ":{[1 2] [3 4]}"]], ["t", ["klong", '"abc"']], ["u", ["klong", "1%0"]]],
          "nilad": False, "form": "scoped", "fname": "f", "good": "+/x*x", "faults": [], "probe_expr": "fgood(p)",
          "pre": ["gp::fgood(;2.0)", "h2::{x+y}"]}
    for expr in ("fgood∇p", "f∇p", "gp∇p", "h2∇p", "d∇f", "t∇f", "u∇f", "f:>d", "f:>t", "f:>u", "d∂f", "t∂f", "f:>[d t]", "[d u]∂f", "f:>[fgood p]", "[p gp]∂f",
                 "fgood:>fgood", "tick∇p", "p∇d", "p∇t"):
        cases.append(dict(g5, label="early/" + expr, expr=expr))
    g2 = {"params": [["w", ["klong", lit([5.0])]], ["b", ["klong", "9"]]], "nilad": True, "form": "scoped", "fname": "f", "probe_expr": "fgood()"}
    for nm, body, good in (("locals-multi:>", "{[w b];w::[1.0 2.0];b::3.0;f:>[w b];w,b}", "(+/w*w)+(+/b*b)"),
                           ("locals-multi-jac", "{[w b];w::[1.0 2.0];b::3.0;[w b]∂f;w,b}", "(w*w),b*b")):
        cases.append(dict(g2, label=nm, pre=["h::" + body], expr="h()", returns="[1.0 2.0],3.0", good=good, faults=["raise"]))
    common = {"params": [["w", ["klong", lit([1.0, 2.0])]], ["b", ["klong", "3"]]], "nilad": True}
    cases.append(dict(common, form="gradmulti", label="undefined", expr="f:>[w nosuch]", fname="f", good="(+/w*w)+(+/b*b)", probe_expr="fgood()", faults=[], syms=["w", "nosuch"]))
    cases.append(dict(common, form="jacmulti", label="undefined", expr="[w nosuch]∂f", fname="f", good="(w*w),b*b", probe_expr="fgood()", faults=[], syms=["w", "nosuch"]))
    return cases


# ---------------------------------------------------------------- model side: encode a snapshot as a model store
DT = {"int64": 0, "int32": 0, "float32": 1, "float64": 2}
DTNAME = {0: "int64", 1: "float32", 2: "float64"}
EPS = 1e-6


def bits_to_float(b):
    return struct.unpack(">d", struct.pack(">Q", b))[0]


def fbits(x):
    return struct.unpack(">Q", struct.pack(">d", float(x)))[0]


class Unsupported(Exception):
    pass


def store_of_snapshot(snap):
    """snapshot (list of [name, canon]) -> (model store as python sx structure, name->number map).
    Distinct objects get distinct buffers; one object under two names gets one buffer."""
    vars_, heap = [], []
    nums = {}
    for i, (name, c) in enumerate(snap):
        nums[name] = i + 1
        tag = c[0]
        if tag == "int":
            v = ["i", c[1]]
        elif tag == "float":
            v = ["f", [0, c[1], []]]
        elif tag in ("nd", "tt") and 0 <= c[-1] < i:
            v = list(vars_[c[-1]][1])          # the same object under a second name: same buffer
        elif tag in ("nd", "tt"):
            if c[1] not in DT:
                raise Unsupported("dtype " + c[1])
            dt = DT[c[1]]
            cell = [dt, c[2], [[1, e, []] if dt == 0 else [0, e, []] for e in c[3]]]
            heap.append(cell)
            v = ["a", len(heap) - 1] if tag == "nd" else ["t", len(heap) - 1, c[4]]
        elif tag == "npscalar" and c[1] == "float64":
            v = ["f", [0, c[2][0], []]]
        elif tag == "npscalar" and c[1] in ("int64", "int32"):
            v = ["i", c[2][0]]
        elif tag == "sym":
            v = ["y", i + 1]
        else:
            v = ["fn", i + 1]
        vars_.append([i + 1, v])
    return [["vars"] + vars_, ["heap"] + heap], nums


def decode_num(n, dt):
    isint, base, perts = n
    if dt == 0:
        if perts:
            raise Unsupported("perturbed integer cell")
        return int(base)
    v = float(base) if isint else bits_to_float(base)
    for p in perts:
        v = v + EPS if p else v - EPS
    if dt == 1:
        import numpy as np
        v = float(np.float32(v))
    return fbits(v)


def expected_entry(val, heap, init_vars, n_init_cells, init_snap_entry):
    """model value -> the canonical entry the implementation should show"""
    tag = val[0]
    if tag == "i":
        return ["int", val[1]]
    if tag == "f":
        return ["float", decode_num(val[1], 2)]
    if tag in ("a", "t"):
        l = val[1]
        dt, shape, data = heap[l]
        ident = -1
        if l < n_init_cells:
            for idx, (_, iv) in enumerate(init_vars):
                if iv[0] == tag and iv[1] == l:
                    ident = idx
                    break
        el = [decode_num(n, dt) for n in data]
        if tag == "a":
            return ["nd", DTNAME[dt], list(shape), el, ident]
        return ["tt", DTNAME[dt], list(shape), el, int(val[2]), ident]
    if tag == "y":
        return ["sym-or-obj", val[1] - 1]
    return ["obj", val[1] - 1]


def expected_snapshot(mstore, init_vars, n_init_cells, names, init_snap):
    vs = mstore[0][1:]
    heap = mstore[1][1:]
    out = []
    for num, val in vs:
        name = names[num - 1] if num - 1 < len(names) else "new%d" % num
        e = expected_entry(val, heap, init_vars, n_init_cells, None)
        if num - 1 < len(init_snap) and init_snap[num - 1][1][0] == "npscalar" and num - 1 < len(init_vars) and val == init_vars[num - 1][1]:
            e = init_snap[num - 1][1]        # an (immutable) NumPy scalar that is still bound: the same object
        if e[0] in ("obj", "sym-or-obj"):
            # functions, symbols and other objects: the initial entry itself (same object)
            e = init_snap[e[1]][1] if e[1] < len(init_snap) else e
        out.append([name, e])
    return out


def arg_matches(marg, heap, iarg):
    """argument of the differentiated function: same type, dtype, shape, contents (identity is always 'new')"""
    e = expected_entry(marg, heap, [], 0, None)
    if e[0] in ("nd", "tt") and iarg[0] == e[0]:
        return e[1:4] == iarg[1:4] and (e[0] == "nd" or e[4] == iarg[4])
    return e == iarg


def form_request(case, nums):
    f = case["form"]
    if f in ("gradvar", "nablasym", "jacvar"):
        return [f, nums["p"]]
    if f in ("gradmulti", "jacmulti"):
        syms = case.get("syms", ["w", "b"])
        return [f, [nums.get(s, 999) for s in syms]]
    raise Unsupported(f)


# ---------------------------------------------------------------- the check
def strip_ident_new(snap):
    return snap


def compare_case(chk, backend, case, fault, r, m):
    """returns (property_failure or None, correspondence_failure or None, in_alias_class)"""
    init = r["init"]
    prop = None
    final_for_oracle = r["final"]
    if case.get("assigns"):
        # the function's own assignments to cnt are allowed: one per evaluation that returned; everything else as before
        expect_cnt = 100 + sum(1 for o in r["script"] if o[0] != "x")
        if r["extra"]["cnt_after"] != ["int", expect_cnt]:
            prop = {"what": "the global assigned by the differentiated function is not what the function assigned",
                    "expected": ["int", expect_cnt], "after": r["extra"]["cnt_after"]}
        final_for_oracle = r["extra"]["final_with_cnt_reset"]
    pb, pa = r["extra"]["process"]
    cb, ca = r["extra"]["canary"]
    if pb != pa:
        prop = {"what": "process-wide numeric state differs after the gradient expression",
                "before": {k: v for k, v in pb.items() if pa.get(k) != v}, "after": {k: v for k, v in pa.items() if pb.get(k) != v}}
    elif cb != ca:
        prop = {"what": "1%[0.0 1.0] evaluates differently after the gradient expression", "before": cb, "after": ca}
    if prop is None and case.get("returns") and r["class"] == "ok":
        got, want = r["extra"]["returned"]
        if got != want:
            prop = {"what": "local variables of the enclosing function differ after the gradient expression", "returned": got, "expected": want}
    # --- property oracle: nothing visible changed; f() gives what it gave
    if prop is not None:
        pass
    elif final_for_oracle != init:
        changed = [a[0] for a, b in zip(init, final_for_oracle) if a != b] + [b[0] for b in final_for_oracle[len(init):]]
        prop = {"what": "program state differs after the gradient expression", "changed": changed,
                "before": [e for e in init if e[0] in changed], "after": [e for e in final_for_oracle if e[0] in changed]}
    elif r["f_before"] != r["f_after"]:
        prop = {"what": "the function evaluated afterwards returns something else", "before": r["f_before"], "after": r["f_after"]}
    corr = None
    if m is not None:
        mcls, mn, mfinal, mlogs, margs = m[0], m[1], m[2], m[3], m[4]
        mstore0 = case["_mstore"]
        init_vars = mstore0[0][1:]
        n_cells = len(mstore0[1]) - 1
        try:
            if mcls != r["class"]:
                corr = {"what": "result class", "model": mcls, "impl": r["class"], "detail": r["detail"]}
            elif mn != r["ncalls"]:
                corr = {"what": "number of evaluations of the differentiated function", "model": mn, "impl": r["ncalls"]}
            else:
                exp_final = expected_snapshot(mfinal, init_vars, n_cells, r["names"], init)
                if exp_final != r["final"]:
                    corr = {"what": "final state", "model": exp_final, "impl": r["final"]}
                for i in range(mn):
                    if corr is not None:
                        break
                    es = expected_snapshot(mlogs[i], init_vars, n_cells, r["names"], init)
                    if es != r["snaps"][i]:
                        corr = {"what": "state seen by the function at evaluation %d" % (i + 1), "model": es, "impl": r["snaps"][i]}
                    elif not case["nilad"] and not arg_matches(margs[i][0], mlogs[i][1][1:], r["args"][i]):
                        corr = {"what": "argument of evaluation %d" % (i + 1), "model": margs[i], "impl": r["args"][i]}
        except Unsupported as e:
            corr = {"what": "model output not decodable", "why": str(e)}
    return prop, corr


def in_alias_class(backend, case, r):
    """K: numeric path, the parameter is an ndarray/tensor over a float64 buffer, and the damage is to the CONTENTS of that very
    object (same object, same type, dtype, shape, requires_grad still bound to the same name)"""
    numeric = case["form"] == "nablasym" or (backend == "numpy" and case["form"] in ("gradvar", "gradmulti"))
    if not numeric or len(r["final"]) != len(r["init"]):
        return False
    pnames = ["p"] if case["form"] in ("gradvar", "nablasym") else ["w", "b"]
    hit = False
    for (name, c), (name2, d) in zip(r["init"], r["final"]):
        if c == d:
            continue
        if not (name == name2 and name in pnames and c[0] in ("nd", "tt") and c[1] == "float64" and d[0] == c[0]
                and d[1:3] == c[1:3] and d[4:] == c[4:]):
            return False
        hit = True
    return hit


def run(tier, replay=None):
    chk = Check("C07", tier)
    rng = random.Random(chk.seed)
    chk.generate(generate())
    chk.build_model()
    hits = forbidden_scan("C07")
    proof = chk.build_proofs()
    if hits:
        proof["ok"] = False
        proof["error"] = "forbidden declarations: %r" % hits
        proof["broken"] = hits[0]

    backends = ["numpy"] + (["torch"] if have_torch() else [])
    chk.counters["backends"] = len(backends)
    prop_fail = []      # (backend, case, fault, detail, alias)
    corr_fail = []
    seen = set()
    for backend in backends:
        cases = build_cases(backend, tier, rng)
        results = run_impl(backend, cases)
        # model requests
        reqs, index = [], []
        for ci, (case, res) in enumerate(zip(cases, results)):
            for ri, item in enumerate(res):
                r = item["r"]
                try:
                    if case["form"] == "nablapoint":
                        mstore, nums = store_of_snapshot(r["init"])
                        dtn, shape, vals = case["point"]
                        # the literal array is a fresh object: a buffer nobody else refers to
                        mstore[1].append([DT[dtn], shape, [[0, fbits(v), []] for v in vals]])
                        freq = ["nablapoint", ["a", len(mstore[1]) - 2]]
                    else:
                        mstore, nums = store_of_snapshot(r["init"])
                        freq = form_request(case, nums)
                    case["_mstore"] = mstore
                    item["_mstore"] = mstore
                    writes = []
                    if case.get("assigns"):
                        # the function assigned cnt after every evaluation that returned (observed outcome script)
                        c = 100
                        for o in r["script"]:
                            if o[0] == "x":
                                writes.append([])
                            else:
                                c += 1
                                writes.append([[nums["cnt"], ["i", c]]])
                    reqs.append(sx(["run", 1 if backend == "torch" else 0, freq, mstore, r["script"] if r["script"] else [["s"]], writes]))
                    index.append((ci, ri))
                except Unsupported:
                    chk.count("unsupported_by_model")
        mouts = chk.run_model(reqs)
        mmap = {idx: mo for idx, mo in zip(index, mouts)}
        for ci, (case, res) in enumerate(zip(cases, results)):
            for ri, item in enumerate(res):
                r = item["r"]
                fault = item["fault"]
                chk.count("evaluations")
                chk.count("%s_%s" % (backend, case["form"]))
                chk.count("fault_" + fault[0])
                if case.get("assigns"):
                    chk.count("cases_function_assigns_global")
                    if r["ncalls"] and r["extra"]["cnt_after"] != ["int", 100]:
                        chk.count("cases_function_assigned_at_least_once")
                if case.get("own_locals"):
                    chk.count("cases_function_declares_colliding_local")
                if case["form"] == "scoped":
                    chk.count("cases_nested_scope")
                    if "returned" in r["extra"]:
                        chk.count("cases_nested_scope_locals_observed")
                if any(sp[0] == "alias" for _, sp in case["params"]):
                    chk.count("cases_aliased_parameters")
                if "_dup" in case["label"]:
                    chk.count("cases_duplicate_symbol")
                chk.count("result_" + r["class"])
                key = (backend, case["form"], case["label"], fault[0], fault[1])
                if key not in seen and r["ncalls"] > 0:
                    seen.add(key)
                    chk.count("distinct_nontrivial")
                m = mmap.get((ci, ri))
                if m is not None and m[0] == "bad":
                    raise RuntimeError("model could not decode request: %r" % (reqs[index.index((ci, ri))][:300],))
                case["_mstore"] = item.get("_mstore")
                prop, corr = compare_case(chk, backend, case, fault, r, m)
                rec = {"backend": backend, "form": case["form"], "expr": case["expr"], "params": case["params"], "label": case["label"],
                       "function": "finner::{:[tick(" + ("0" if case["nilad"] else "x") + ");<fault>;" + case["good"] + "]}; " + case["fname"] + "::{probe(finner(" + ("" if case["nilad"] else "x") + "))}",
                       "fault": {"kind": fault[0], "at_evaluation": fault[1]}, "result": r["class"], "evaluations": r["ncalls"]}
                if prop is not None:
                    prop_fail.append((rec, prop, in_alias_class(backend, case, r), corr))
                elif corr is not None:
                    corr_fail.append((rec, corr))
                if fault[0] != "none":
                    chk.sample({"backend": backend, "expr": case["expr"], "p": case["label"], "fault": fault, "result": r["class"],
                                "evaluations": r["ncalls"], "state_unchanged": prop is None}, limit=8)

    # ---- decide
    chk.counters["property_failures"] = len(prop_fail)
    chk.counters["model_disagreements"] = len(corr_fail)
    if os.environ.get("C07_DEBUG"):
        for rec, corr in corr_fail[:int(os.environ["C07_DEBUG"])]:
            print("CORR", json.dumps(rec)[:400], json.dumps(corr)[:1500])
        for rec, prop, al, corr in [p for p in prop_fail if not p[2]][:int(os.environ["C07_DEBUG"])]:
            print("PROP", json.dumps(rec)[:400], json.dumps(prop)[:1500])
    alias_hits = [p for p in prop_fail if p[2]]
    other_hits = [p for p in prop_fail if not p[2]]
    if alias_hits:
        # the alias class: the model must predict exactly this damage (otherwise it is a different failure)
        rec, prop, _, corr = alias_hits[0]
        chk.counters["alias_class_failures"] = len(alias_hits)
        unpredicted = [p for p in alias_hits if p[3] is not None]
        if unpredicted:
            rec, prop, _, corr = unpredicted[0]
            chk.violation("gradient operator changed program state in a way the model does not predict (%s, %s)" % (rec["expr"], rec["label"]),
                          dict(rec, observed=prop, model_disagreement=corr))
        else:
            chk.finding(FINDING_ALIAS,
                        "%s with a float64 array parameter and a function failing at evaluation %d leaves the parameter perturbed (%d of the cases of this run)"
                        % (rec["expr"], rec["fault"]["at_evaluation"], len(alias_hits)),
                        dict(rec, observed=prop))
    if other_hits:
        rec, prop, _, corr = other_hits[0]
        chk.violation("gradient operator is not pure: %s with %s on %s, function fault %s at evaluation %d: %s"
                      % (rec["expr"], rec["label"], rec["backend"], rec["fault"]["kind"], rec["fault"]["at_evaluation"], prop["what"]),
                      dict(rec, observed=prop, other_failures=len(other_hits) - 1))
    if not chk.violations:
        if corr_fail:
            rec, corr = corr_fail[0]
            chk.violation("correspondence between klongpy and the Coq model broke (%s; %s %s); no failing input of the property found in %d cases"
                          % (corr["what"], rec["expr"], rec["label"], chk.counters.get("evaluations", 0)),
                          {"broken": "correspondence C07/Model.v", "case": rec, "detail": corr, "other_disagreements": len(corr_fail) - 1}, no_input=True)
        elif not proof["ok"] and not chk.known_printed:
            chk.violation("proof obligation no longer checks: %s" % proof["broken"],
                          {"broken_obligation": proof["broken"], "coq_error": proof["error"], "generated": chk.generated_text}, no_input=True)
    return chk.finish(
        rule="all six operator forms x parameter kinds (int/float/float32 arrays, matrices, scalars, injected numpy and torch float64/float32 objects) x "
             "function faults {raise, vector, non-number, unknown name} at EVERY evaluation index k up to the number of evaluations of the fault-free run, "
             "on every available backend; compared: result class, evaluation count, the state seen at every evaluation, the argument, the final state, f() before/after. "
             "distinct = distinct (backend, form, parameter kind, fault kind, k)",
        trusted_base=TRUSTED, assumptions=ASSUME)
