"""C08 — numeric programs mean the same under the NumPy and PyTorch backends (PARTIAL, see notes/C08.md).

Link 1 (Coq, coq/C08/Properties.v): theorems about klongpy's own glue only — T8.accept (every IR the
compiler can emit has a source text in both backends' tables, except |\\ and &\\ under numpy, which go to the
interpreter) and T8.kind (integer/real kind of every element operation is a function of operand kinds; shape of an
element-wise result is a function of operand shapes, rank <= 1).  Torch kernels are NOT modelled.
Link 2 (here): (a) the real _ir_to_source of both backends against the extracted model, for every operator of the
regenerated op sets; (b) the property's differential: the same source under KlongInterpreter(backend='numpy') and
KlongInterpreter(backend='torch', device='cpu'), canonical result + kg_write text.
"""
import json
import math
import os
import random
import re
import struct
import subprocess
import sys

from . import c05
from .common import Check, sx, parse_sx, forbidden_scan, PY, VERIF, REPO

TRUSTED = [
    "Coq 8.16.1 kernel (coqc); vm_compute in the finite checks over the regenerated op tables (full_tables) and the Example",
    "Print Assumptions: every C08 theorem closed under the global context (no axioms)",
    "translator harness/c05.py:generate (Python ast): op sets of compiler.py, op->text dictionaries and f-string templates of both backends",
    "extraction: ExtrOcamlBasic only; ocaml/driver.ml",
    "differential harness: program/binding enumerators, canonicalisation, the tolerance 2^-20 relative (single precision with a few roundings), torch itself",
]
ASSUME = [
    "torch kernels (add, mul, div, sum, cumsum, amax, floor, comparison, indexing) are not modelled: equality of element values under torch is tested, not proved",
    "T8.single (forward error bound for binary32 rounding) of the design is NOT proved; the differential compares with a fixed tolerance on operands exactly representable in binary32",
    "T8.kind is proved at element level for all numbers and at shape level for scalars and rank-1 arrays only",
    "devices other than cpu are outside the check",
]

FINDINGS = {
    "C08-float32-display": ["a::[0.1 0.2]", "a"],
}


def wrappers_keep_int64():
    """TorchBackend._wrap_torch_func (behind np.less / greater / maximum ...) never narrows an integer result:
    no torch.int32/int16/int8/uint8 and no .int()/.short()/.char()/.byte() inside it"""
    import ast
    from . import astlib
    m = astlib.module("klongpy/backends/torch_backend.py")
    f = astlib.find_func(astlib.find_class(m, "TorchBackend"), "_wrap_torch_func")
    for n in ast.walk(f):
        if isinstance(n, ast.Attribute) and n.attr in ("int32", "int16", "int8", "uint8", "short", "half"):
            return False
        if isinstance(n, ast.Call) and isinstance(n.func, ast.Attribute) and n.func.attr in ("int", "short", "char", "byte"):
            return False
    return True


def generate():
    from . import astlib
    try:
        v, why = astlib.try_flag(wrappers_keep_int64)
    except Exception as e:  # fail closed
        v, why = False, repr(e)
    return c05.generate("C08") + "Definition torch_wrappers_keep_int64 : bool := %s.%s\n" % (
        astlib.coq_bool(bool(v)), "" if not why else "  (* %s *)" % str(why).replace("*)", "* )"))


# ---------------------------------------------------------------- worker (runs under $VERIF_REPO)
def worker_nt(job):
    from klongpy import KlongInterpreter
    from klongpy.writer import kg_write
    kw = {"backend": "torch", "device": "cpu"} if job["backend"] == "torch" else {"backend": "numpy"}
    out = []
    def one(k, stmt):
        try:
            v = k(stmt)
            try:
                text = kg_write(v, k._backend, display=False)
            except TypeError:
                text = kg_write(v, k._backend)
            return ["ok", sx(c05.canon5(v)), text]
        except Exception as e:  # noqa
            return ["exc", type(e).__name__, str(e)[:80]]
    for prog in job["programs"]:
        k = KlongInterpreter(**kw)
        r = None
        if prog and prog[0] == "@all":
            out.append(["all", [one(k, st) for st in prog[1:]]])
            continue
        try:
            for stmt in prog:
                v = k(stmt)
            try:
                text = kg_write(v, k._backend, display=False)
            except TypeError:
                text = kg_write(v, k._backend)
            r = ["ok", sx(c05.canon5(v)), text]
        except Exception as e:  # noqa
            r = ["exc", type(e).__name__, str(e)[:80]]
        out.append(r)
    return out


def _worker_main():
    job = json.load(sys.stdin)
    res = worker_nt(job)
    sys.stdout.write("RESULT " + json.dumps(res) + "\n")
    sys.stdout.flush()
    os._exit(0)


def call_worker(job, timeout=1500):
    env = dict(os.environ, PYTHONPATH=REPO + ":" + VERIF, PYTHONHASHSEED="0", PYTHONWARNINGS="ignore")
    p = subprocess.run([PY, "-W", "ignore", "-m", "harness.c08", "nt"], input=json.dumps(job).encode(),
                       stdout=subprocess.PIPE, stderr=subprocess.PIPE, env=env, timeout=timeout, cwd=VERIF)
    for line in p.stdout.decode().split("\n"):
        if line.startswith("RESULT "):
            return json.loads(line[7:])
    raise RuntimeError("worker failed: %s" % p.stderr.decode()[-2000:])


def run_both(progs, nproc=4):
    import concurrent.futures as cf
    n = max(1, min(nproc, len(progs) // 300))
    jobs = [(b, j) for b in ("numpy", "torch") for j in range(n)]
    with cf.ThreadPoolExecutor(2 * n) as ex:
        parts = list(ex.map(lambda a: call_worker({"backend": a[0], "programs": progs[a[1]::n]}), jobs))
    out = {"numpy": [None] * len(progs), "torch": [None] * len(progs)}
    for (b, j), part in zip(jobs, parts):
        for i2, r in enumerate(part):
            out[b][j + i2 * n] = r
    return out["numpy"], out["torch"]


# ---------------------------------------------------------------- programs of the numeric core
UN = ["-", "_", "|", "+/", "*/", "|/", "&/", "+\\", "*\\", "|\\", "&\\", "{x*2}'", "{x+1}'", "#"]
POST = ["@0", "@1"]
PRE2 = ["2#", "1_", "(-1)#"]
BIN = ["+", "-", "*", "<", ">", "=", "|", "&", ","]
DIVS = ["%2", "%0.5", "%4"]        # divisors are non-zero literals: :undefined is not part of the numeric core
ATOMS = ["a", "b", "2", "0.5", "3"]
# reals exactly representable in binary32, so that storing a list as float32 loses nothing
BIND = {
    "int": ["3", "0", "5"],
    "real": ["2.5", "0.5", "4.0"],
    "v1i": ["[1 2 3]", "[4 0 -2]", "[5 1]"],
    "v1r": ["[1.5 2.0 -0.5]", "[0.5 2.5 4.0]"],
    "m2i": ["[[1 2] [3 4]]", "[[1 2 3] [4 5 6]]"],
    "m2r": ["[[0.5 1.5] [2.5 3.5]]"],
}


def rand_prog(rng, depth):
    if depth == 0 or rng.random() < 0.12:
        return rng.choice(ATOMS[:2]) if rng.random() < 0.7 else rng.choice(ATOMS)
    r = rng.random()
    w = lambda t: t if re.fullmatch(r"[a-z0-9.]+", t) else "(" + t + ")"
    if r < 0.35:
        return rng.choice(UN) + w(rand_prog(rng, depth - 1))
    if r < 0.42:
        return w(rand_prog(rng, depth - 1)) + rng.choice(POST + DIVS)
    if r < 0.5:
        return rng.choice(PRE2) + w(rand_prog(rng, depth - 1))
    return w(rand_prog(rng, depth - 1)) + rng.choice(BIN) + w(rand_prog(rng, depth - 1))


def all_depth1():
    out = [u + a for u in UN for a in ATOMS[:2]] + [a + p for p in POST + DIVS for a in ATOMS[:2]] + [p + a for p in PRE2 for a in ATOMS[:2]]
    out += [x + o + y for o in BIN for x in ATOMS for y in ATOMS if x in "ab" or y in "ab"]
    return out


# operands that are unequal yet close (1e-5 relative and nearer), all exactly representable in int64 / binary32
CLOSE = [("[100000 7]", "[100001 7]"), ("100000", "100001"), ("[16777216 3]", "[16777217 3]"),
         ("[4096.0 2.5]", "[4096.03125 2.5]"), ("[1000000 1000001 5]", "[1000001 1000001 5]"), ("[1 2 3]", "[1 2 4]")]
# comparisons whose operands are computed sub-expressions or literal lists (never handled by the expression compiler)
CMP_FORMS = ["(|a)=|b", "(2#a)=2#b", "(1_a)=1_b", "(a,a)=b,b", "(|a)<|b", "(|a)>|b", "(2#a)<2#b", "a=b", "a<b", "a>b",
             "({x}'a)={x}'b", "(+\\a)=+\\b", "(a@0)=b@0", "+/(|a)=|b", "(|a)=|a", "(-a)=-b", "(a+0)=b"]


def close_programs():
    progs = []
    for a, b in CLOSE:
        for e in CMP_FORMS:
            progs.append(["a::" + a, "b::" + b, e])
            progs.append(["a::" + b, "b::" + a, e])
        progs.append(["a::" + a, "a=" + b])
        progs.append(["a::" + a, "(|a)=|" + b])
    return progs


# ---------------------------------------------------------------- T8.single: + * and their reductions on non-negative data
U32, U64 = 2.0 ** -24, 2.0 ** -53
S_SCALARS = ["0.1", "3", "0.7", "2.5", "1.3"]
S_VECTORS = ["[0.1 0.7 1.3]", "[1 2 3]", "[0.3 0.6 0.9]", "[2.2 0.05 7.7]"]
S_LITS = ["2", "0.5", "3", "0.3"]


def s_tree(rng, depth):
    if depth == 0 or rng.random() < 0.2:
        return ("v", rng.choice("ab")) if rng.random() < 0.75 else ("l", rng.choice(S_LITS))
    r = rng.random()
    if r < 0.3:
        return (rng.choice(["+/", "*/"]), s_tree(rng, depth - 1))
    return (rng.choice("+*"), s_tree(rng, depth - 1), s_tree(rng, depth - 1))


def s_text(t):
    if t[0] in "vl":
        return t[1]
    if len(t) == 2:
        return t[0] + "(" + s_text(t[1]) + ")"
    return "(" + s_text(t[1]) + ")" + t[0] + "(" + s_text(t[2]) + ")"


def s_rk(t, shapes):
    """(shape, rk) with shape None (scalar) or n (vector); rk as in coq/C08/Single.v: leaf 1, Add 1+max, Mul 1+ka+kb,
    a reduction of n elements is the left fold of n-1 Add / Mul; None if the shapes do not fit"""
    if t[0] == "v":
        return shapes[t[1]], 1
    if t[0] == "l":
        return None, 1
    if len(t) == 2:
        r = s_rk(t[1], shapes)
        if r is None:
            return None
        sh, k = r
        if sh is None:
            return None, k
        if t[0] == "+/":
            return None, k + (sh - 1)
        return None, sh * k + (sh - 1)
    a, b = s_rk(t[1], shapes), s_rk(t[2], shapes)
    if a is None or b is None:
        return None
    (sa, ka), (sb, kb) = a, b
    if sa is not None and sb is not None and sa != sb:
        return None
    sh = sa if sa is not None else sb
    return sh, (1 + max(ka, kb) if t[0] == "+" else 1 + ka + kb)


def single_programs(rng, tier):
    out = []
    n = 400 if tier == "quick" else 6000
    while len(out) < n:
        t = s_tree(rng, rng.choice([1, 2, 3]))
        if t[0] in "vl":
            continue
        a = rng.choice(S_SCALARS + S_VECTORS + S_VECTORS)
        b = rng.choice(S_SCALARS + S_VECTORS)
        shapes = {"a": 3 if a.startswith("[") else None, "b": 3 if b.startswith("[") else None}
        r = s_rk(t, shapes)
        if r is None:
            continue
        out.append((["a::" + a, "b::" + b, s_text(t)], r[1]))
    return out


def within_single(va, vb, k):
    """torch value vb against numpy value va for a program of the T8.single domain with rk = k: by
    C08_single_precision_bound both lie within [(1-u)^k, (1+u)^k] of the exact value (u32 resp. u64)"""
    lo = ((1 - U32) / (1 + U64)) ** k * (1 - 1e-15)
    hi = ((1 + U32) / (1 - U64)) ** k * (1 + 1e-15)
    if isinstance(va, list) and isinstance(vb, list):
        if va and vb and va[0] == "l" and vb[0] == "l":
            return len(va) == len(vb) and all(within_single(x, y, k) for x, y in zip(va[1:], vb[1:]))
        if va and vb and va[0] == "i" and vb[0] == "i":
            return va[1] == vb[1]
        if va and vb and va[0] == "r" and vb[0] == "r":
            x, y = _f(va[1]), _f(vb[1])
            return x * lo <= y <= x * hi
    return False


def check_single(chk, items, rn, rt):
    bad = None
    for (prog, k), a, b in zip(items, rn, rt):
        chk.count("evaluations")
        chk.count("single_programs")
        if a[0] != "ok" or b[0] != "ok":
            chk.count("single_not_both_return")
            continue
        if within_single(parse_sx(a[1]), parse_sx(b[1]), k):
            chk.count("single_within_bound")
            chk.counters["single_max_rk"] = max(chk.counters.get("single_max_rk", 0), k)
        elif bad is None:
            bad = {"kind": "outside the proved single-precision interval (rk=%d)" % k, "program": prog, "numpy": a, "torch": b}
    return bad


def remainder_programs():
    """Remainder (a!b) and Integer-Divide (a:%b) with operands of either sign, scalars, vectors, reals"""
    A = ["0-7", "7", "[-7 7 -8 8]", "[7 -7 10 -10]", "0-7.5", "7.5", "[-7.5 7.5 -2.5]"]
    B = ["5", "0-5", "[5 -5 3 3]", "[3 -3 -5 5]", "2.5", "0-2.5", "3", "0-3"]
    E = ["a!b", "a:%b", "{x!5}'a", "{x!-5}'a", "(a!b)+b*a:%b", "(0-7)!5", "7!-5", "(0-7):%2", "7:%-2", "a!3", "a!-3", "+/a!b", "(-a)!b"]
    out = []
    for a in A:
        for b in B:
            if a.startswith("[") and b.startswith("[") and a.count(" ") != b.count(" "):
                continue
            if ("." in a or "." in b):
                es = ["a!b", "(-a)!b", "a!3"]
            else:
                es = E
            for e in es:
                out.append(["a::" + a, "b::" + b, e])
    return out


def reuse_programs():
    """the operand of a scan / reduce / each / structural verb used AGAIN: in the same expression, read after the
    statement, or the same literal text evaluated twice in one interpreter (parse cache) — every statement's result is
    compared, so an operand overwritten in place shows up"""
    out = []
    binds = [("[5 1 2]", "[1 2 3]"), ("[[5 6] [1 2] [3 1]]", "2"), ("[5.5 1.0 2.0]", "[0.5 1.5 2.5]")]
    verbs = [o + a for a in ("/", "\\") for o in "+-*%|&"] + ["|", "-", "_", "{x*2}'", "{-x}'", "<", ">", "2#", "1_", "#"]
    for a, b in binds:
        pre = ["@all", "a::" + a, "b::" + b]
        for v in verbs:
            out.append(pre + ["(" + v + "a)+a", "a"])
            out.append(pre + ["a-(" + v + "a)", "a"])
            out.append(pre + [v + "a", "a", v + "a", "a+0"])
            out.append(pre + ["f::{" + v + "x}", "f(a)", "a", "f(a)"])
            out.append(pre + ["a," + v + "a", "a"])
        for e in ["a+b", "a*b", "a|b", "a-b", "a@0", "a,b", "a=b", "a<b"]:
            out.append(pre + [e, "a", "b", e])
    for lit in ["[5 1 2]", "[[5 6] [1 2] [3 1]]", "[5.5 1.0 2.0]"]:
        for v in verbs:
            out.append(["@all", v + lit, v + lit, v + lit])
    return out


BIG = ["2147483647", "2147483648", "3000000000", "1099511627776", "4294967296"]


def bigint_programs():
    """large integers combined with small-integer-valued intermediates computed on the INTERPRETER path (a literal
    or non-compilable operand): truth values, sizes, grades, indexes.  Integer results are compared exactly:
    both backends hold them as int64, nothing may wrap below 2^63"""
    out = []
    forms = ["B+[1 2 3]<2", "B*[1 2 3]<2", "([1 2 3]>1)|B", "B-[1 2 3]>2", "B+(|a)<2", "B*(|a)>1", "((|a)<2)+B", "((|a)>1)*B",
             "B&B+(|a)>1", "B+#a", "B*#a", "B+<a", "B*>a", "B+(|a)=2", "B*(|a)=2", "B+a?2", "B+(|a)<|b", "B*(a,a)>2",
             "+/B*(|a)<3", "B+{x<2}'a", "B*{x>1}'a", "(B+(|a)<2)-B", "B|(|a)<2", "(0-B)+(|a)>1", "(0-B)*(|a)>1", "B+_a%2", "B*_0.5+a%2"]
    for big in BIG:
        for f in forms:
            out.append(["a::[1 2 3]", "b::[3 1 2]", f.replace("B", big)])
    return out


def ragged_programs():
    """results that are RAGGED lists of real vectors computed at run time (Each returning vectors of unequal length, a
    0-d tensor joined with a vector inside a list, lists of 0-d tensors): a NumPy object array of torch tensors under
    torch.  Reals are binary32-exact, so the kg_write texts must be the same characters"""
    out = []
    es = ["{x#[1.5 2.5 3.5]}'[1 2]", "{x*1.5}'[[1] [2 3]]", "{x,1.5}'[[1] [2 3]]", "{(-x)#[0.5 1.5 2.5]}'[3 1 2]",
          "{x_[1.5 2.5 3.5]}'[0 1 2]", "{|x#[1.5 2.5 3.5]}'[2 3]", "{x#a}'b", "{x_a}'[0 1 2]", "{(x#a),0.5}'b",
          "{(+/x#a),x#a}'b", "{+/x#a}'b", "(+/a),(|/a)", "[;+/a;|/a]", "[;+/a;a]", "{x#a}'[1 2 3]", "{(x#a)%2}'b", "{-x#a}'b",
          "{_x#a}'b", "{(x#a)*x#a}'b", "{|/x#a}'b", "{+\\x#a}'b", "{(x#a)<2}'b", "{x#a}'|b", "({x#a}'b)@1", "#'{x#a}'b",
          "{(x#a),,x#a}'b", "{x#1.5}'b", "(1#a),,(2#a)", "{x#[1 2 3]}'[1 2]"]
    for e in es:
        out.append(["a::[1.5 2.5 3.5]", "b::[1 2]", e])
        out.append(["a::[0.5 1.5 2.5 4.0]", "b::[2 1 3]", e])
    return out


def programs(rng, tier):
    progs = close_programs() + remainder_programs() + bigint_programs() + ragged_programs()
    kinds = list(BIND)
    reps = 6 if tier == "quick" else 40
    flat = [k for k in kinds if not k.startswith("m2")]
    for e in all_depth1():
        for _ in range(reps):
            # joining a matrix with a scalar or vector gives a ragged (object) list: not a numeric list
            ks = flat if "," in e else kinds
            a = rng.choice(BIND[rng.choice(ks)])
            b = rng.choice(BIND[rng.choice(ks)])
            progs.append(["a::" + a, "b::" + b, e])
    n = 2500 if tier == "quick" else 45000
    for _ in range(n):
        e = rand_prog(rng, rng.choice([2, 3]))
        if "a" not in e and "b" not in e:
            continue
        ks = flat if "," in e else kinds
        a = rng.choice(BIND[rng.choice(ks)])
        b = rng.choice(BIND[rng.choice(ks)])
        progs.append(["a::" + a, "b::" + b, e])
    return progs


# ---------------------------------------------------------------- comparison
TOL = 2.0 ** -20


def _f(bits):
    return struct.unpack(">d", struct.pack(">Q", bits))[0]


def compare_vals(a, b):
    """-> None if same shape, same integer/real kind and elements equal up to single-precision rounding; else reason"""
    if isinstance(a, list) and isinstance(b, list):
        if a and b and a[0] == "l" and b[0] == "l":
            if len(a) != len(b):
                return "shape"
            for x, y in zip(a[1:], b[1:]):
                r = compare_vals(x, y)
                if r:
                    return r
            return None
        if a and b and a[0] == "i" and b[0] == "i":
            return None if a[1] == b[1] else "integer element"
        if a and b and a[0] == "r" and b[0] == "r":
            x, y = _f(a[1]), _f(b[1])
            if x != x and y != y:
                return None
            if math.isinf(x) or math.isinf(y):
                return None if x == y else "real element"
            return None if abs(x - y) <= TOL * max(1.0, abs(x), abs(y)) else "real element"
        if a and b and a[0] in "ir" and b[0] in "ir":
            return "integer/real kind"
        if a and b and a[0] != b[0]:
            return "shape"
    return None if a == b else "value"


_num = re.compile(r"-?\d+\.\d+(?:e[-+]?\d+)?|-?\d+|[^\s\d-]+|-")


def compare_text(t1, t2):
    """texts read the same: same tokens, numbers equal up to single-precision rounding"""
    if t1 == t2:
        return "same"
    a, b = _num.findall(t1), _num.findall(t2)
    if len(a) != len(b):
        return "different"
    for x, y in zip(a, b):
        if x == y:
            continue
        try:
            fx, fy = float(x), float(y)
        except ValueError:
            return "different"
        if ("." in x) != ("." in y):
            return "different"
        if abs(fx - fy) > TOL * max(1.0, abs(fx), abs(fy)):
            return "different"
    return "digits"      # same reading up to rounding, but not the same characters


def check_accept(chk):
    """(a) every operator of the regenerated op sets, each IR form, both backends' real _ir_to_source vs the model;
    and the property oracle of T8.accept on the implementation"""
    ar, cm, rs = None, None, None
    import ast as _ast
    from . import astlib
    m = astlib.module("klongpy/compiler.py")
    get = lambda n: sorted(_ast.literal_eval(_ast.unparse(astlib.module_assign(m, n))))
    ar, cm, rs = get("_ARITH_OPS"), get("_CMP_OPS"), get("_REDUCE_SCAN_OPS")
    texts = ["a%sb" % o for o in ar + cm] + ["-a"] + ["%s/a" % o for o in rs] + ["%s\\a" % o for o in rs]
    texts += ["|/((-a)%(+\\b))", "(a<b)*(&\\(a^2))", "+/(a*b)"]
    cases = [{"text": t, "env0": ["a::[1 2 3]", "b::[4 5 6]"], "env1": ["a::[1 2 3]", "b::[4 5 6]"], "names": ["a", "b"]} for t in texts]
    recs = c05.call_worker("corr", {"cases": cases, "torch": True})
    outs = chk.run_model([sx(["case", r["expr"], r["env0"], r["env1"]]) for r in recs])
    bad_prop = bad_corr = None
    for case, rec, out in zip(cases, recs, outs):
        chk.count("evaluations")
        chk.count("accept_cases")
        mm = {x[0]: x[1] for x in out}
        gap = re.match(r"^[|&]\\", case["text"]) or "&\\" in case["text"] or "|\\" in case["text"]
        # property oracle: torch accepts; numpy accepts unless the expression scans with | or &
        if rec.get("torch_src") is None:
            bad_prop = bad_prop or {"kind": "torch backend has no source for a compilable operation", "expression": case["text"]}
        if rec["np"][0] == "none" and not gap:
            bad_prop = bad_prop or {"kind": "numpy backend rejects a compilable operation", "expression": case["text"]}
        msrc = None if mm["torch"][0] == "none" else sx(mm["torch"][4][1:])
        isrc = None if rec.get("torch_src") is None else sx(rec["torch_src"])
        if sx(mm["np"]) != sx(rec["np"]) or msrc != isrc:
            bad_corr = bad_corr or {"kind": "ir_to_source", "expression": case["text"], "model_np": sx(mm["np"])[:300], "impl_np": sx(rec["np"])[:300],
                                    "model_torch": msrc, "impl_torch": isrc}
        else:
            chk.count("accept_sources_equal")
    return bad_prop, bad_corr


def check_both(chk, rng, tier):
    """one pair of worker batches for the general differential and the T8.single family"""
    progs = programs(rng, tier)
    items = single_programs(rng, tier)
    reuse = fixed_programs() + reuse_programs()
    rn, rt = run_both(progs + [p for p, _ in items] + reuse)
    n, m = len(progs), len(progs) + len(items)
    bad = check_differential(chk, progs, rn[:n], rt[:n])
    if bad is None:
        bad = check_single(chk, items, rn[n:m], rt[n:m])
    nf = len(FIXED_CORPUS)
    badf = check_reuse(chk, reuse[:nf], rn[m:m + nf], rt[m:m + nf])
    if badf is not None:
        fid = FIXED_CORPUS[[p[1:] for p in reuse[:nf]].index(badf["program"])][0]
        badf["kind"] = "regression of repaired finding %s: %s" % (fid, badf["kind"])
        return badf
    if bad is None:
        bad = check_reuse(chk, reuse[nf:], rn[m + nf:], rt[m + nf:])
    return bad


# one witness per REPAIRED finding, replayed at every run (every statement compared)
FIXED_CORPUS = [
    ("C08-torch-reduce-axis", ["a::[[1 2] [3 4]]", "+/a", "*/a", "f::{+/x}", "f(a)"]),
    ("C08-torch-scan-0d", ["a::[1 2 3]", "*\\(+/a)", "&\\(|/a)", "#(&\\(|/a))"]),
    ("C08-torch-subtract-divide-reduce-axis", ["a::[[5 6] [1 2] [3 1]]", "-/a", "(-/a)+a", "b::[[8.0 6.0] [2.0 3.0]]", "%/b"]),
    ("C05-torch-equal-operand", ["a::4.0", "(a=2)>0", "(a=4)|0"]),
]


def fixed_programs():
    return [["@all"] + st for _, st in FIXED_CORPUS]


def check_reuse(chk, progs, rn, rt):
    bad = None
    for prog, a, b in zip(progs, rn, rt):
        chk.count("reuse_programs")
        stmts = prog[1:]
        stmts = [s for s in stmts]
        for st, x, y in zip(stmts, a[1], b[1]):
            chk.count("evaluations")
            if x[0] != "ok" or y[0] != "ok":
                chk.count("reuse_not_both_return")
                if x[0] != y[0]:
                    break          # the interpreters' states may differ from here on
                continue
            why = compare_vals(parse_sx(x[1]), parse_sx(y[1]))
            if why is None and compare_text(x[2], y[2]) == "different":
                why = "kg_write text"
            if why is not None:
                if bad is None:
                    bad = {"kind": why + " (operand reused)", "program": stmts, "at": st, "numpy": a[1], "torch": b[1]}
                break
            chk.count("reuse_steps_agree")
    return bad


def check_differential(chk, progs, rn, rt):
    bad = None
    seen = set()
    for prog, a, b in zip(progs, rn, rt):
        chk.count("evaluations")
        chk.count("programs")
        if a[0] == "exc" and b[0] == "exc":
            chk.count("both_error")
            continue
        if a[0] == "exc" or b[0] == "exc":
            # the property speaks about programs for which both return
            chk.count("only_numpy_errors" if a[0] == "exc" else "only_torch_errors")
            chk.sample({"program": prog, "numpy": a[:2], "torch": b[:2]}, limit=6)
            continue
        chk.count("both_return")
        if prog[-1] not in seen:
            seen.add(prog[-1])
            chk.count("distinct_nontrivial")
        va, vb = parse_sx(a[1]), parse_sx(b[1])
        why = compare_vals(va, vb)
        if why is None:
            t = compare_text(a[2], b[2])
            if t == "same":
                chk.count("agree_value_and_text")
                continue
            if t == "digits":
                chk.count("text_differs_in_digits")
                chk.finding("C08-float32-display", "kg_write text differs in digits", {"program": prog, "numpy": a, "torch": b})
                continue
            why = "kg_write text"
        if bad is None:
            bad = {"kind": why, "program": prog, "numpy": a, "torch": b}
        chk.count("disagree")
    return bad


def replay_findings(chk):
    gone = []
    rn, rt = run_both([FINDINGS["C08-float32-display"]], nproc=1)
    a, b = rn[0], rt[0]
    chk.count("evaluations", 2)
    if a[0] == "ok" and b[0] == "ok" and compare_vals(parse_sx(a[1]), parse_sx(b[1])) is None and compare_text(a[2], b[2]) == "digits":
        chk.finding("C08-float32-display", "witness: numpy %s, torch %s" % (a[2], b[2]), {"program": FINDINGS["C08-float32-display"]})
    else:
        gone.append({"finding": "C08-float32-display", "numpy": a, "torch": b})
    return gone


def run(tier, replay=None):
    chk = Check("C08", tier)
    rng = random.Random(chk.seed)
    try:
        import importlib.util
        has_torch = importlib.util.find_spec("torch") is not None
    except Exception:
        has_torch = False
    chk.generate(generate())
    chk.build_model()
    hits = forbidden_scan("C08")
    proof = chk.build_proofs()
    if hits:
        proof["ok"] = False
        proof["error"] = "forbidden declarations: %r" % hits
        proof["broken"] = hits[0]
    bad_prop, bad_corr = check_accept(chk)
    gone = replay_findings(chk) if has_torch else []
    bad = check_both(chk, rng, tier) if has_torch else None
    if bad_prop is not None:
        chk.violation("a program built only from compilable operations is not accepted by a backend: %s (%s)"
                      % (bad_prop["expression"], bad_prop["kind"]), bad_prop)
    if bad is not None:
        chk.violation("numpy and torch backends disagree (%s): %s" % (bad["kind"], " ; ".join(bad["program"])), bad)
    if not chk.violations and (bad_corr is not None or gone or not proof["ok"]):
        wide = check_both(chk, random.Random(chk.seed + 1), "thorough" if tier == "quick" else tier) if has_torch else None
        if wide is not None:
            chk.violation("numpy and torch backends disagree (%s): %s" % (wide["kind"], " ; ".join(wide["program"])), wide)
        elif bad_corr is not None:
            chk.violation("correspondence between klongpy's _ir_to_source and the Coq model broke; no failing input of the property found in %d evaluations"
                          % chk.counters.get("evaluations", 0), {"broken": "correspondence C08/Model.v", "detail": bad_corr}, no_input=True)
        elif gone:
            chk.violation("a known finding no longer reproduces (%s); no other failing input found" % gone[0]["finding"],
                          {"broken": "known-finding witness", "detail": gone}, no_input=True)
        else:
            chk.violation("proof obligation no longer checks: %s" % proof["broken"],
                          {"broken_obligation": proof["broken"], "coq_error": proof["error"], "generated": chk.generated_text}, no_input=True)
    return chk.finish(
        rule="(a) every operator of _ARITH_OPS/_CMP_OPS/_REDUCE_SCAN_OPS in every IR form + nested examples: real _ir_to_source of both backends vs model; "
             "(b) every depth-1 program of the numeric core grammar x seeded bindings + seeded depth 2-3 programs over {int, real, int/real vectors, "
             "int/real matrices} (reals exactly representable in binary32): numpy vs torch(cpu), canonical result (shape, integer/real kind, elements "
             "within 2^-20 relative) and kg_write text. distinct = distinct program texts for which both backends return"
             + ("" if has_torch else " — torch NOT importable: only (a) was decided"),
        trusted_base=TRUSTED, assumptions=ASSUME, level="proof")


if __name__ == "__main__":
    _worker_main()
