"""Shared machinery of the /verif checks (see DESIGN.md 1.4).

One check run =
  1. regenerate coq/<id>/Generated.v from /repo (fail-closed ast translator of the property)
  2. build the model + its extracted OCaml runner          (must succeed: the model has no proofs)
  3. build Proofs.v / Properties.v, collect Print Assumptions  (may fail: a broken obligation)
  4. property-specific correspondence between /repo and the extracted model
  5. decide, print KNOWN-FINDING / VIOLATION lines, write evidence/<id>.json
"""
import fcntl
import hashlib
import json
import os
import re
import subprocess
import sys
import time

VERIF = os.path.dirname(os.path.dirname(os.path.abspath(__file__)))
REPO = os.environ.get("VERIF_REPO", "/repo")
COQ = os.path.join(VERIF, "coq")
PY = "/venv/bin/python"

ALLOWED_AXIOMS_DEFAULT = ()


# ----------------------------------------------------------------------------
# S-expressions (the interchange format; see coq/Base/Sx.v and ocaml/driver.ml)
# ----------------------------------------------------------------------------
def sx(o):
    """Python nested tuples/lists/ints/strs -> S-expression text."""
    if isinstance(o, bool):
        return "1" if o else "0"
    if isinstance(o, int):
        return str(o)
    if isinstance(o, str):
        return o
    return "(" + " ".join(sx(x) for x in o) + ")"


_tok = re.compile(r"\(|\)|[^\s()]+")


def parse_sx(s):
    """S-expression text -> nested lists of int / str."""
    stack = [[]]
    for t in _tok.findall(s):
        if t == "(":
            stack.append([])
        elif t == ")":
            x = stack.pop()
            stack[-1].append(x)
        else:
            if re.fullmatch(r"-?\d+", t):
                stack[-1].append(int(t))
            else:
                stack[-1].append(t)
    if len(stack) != 1 or len(stack[0]) != 1:
        raise ValueError("bad sexp: %r" % s[:200])
    return stack[0][0]


def sh(cmd, cwd=None, timeout=900, env=None):
    p = subprocess.run(cmd, cwd=cwd, shell=isinstance(cmd, str), stdout=subprocess.PIPE,
                       stderr=subprocess.STDOUT, timeout=timeout, env=env)
    return p.returncode, p.stdout.decode("utf-8", "replace")


class DirLock:
    def __init__(self, path):
        self.path = path

    def __enter__(self):
        self.f = open(os.path.join(self.path, ".lock"), "w")
        fcntl.flock(self.f, fcntl.LOCK_EX)

    def __exit__(self, *a):
        fcntl.flock(self.f, fcntl.LOCK_UN)
        self.f.close()


def load_known_findings():
    """known_findings.json (+ findings_parts/*.json while a property is under construction); never written at run time"""
    out, seen = [], set()
    p = os.path.join(VERIF, "known_findings.json")
    if os.path.exists(p):
        out = list(json.load(open(p))["findings"])
        seen = {f["id"] for f in out}
    d = os.path.join(VERIF, "findings_parts")
    if os.path.isdir(d):
        for fn in sorted(os.listdir(d)):
            if fn.endswith(".json"):
                for f in json.load(open(os.path.join(d, fn))):
                    if f["id"] not in seen:
                        seen.add(f["id"])
                        out.append(f)
    return out


class Check:
    def __init__(self, pid, tier="quick", seed=None):
        self.pid = pid
        self.tier = tier
        self.seed = int(os.environ.get("VERIF_SEED", "0") if seed is None else seed)
        self.t0 = time.time()
        self.dir = os.path.join(COQ, pid)
        self.violations = []          # (what, replay_path, no_input)
        self.known_printed = []
        self.proof = {"ok": False, "theorems": [], "assumptions": {}, "error": "not built"}
        self.model_bin = os.path.join(self.dir, "_run", "run_model")
        self.coverage = {}
        self.assumptions = []
        self.level = "proof"
        self.counters = {}
        self.samples = []
        self.known = [f for f in load_known_findings() if f["property"] == pid]
        os.makedirs(os.path.join(VERIF, "evidence"), exist_ok=True)
        os.makedirs(os.path.join(VERIF, "replays"), exist_ok=True)
        # one run per property at a time: Generated.v, the .vo files and the extracted runner of a property are shared
        # by every run (possibly against different VERIF_REPO checkouts); held until the process exits
        if os.path.isdir(self.dir) and os.environ.get("VERIF_NO_RUNLOCK") != "1":
            self._runlock = open(os.path.join(self.dir, ".runlock"), "w")
            fcntl.flock(self._runlock, fcntl.LOCK_EX)

    # -- counters -------------------------------------------------------------
    def count(self, key, n=1):
        self.counters[key] = self.counters.get(key, 0) + n

    def sample(self, obj, limit=6):
        if len(self.samples) < limit:
            self.samples.append(obj)

    # -- step 1: generated tables ----------------------------------------------
    def generate(self, text):
        """Write coq/<id>/Generated.v (only when it changed, so make stays incremental)."""
        hdr = "(* GENERATED from %s by harness/%s.py on every run; do not edit *)\n" % (REPO, self.pid.lower())
        text = hdr + text
        p = os.path.join(self.dir, "Generated.v")
        with DirLock(self.dir):
            old = open(p).read() if os.path.exists(p) else None
            if old != text:
                with open(p, "w") as f:
                    f.write(text)
        self.generated_text = text
        return text

    # -- step 2/3: build ---------------------------------------------------------
    def _coqargs(self):
        return ["-Q", os.path.join(COQ, "Base"), "KB", "-Q", self.dir, self.pid]

    def _ensure_makefile(self, d):
        if not os.path.exists(os.path.join(d, "Makefile")) or \
                os.path.getmtime(os.path.join(d, "Makefile")) < os.path.getmtime(os.path.join(d, "_CoqProject")):
            rc, out = sh(["coq_makefile", "-f", "_CoqProject", "-o", "Makefile"], cwd=d)
            if rc != 0:
                raise RuntimeError("coq_makefile failed in %s: %s" % (d, out))

    def build_base(self):
        d = os.path.join(COQ, "Base")
        with DirLock(d):
            self._ensure_makefile(d)
            rc, out = sh(["timeout", "900", "make", "-j4"], cwd=d, timeout=1000)
        if rc != 0:
            raise RuntimeError("Base build failed:\n" + out[-3000:])

    def build_model(self, target="Run.vo"):
        """Build the model and the extracted runner. Raises on failure (infrastructure error)."""
        self.build_base()
        with DirLock(self.dir):
            self._ensure_makefile(self.dir)
            rc, out = sh(["timeout", "1200", "make", "-j4", target], cwd=self.dir, timeout=1300)
            if rc != 0:
                raise RuntimeError("model build failed:\n" + out[-3000:])
            rd = os.path.join(self.dir, "_run")
            os.makedirs(rd, exist_ok=True)
            src = os.path.join(self.dir, "extracted.ml")
            stamp = os.path.join(rd, "stamp")
            drv = os.path.join(VERIF, "ocaml", "driver.ml")
            h = hashlib.sha256(open(src, "rb").read() + open(drv, "rb").read()).hexdigest()
            if not (os.path.exists(self.model_bin) and os.path.exists(stamp) and open(stamp).read() == h):
                for f in ("extracted.ml", "extracted.mli"):
                    with open(os.path.join(self.dir, f), "rb") as a, open(os.path.join(rd, f), "wb") as b:
                        b.write(a.read())
                with open(drv, "rb") as a, open(os.path.join(rd, "driver.ml"), "wb") as b:
                    b.write(a.read())
                rc, out = sh(["timeout", "600", "ocamlfind", "ocamlopt", "-O2", "-w", "-a", "extracted.mli",
                              "extracted.ml", "driver.ml", "-o", "run_model"], cwd=rd, timeout=700)
                if rc != 0:
                    raise RuntimeError("ocaml build failed:\n" + out[-3000:])
                with open(stamp, "w") as f:
                    f.write(h)

    def build_proofs(self, allowed_axioms=ALLOWED_AXIOMS_DEFAULT, extra_targets=()):
        """Build Proofs + Properties; returns dict(ok, theorems, assumptions, error, broken)."""
        res = {"ok": False, "theorems": [], "assumptions": {}, "error": None, "broken": None}
        props = os.path.join(self.dir, "Properties.v")
        src = open(props).read()
        res["theorems"] = re.findall(r"^\s*Theorem\s+(\w+)", src, re.M)
        with DirLock(self.dir):
            self._ensure_makefile(self.dir)
            deps = [t for t in self._make_deps("Properties.vo") if t != "Properties.vo"]
            rc, out = sh(["timeout", "2400", "make", "-j8"] + deps + list(extra_targets), cwd=self.dir, timeout=2500)
            if rc != 0:
                res["error"] = out[-4000:]
                res["broken"] = self._locate_error(out)
                self.proof = res
                return res
            rc, out = sh(["timeout", "1200", "coqc"] + self._coqargs() + ["Properties.v"], cwd=self.dir, timeout=1300)
        if rc != 0:
            res["error"] = out[-4000:]
            res["broken"] = self._locate_error(out, default_file="Properties.v")
            self.proof = res
            return res
        # Print Assumptions output, in order of the Print Assumptions commands
        printed = re.findall(r"^\s*Print Assumptions\s+(\w+)", src, re.M)
        blocks = re.split(r"(?m)^(?=Closed under the global context|Axioms:)", out)
        blocks = [b for b in blocks if b.startswith("Closed under") or b.startswith("Axioms:")]
        bad = []
        for name, b in zip(printed, blocks):
            if b.startswith("Closed under"):
                res["assumptions"][name] = []
            else:
                ax = re.findall(r"^(\S+)\s*:", b, re.M)
                ax = [a for a in ax if a != "Axioms"]
                res["assumptions"][name] = ax
                for a in ax:
                    if a not in allowed_axioms:
                        bad.append((name, a))
        if len(blocks) != len(printed):
            res["error"] = "Print Assumptions output not understood (%d blocks for %d commands)" % (len(blocks), len(printed))
            res["broken"] = "Print Assumptions"
        elif bad:
            res["error"] = "unexpected axioms: %r" % bad
            res["broken"] = bad[0][0]
        else:
            res["ok"] = True
        missing = [t for t in res["theorems"] if t not in printed and not t.endswith("_refuted") and "_refuted_" not in t]
        res["unprinted"] = missing
        self.proof = res
        return res

    def _make_deps(self, target):
        # all .vo listed in _CoqProject except Run.vo (extraction) — Properties needs Proofs etc.
        files = [l.strip() for l in open(os.path.join(self.dir, "_CoqProject")) if l.strip().endswith(".v")]
        return [f[:-2] + ".vo" for f in files if f not in ("Properties.v",)]

    def _locate_error(self, out, default_file=None):
        m = re.search(r'File "\./?([^"]+)", line (\d+)', out)
        if not m:
            return default_file or "build"
        f, line = m.group(1), int(m.group(2))
        try:
            lines = open(os.path.join(self.dir, f)).read().split("\n")
        except OSError:
            return f
        name = None
        for l in lines[:line]:
            mm = re.match(r"\s*(Theorem|Lemma|Example|Definition|Fixpoint|Corollary)\s+(\w+)", l)
            if mm:
                name = mm.group(2)
        return "%s:%s" % (f, name or line)

    # -- model runner --------------------------------------------------------------
    def run_model(self, requests, timeout=1800):
        """requests: list of sexp strings (or python objects) -> list of parsed results."""
        lines = [r if isinstance(r, str) else sx(r) for r in requests]
        if not lines:
            return []
        env = dict(os.environ)
        p = subprocess.run(["bash", "-c", "ulimit -s unlimited 2>/dev/null; exec " + self.model_bin],
                           input=("\n".join(lines) + "\n").encode(), stdout=subprocess.PIPE,
                           stderr=subprocess.PIPE, timeout=timeout, env=env)
        outs = p.stdout.decode().split("\n")
        if outs and outs[-1] == "":
            outs.pop()
        if p.returncode != 0 or len(outs) != len(lines):
            raise RuntimeError("model runner failed rc=%s outs=%d/%d err=%s" % (p.returncode, len(outs), len(lines), p.stderr[-500:]))
        return [parse_sx(o) for o in outs]

    # -- step 5: reporting -----------------------------------------------------------
    def match_known(self, fid):
        for f in self.known:
            if f["id"] == fid and f.get("status", "known") == "known":
                return f
        return None

    def finding(self, fid, what, replay):
        """A property failure on the real code.  Listed as known -> KNOWN-FINDING line; else VIOLATION."""
        f = self.match_known(fid)
        if f is not None:
            if fid not in self.known_printed:
                self.known_printed.append(fid)
                print("KNOWN-FINDING: property=%s %s [%s]" % (self.pid, f["what"], fid), flush=True)
            return False
        self.violation(what, replay)
        return True

    def violation(self, what, replay, no_input=False):
        n = len(self.violations)
        path = os.path.join(VERIF, "replays", "%s-%s-%d.json" % (self.pid, self.tier, n))
        body = {"property": self.pid, "what": what, "no_failing_input_found": bool(no_input), "replay": replay,
                "how_to_replay": "./check %s --replay %s" % (self.pid, path)}
        with open(path, "w") as f:
            json.dump(body, f, indent=1, default=str)
        self.violations.append((what, path, no_input))
        print("%s: %s" % (self.pid, what), flush=True)
        print("VIOLATION property=%s replay=%s%s" % (self.pid, path, " no-failing-input-found" if no_input else ""), flush=True)

    def coqchk(self, allowed_axioms=()):
        """independent re-check of Properties.vo and everything it depends on (thorough tier)"""
        with DirLock(self.dir):
            rc, out = sh(["timeout", "3000", "coqchk", "-silent", "-o"] + self._coqargs() + [self.pid + ".Properties"],
                         cwd=self.dir, timeout=3100)
        summ = out[out.find("CONTEXT SUMMARY"):] if "CONTEXT SUMMARY" in out else out[-1500:]
        m = re.search(r"\* Axioms:(.*?)\n\s*\n\* Constants/Inductives relying on type-in-type:(.*?)\n\s*\n\* Constants/Inductives relying on unsafe \(co\)fixpoints:(.*?)\n\s*\n\* Inductives whose positivity is assumed:(.*?)\n", summ + "\n", re.S)
        res = {"rc": rc, "summary": summ[-2500:]}
        if rc == 0 and m:
            axioms = [a.strip() for a in m.group(1).replace("<none>", "").split("\n") if a.strip()]
            res["axioms"] = axioms
            unsafe = [g.strip() for g in (m.group(2), m.group(3), m.group(4)) if g.strip() != "<none>"]
            res["ok"] = not unsafe and all(any(a.endswith(x) or x in a for x in allowed_axioms) for a in axioms)
        else:
            res["ok"] = False
        return res

    def finish(self, rule, trusted_base, assumptions, extra=None, level="proof", allowed_axioms=()):
        if self.tier == "thorough" and self.proof.get("ok") and os.environ.get("VERIF_NO_COQCHK") != "1":
            ck = self.coqchk(allowed_axioms=tuple(allowed_axioms) + tuple(a for l in self.proof.get("assumptions", {}).values() for a in l))
            extra = dict(extra or {}, coqchk=ck)
            if not ck["ok"]:
                self.violation("coqchk does not accept Properties.vo (or reports unexpected axioms / unsafe constructs)",
                               {"broken_obligation": "coqchk %s.Properties" % self.pid, "coqchk": ck}, no_input=True)
        theorems = self.proof.get("theorems", [])
        obligations = len(theorems)
        discharged = obligations if self.proof.get("ok") else 0
        cov = {
            "obligations": max(obligations, 1),
            "discharged": discharged,
            "checker_cmd": "coq_makefile -f coq/%s/_CoqProject && make (coqc 8.16.1, full .vo build) ; coqc Properties.v with Print Assumptions" % self.pid,
            "trusted_base": trusted_base,
            "theorems": theorems,
            "print_assumptions": self.proof.get("assumptions", {}),
            "proof_error": self.proof.get("error"),
            "evaluations": self.counters.get("evaluations", 0),
            "distinct_nontrivial": self.counters.get("distinct_nontrivial", 0),
            "rule": rule,
            "samples": self.samples,
            "counters": self.counters,
            "known_findings_reproduced": self.known_printed,
        }
        if discharged == 0:
            # schema: proof-level keys need discharged >= 1; with a broken obligation fall back to the generic counts
            del cov["obligations"], cov["discharged"]
            cov["obligations_total"] = obligations
            cov["discharged_count"] = 0
        if level == "translation_validation":
            cov["programs"] = max(self.counters.get("evaluations", 0), 1)
            cov["disagreements_checked"] = self.counters.get("evaluations", 0)
        if extra:
            cov.update(extra)
        ev = {
            "property_id": self.pid,
            "tier": self.tier,
            "seed": self.seed,
            "level": level,
            "coverage": cov,
            "assumptions": assumptions,
            "wall_s": round(time.time() - self.t0, 2),
            "violations": len(self.violations),
        }
        with open(os.path.join(VERIF, "evidence", "%s.json" % self.pid), "w") as f:
            json.dump(ev, f, indent=1, default=str)
        print("%s %s: theorems=%d discharged=%d evaluations=%d violations=%d known=%d wall=%.1fs" % (
            self.pid, self.tier, obligations, discharged, cov["evaluations"], len(self.violations),
            len(self.known_printed), ev["wall_s"]), flush=True)
        return 1 if self.violations else 0


def forbidden_scan(pid):
    """grep the development for declarations that would void the proofs. Returns list of hits."""
    hits = []
    pat = re.compile(r"\b(Admitted|admit|Axiom|Axioms|Parameter|Parameters|Conjecture|Admit Obligations|"
                     r"Unset Guard Checking|bypass_check|Unset Positivity|Unset Universe Checking|type-in-type|impredicative-set)\b")
    for d in (os.path.join(COQ, "Base"), os.path.join(COQ, pid)):
        for fn in sorted(os.listdir(d)):
            if fn.endswith(".v") or fn == "_CoqProject":
                txt = open(os.path.join(d, fn)).read()
                txt_nc = re.sub(r"\(\*.*?\*\)", "", txt, flags=re.S)
                for m in pat.finditer(txt_nc):
                    hits.append("%s/%s: %s" % (os.path.basename(d), fn, m.group(0)))
                # Variable / Hypothesis outside a section
                stack = []
                for line in txt_nc.split("\n"):
                    ms = re.match(r"\s*(Section|Module Type|Module)\s+(\w+)", line)
                    if ms and not re.search(r":=", line):
                        stack.append(ms.group(1))
                    elif re.match(r"\s*End\s+\w+", line) and stack:
                        stack.pop()
                    elif "Section" not in stack and re.match(r"\s*(Variable|Variables|Hypothesis|Hypotheses|Context)\b", line):
                        hits.append("%s/%s: %s outside section" % (os.path.basename(d), fn, line.strip()))
    return hits
