"""C16 — the file-backed key-value and table stores are persistent dictionaries; cache accounting.

Link 1 (Coq): coq/C16/Properties.v (invariant of the sequential FileCache model over all operation
              sequences, refinement of the key-value store to a dictionary incl. reopen, table merge).
Link 2 (here): the real FileCache / KeyValueStorage / TableStorage / PandasDataFrameCache driven through
              Klong (`s,"k",,v`, `s?"k"`) and directly, on fresh directories under /verif/.work, with
              klongpy.db.file_cache.time replaced by a planned clock, compared after EVERY operation with the
              extracted model: result, current_memory_usage, file_futures, LRU heap, directory tree.
"""
import ast
import json
import os
import pickle
import random
import shutil
import sys

from . import astlib
from .astlib import ShapeError
from .common import Check, sx, forbidden_scan, VERIF, REPO

TRUSTED = [
    "Coq 8.16.1 kernel (coqc); vm_compute only in Examples and _refuted witnesses",
    "Print Assumptions: all C16 theorems closed under the global context (no axioms)",
    "translator harness/c16.py:generate (Python ast): KeyValueStorage.get/set shape, default max_memory, key_to_file_path identity, "
    "PandasDataFrameCache.update concat order / stable sort / keep='first', TableStorage.get missing-key handling, Table.__init__ copies a given DataFrame, _write_file opens only the key's own file and renames/removes nothing",
    "extraction: ExtrOcamlBasic only; ocaml/driver.ml",
    "correspondence harness: lazy executor (a worker task runs when the caller blocks on future.result()) and a planned clock "
    "replace FileCache.executor and file_cache.time; a share of the sequences runs on the real ThreadPoolExecutor; file_cache.heapq is wrapped to record which item each heappop returns (an input of the model)",
]
ASSUME = [
    "pickle / DataFrame.to_pickle followed by load returns an equal object (contents are abstract in the model; sampled by link 2 through canon())",
    "the file system below the store's root behaves as a finite map path -> file | directory (os.makedirs, open, os.path.exists/getsize as modelled)",
    "one caller at a time (concurrency is C18's subject); the worker task completes before the call returns",
    "keys are relative paths of non-empty components without '.', '..' or empty components",
    "process_contents reports a non-negative size (it may exceed the serialised length and the limit: such contents are served uncached)",
    "pandas sort_index(kind='stable') is a stable sort and duplicated(keep='first') marks later equal index labels",
]

EXC_CODE = {"FileNotFoundError": 1, "IsADirectoryError": 2, "NotADirectoryError": 3, "FileExistsError": 4,
            "MemoryError": 5, "AssertionError": 6, "KeyError": 7, "OSError": 8,
            "UnpicklingError": 9, "EOFError": 9, "ValueError": 9, "AttributeError": 9, "ModuleNotFoundError": 9, "IndexError": 9, "TypeError": 9}


# ---------------------------------------------------------------- translator
def generate():
    out = ["From Coq Require Import ZArith List.", "Import ListNotations.", "Open Scope Z_scope."]

    def flag(name, fn):
        v, why = astlib.try_flag(fn)
        out.append("Definition %s : bool := %s.%s" % (name, astlib.coq_bool(bool(v)),
                                                      "" if why is None else "  (* shape not recognised: %s *)" % why))
        return bool(v)

    kvs = astlib.module("klongpy/db/sys_fn_kvs.py")

    def get_catches():
        cls = astlib.find_class(kvs, "KeyValueStorage")
        fn = astlib.find_func(cls, "get")
        calls = astlib.calls_in(fn, "get_file")
        if len(calls) != 1:
            raise ShapeError("KeyValueStorage.get: one get_file call expected")
        for n in ast.walk(fn):
            if isinstance(n, ast.Try):
                inside = any(c in list(ast.walk(ast.Module(body=n.body, type_ignores=[]))) for c in calls)
                if not inside:
                    continue
                for h in n.handlers:
                    names = []
                    if isinstance(h.type, ast.Name):
                        names = [h.type.id]
                    elif isinstance(h.type, ast.Tuple):
                        names = [e.id for e in h.type.elts if isinstance(e, ast.Name)]
                    if names == ["FileNotFoundError"]:
                        if len(h.body) == 1 and isinstance(h.body[0], ast.Return) and \
                                isinstance(h.body[0].value, ast.Name) and h.body[0].value.id == "KLONG_UNDEFINED":
                            return True
                        raise ShapeError("KeyValueStorage.get: FileNotFoundError handler does not return KLONG_UNDEFINED")
        return False
    flag("kvs_get_catches_fnf", get_catches)

    def set_fsync():
        cls = astlib.find_class(kvs, "KeyValueStorage")
        fn = astlib.find_func(cls, "set")
        calls = astlib.calls_in(fn, "update_file")
        if len(calls) != 1:
            raise ShapeError("KeyValueStorage.set: one update_file call expected")
        kw = {k.arg: k.value for k in calls[0].keywords}
        return "use_fsync" in kw and astlib.const(kw["use_fsync"]) is True
    flag("kvs_use_fsync", set_fsync)

    def key_identity():
        h = astlib.module("klongpy/db/helpers.py")
        fn = astlib.find_func(h, "key_to_file_path")
        b = astlib.body_no_doc(fn)
        return len(b) == 1 and isinstance(b[0], ast.Return) and isinstance(b[0].value, ast.Name) and \
            b[0].value.id == fn.args.args[0].arg
    flag("key_to_file_path_identity", key_identity)

    def default_max():
        m = astlib.module("klongpy/db/file_cache.py")
        cls = astlib.find_class(m, "FileCache")
        init = astlib.find_func(cls, "__init__")
        for n in ast.walk(init):
            if isinstance(n, ast.Assign) and ast.unparse(n.targets[0]) == "self.max_memory":
                v = n.value
                if isinstance(v, ast.BoolOp) and isinstance(v.op, ast.Or) and len(v.values) == 2 and \
                        ast.unparse(v.values[0]) == "max_memory":
                    return int(eval(compile(ast.Expression(v.values[1]), "<c>", "eval"), {"__builtins__": {}}))
        raise ShapeError("self.max_memory = max_memory or <const> not found")
    dm, why = astlib.try_flag(default_max)
    out.append("Definition default_max_src : Z := %s.%s" % (dm if dm is not None else "(-1)", "" if why is None else " (* %s *)" % why))

    def ufm_fn():
        m = astlib.module("klongpy/db/file_cache.py")
        return astlib.find_func(astlib.find_class(m, "FileCache"), "update_file_futures_and_memory")

    def oversize_uncached():
        fn = ufm_fn()
        asg = [n for n in ast.walk(fn) if isinstance(n, ast.Assign) and len(n.targets) == 1 and ast.unparse(n.targets[0]) == "can_cache"]
        if len(asg) != 1:
            raise ShapeError("one assignment to can_cache expected")
        v = ast.unparse(asg[0].value)
        if v == "self.recover_memory(memory_usage)":
            return False
        if v == "memory_usage <= self.max_memory and self.recover_memory(memory_usage)":
            return True
        raise ShapeError("can_cache = %s not recognised" % v)
    flag("ufm_oversize_uncached", oversize_uncached)

    def uncached_purges():
        fn = ufm_fn()
        ifs = [n for n in ast.walk(fn) if isinstance(n, ast.If) and ast.unparse(n.test) == "can_cache"]
        if len(ifs) != 1:
            raise ShapeError("one `if can_cache:` expected")
        body = [ast.unparse(x) for x in ifs[0].orelse]
        if body == ["del self.file_futures[file_name]"]:
            return False
        if body == ["del self.file_futures[file_name]",
                    "self.file_access_times = [(t, fn) for t, fn in self.file_access_times if fn != file_name]",
                    "heapq.heapify(self.file_access_times)"]:
            return True
        raise ShapeError("not-cached branch not recognised: %r" % body)
    flag("ufm_uncached_purges", uncached_purges)

    def run_task():
        m = astlib.module("klongpy/db/file_cache.py")
        cls = astlib.find_class(m, "FileCache")
        subs = []
        for fname in ("get_file", "update_file"):
            for c in astlib.calls_in(astlib.find_func(cls, fname), "submit"):
                subs.append((fname, [ast.unparse(a) for a in c.args[:2]]))
        direct = [x for x in subs if x[1][0] in ("self._load_file", "self._write_file")]
        wrapped = [x for x in subs if x[1][0] == "self._run_task"]
        if len(subs) != 2:
            raise ShapeError("expected one submit in get_file and one in update_file: %r" % subs)
        if len(direct) == 2:
            return False
        if len(wrapped) != 2 or sorted(x[1][1] for x in wrapped) != ["self._load_file", "self._write_file"]:
            raise ShapeError("submits not recognised: %r" % subs)
        rt = astlib.find_func(cls, "_run_task")
        body = astlib.body_no_doc(rt)
        if len(body) != 1 or not isinstance(body[0], ast.Try) or len(body[0].handlers) != 1:
            raise ShapeError("_run_task: one try/except expected")
        tr = body[0]
        if [ast.unparse(x) for x in tr.body] != ["return task(file_name, *args)"]:
            raise ShapeError("_run_task: try body not recognised")
        h = tr.handlers[0]
        if ast.unparse(h.type) not in ("BaseException", "Exception"):
            raise ShapeError("_run_task: handler type")
        hb = [ast.unparse(x) for x in h.body]
        want = ["with self.file_futures_lock:\n    self.file_futures.pop(file_name, None)\n    self.file_access_times = [(t, fn) for t, fn in self.file_access_times if fn != file_name]\n    heapq.heapify(self.file_access_times)", "raise"]
        if hb != want:
            raise ShapeError("_run_task: error path not recognised: %r" % hb)
        return True
    flag("task_failure_forgets", run_task)

    def write_targets_only():
        m = astlib.module("klongpy/db/file_cache.py")
        fn = astlib.find_func(astlib.find_class(m, "FileCache"), "_write_file")
        opens = astlib.calls_in(fn, "open")
        opens = [c for c in opens if isinstance(c.func, ast.Name)]
        if len(opens) != 1:
            raise ShapeError("_write_file: exactly one open(...) expected")
        target = ast.unparse(opens[0].args[0])
        if target not in ("os.path.join(self.root_path, file_name)", "write_fname"):
            raise ShapeError("_write_file opens %s, not the file of the key" % target)
        if target == "write_fname":
            asg = [n for n in ast.walk(fn) if isinstance(n, ast.Assign) and ast.unparse(n.targets[0]) == "write_fname"]
            if len(asg) != 1 or ast.unparse(asg[0].value) != "os.path.join(self.root_path, file_name)":
                raise ShapeError("write_fname is not os.path.join(self.root_path, file_name)")
        for bad in ("replace", "rename", "renames", "remove", "unlink", "rmtree", "move", "copy", "copyfile", "link", "symlink", "truncate"):
            if astlib.calls_in(fn, bad):
                raise ShapeError("_write_file calls %s" % bad)
        return True
    flag("write_file_opens_target_only", write_targets_only)

    def table_copy():
        m = astlib.module("klongpy/db/sys_fn_db.py")
        init = astlib.find_func(astlib.find_class(m, "Table"), "__init__")
        ifs = [n for n in init.body if isinstance(n, ast.If)]
        if not ifs or ast.unparse(ifs[0].test) != "isinstance(data, pd.DataFrame)":
            raise ShapeError("Table.__init__: first branch is not isinstance(data, pd.DataFrame)")
        asg = [ast.unparse(n) for n in ifs[0].body if isinstance(n, ast.Assign) and ast.unparse(n.targets[0]) == "self._df"]
        if len(asg) != 1:
            raise ShapeError("Table.__init__: one assignment to self._df expected in the DataFrame branch")
        cls = astlib.find_class(kvs, "TableStorage")
        ret = [ast.unparse(n.value) for n in ast.walk(astlib.find_func(cls, "get")) if isinstance(n, ast.Return)]
        if ret != ["KLONG_UNDEFINED if df is None else Table(df)"]:
            raise ShapeError("TableStorage.get return not recognised: %r" % ret)
        return asg[0] in ("self._df = data.copy()", "self._df = data.copy(deep=True)")
    flag("table_get_returns_copy", table_copy)

    df = astlib.module("klongpy/db/df_cache.py")

    def upd():
        cls = astlib.find_class(df, "PandasDataFrameCache")
        return astlib.find_func(cls, "update")

    def concat_old_first():
        c = astlib.calls_in(upd(), "concat")
        if len(c) != 1 or not isinstance(c[0].args[0], ast.List):
            raise ShapeError("update: one pd.concat([...]) expected")
        return [ast.unparse(e) for e in c[0].args[0].elts] == ["df", "new_df"]
    flag("df_concat_old_first", concat_old_first)

    def sort_stable():
        c = astlib.calls_in(upd(), "sort_index")
        if len(c) != 1:
            raise ShapeError("update: one sort_index call expected")
        kw = {k.arg: k.value for k in c[0].keywords}
        if "ascending" in kw or c[0].args:
            raise ShapeError("update: sort_index has unexpected arguments")
        return "kind" in kw and astlib.const(kw["kind"]) in ("stable", "mergesort")
    flag("df_sort_stable", sort_stable)

    def keep_first():
        c = astlib.calls_in(upd(), "duplicated")
        if len(c) != 1:
            raise ShapeError("update: one duplicated call expected")
        kw = {k.arg: k.value for k in c[0].keywords}
        return astlib.const(kw.get("keep", ast.Constant("first"))) == "first"
    flag("df_keep_first", keep_first)

    def table_get_undefined():
        cls = astlib.find_class(kvs, "TableStorage")
        fn = astlib.find_func(cls, "get")
        c = astlib.calls_in(fn, "get_dataframe")
        if len(c) != 1:
            raise ShapeError("TableStorage.get: one get_dataframe call expected")
        kw = {k.arg: k.value for k in c[0].keywords}
        if astlib.const(kw.get("default_empty", ast.Constant(True))) is not False:
            return False
        ret = [n for n in ast.walk(fn) if isinstance(n, ast.Return)]
        return any(isinstance(r.value, ast.IfExp) and ast.unparse(r.value.body) == "KLONG_UNDEFINED"
                   and ast.unparse(r.value.test) == "df is None" for r in ret)
    flag("table_get_missing_undefined", table_get_undefined)
    return "\n".join(out) + "\n"


# ---------------------------------------------------------------- driving the real cache deterministically
class LazyFuture:
    """Future whose task runs when somebody blocks on result() — the sequential schedule of the model."""
    def __init__(self, fn, args):
        self.fn, self.args = fn, args
        self._done = False
        self._res = None
        self._exc = None

    def _run(self):
        if not self._done:
            try:
                self._res = self.fn(*self.args)
            except BaseException as e:  # noqa
                self._exc = e
            self._done = True

    def result(self, timeout=None):
        self._run()
        if self._exc is not None:
            raise self._exc
        return self._res

    def done(self):
        return self._done

    def exception(self, timeout=None):
        self._run()
        return self._exc


class LazyExecutor:
    def submit(self, fn, *args):
        return LazyFuture(fn, args)

    def shutdown(self, *a, **k):
        pass


class PlannedClock:
    """replacement of the `time` module inside klongpy.db.file_cache: time_ns() returns the planned readings"""
    def __init__(self):
        self.queue = []
        self.used = []

    def plan(self, ts):
        self.queue = list(ts)
        self.used = []

    def time_ns(self):
        t = self.queue.pop(0) if len(self.queue) > 1 else self.queue[0]
        self.used.append(t)
        return t

    def time(self):
        import time as _t
        return _t.time()


class HeapqProxy:
    """replacement of `heapq` inside klongpy.db.file_cache: records which item every heappop returns.
    (The code filters the list and pushes without heapify, so the list is not always a heap and heappop does
    not always return the minimum; the popped names are an input of the model, see Model.v pop_choice.)"""
    def __init__(self):
        import heapq
        self._h = heapq
        self.popped = []

    def heappush(self, h, x):
        return self._h.heappush(h, x)

    def heapify(self, h):
        return self._h.heapify(h)

    def heappop(self, h):
        x = self._h.heappop(h)
        self.popped.append(x[1])
        return x


_COMP = {}
_COMP_BACK = {}


def comp_id(c):
    """path component -> integer (injective; the model's names are lists of component ids)"""
    if c not in _COMP:
        _COMP[c] = len(_COMP) + 1
        _COMP_BACK[_COMP[c]] = c
    return _COMP[c]


def key_to_name(k):
    return [comp_id(c) for c in k.split("/")]


def name_to_key(n):
    return "/".join(_COMP_BACK.get(c, "?%d" % c) for c in n)


class Interner:
    def __init__(self):
        self.ids = {}
        self.back = {}

    def id(self, b):
        b = bytes(b)
        if b not in self.ids:
            self.ids[b] = len(self.ids) + 1
            self.back[self.ids[b]] = b
        return self.ids[b]


def exc_code(e):
    return EXC_CODE.get(type(e).__name__, 99)


def fut_status(fut, intern, content_key):
    if not fut.done():
        return "pending"
    try:
        r = fut.result()
    except BaseException as e:  # noqa
        return ["err", exc_code(e)]
    return ["ok", content_key(r)]


def snapshot(fc, root, intern, content_key, file_key):
    ents = []
    for n, (w, b, fut) in fc.file_futures.items():
        ents.append([key_to_name(n), 1 if w else 0, int(b), fut_status(fut, intern, content_key)])
    ents.sort(key=lambda e: e[0])
    heap = sorted([[int(t), key_to_name(n)] for t, n in fc.file_access_times])
    disk = []
    for dp, dns, fns in os.walk(root):
        rel = os.path.relpath(dp, root)
        pre = [] if rel == "." else rel.split(os.sep)
        for d in dns:
            disk.append([[comp_id(c) for c in pre + [d]], "d", 0])
        for f in fns:
            with open(os.path.join(dp, f), "rb") as fh:
                disk.append([[comp_id(c) for c in pre + [f]], "f", file_key(fh.read())])
    disk.sort(key=lambda e: e[0])
    return [int(fc.current_memory_usage), ents, heap, disk, int(fc.max_memory)]


def model_state(ms):
    """parsed model state -> same normal form as snapshot()"""
    mem, ents, heap, disk, mx = ms
    e2 = sorted([[list(e[0]), e[1], e[2], e[3] if isinstance(e[3], str) else list(e[3])] for e in ents[1:]], key=lambda e: e[0])
    h2 = sorted([[h[0], list(h[1])] for h in heap[1:]])
    d2 = sorted([[list(d[0]), d[1], d[2]] for d in disk[1:]], key=lambda e: e[0])
    return [mem, e2, h2, d2, mx]


def accounting_ok(fc):
    """current_memory_usage = sum of the sizes of the entries whose contents the cache really holds; within [0, max]"""
    tot = 0
    for (w, b, fut) in fc.file_futures.values():
        if not w and fut.done() and fut.exception() is None:
            tot += int(b)
    return int(fc.current_memory_usage) == tot and 0 <= fc.current_memory_usage <= fc.max_memory


class ReadFault:
    """one-shot read fault for one path, installed as `open` of klongpy.db.file_cache"""
    def __init__(self, fcm):
        self.fcm = fcm
        self.path = None
        self.hit = False

    def arm(self, path):
        import builtins
        self.path, self.hit = os.path.abspath(path), False
        real = builtins.open

        def hooked(p, mode="r", *a, **k):
            if self.path is not None and "r" in mode and os.path.abspath(p) == self.path:
                self.path, self.hit = None, True
                raise OSError(5, "Input/output error (injected)")
            return real(p, mode, *a, **k)
        self.fcm.open = hooked

    def disarm(self):
        self.path = None
        self.fcm.__dict__.pop("open", None)


# ---------------------------------------------------------------- value pool
def value_pool():
    import numpy as np
    from klongpy import KlongInterpreter
    from klongpy.core import KGSym, KGChar, KLONG_UNDEFINED
    k = KlongInterpreter()
    vals = [
        ("int", 7), ("negint", -123456789), ("real", 2.5), ("char", KGChar("q")), ("str", "hello"), ("empty-str", ""),
        ("sym", KGSym("foo")), ("ints", np.array([1, 2, 3])), ("reals", np.array([1.5, 2.0])), ("empty", k("[]")),
        ("nested", k('[1 [2 "x"] :s 0cq [[]]]')), ("strs", k('["a" "bc"]')), ("dict", k(':{[1 2] ["k" [3 4]]}')),
        ("fn", k("{x+1}")), ("long-str", "z" * 700), ("long-ints", np.arange(300)), ("big", "y" * 5000),
        ("matrix", k("[[1 2] [3 4]]")),
    ]
    return k, vals


def prefix_conflict(keys):
    ks = sorted(set(keys))
    for a in ks:
        for b in ks:
            if a != b and b.startswith(a + "/"):
                return True
    return False


FREE_KEYS = ["a", "b", "c", "d", "e/f", "e/g", "h/i/j"]
CONFLICT_KEYS = ["a/x", "e", "h/i", "e/f/k"]
# distinct keys that differ only by a common scratch suffix (a store must not use names derived from a key)
# near-collision families: keys a file-name "sanitiser" (reserved characters, case folding, unicode normalisation,
# percent-decoding, trimming) would map to one file; the key -> file map must be injective
NEAR_COLLISIONS = [
    ["t/09:30", "t/09_30", "t/09-30"], ["q?", "q*", "q_"], ["a b", "a_b", "a%20b", "a+b"], ["x#1", "x_1", "x%231"],
    ["Ab", "ab", "AB"], ["w.", "w", "w.."], ["u\\v", "u_v"], ["\u00e9", "e\u0301", "e"], ["n<1>", "n_1_", "n(1)"],
    ["p|q", "p_q"], ['d"q', "d_q", "d'q"], ["g/K", "g/k"], ["m ", "m"], ["z:1", "z_1", "z;1"],
]
SCRATCH_SUFFIXES = [".tmp", ".bak", "~", ".new", ".lock", ".part", ".swp", ".old", ".tmp~", "-journal"]


def gen_sequence(rng, nops, lens, conflict):
    """one operation sequence: list of dicts; lens = pickled length of every pool value"""
    nvals = rng.randint(2, 5)
    pool = rng.sample(range(len(lens)), nvals)
    keys = rng.sample(FREE_KEYS, rng.randint(2, 5))
    if conflict:
        keys += rng.sample(CONFLICT_KEYS, rng.randint(1, 2))
    if rng.random() < 0.35:
        fam = rng.choice(NEAR_COLLISIONS)
        keys = rng.sample(fam, rng.randint(2, len(fam))) + keys
    if rng.random() < 0.4:
        # siblings "<key><suffix>" of one or two of the keys (flat and nested), put FIRST so that they tend to be set first
        sib = [k + rng.choice(SCRATCH_SUFFIXES if rng.random() < 0.5 else SCRATCH_SUFFIXES[:1]) for k in rng.sample(keys[:5], min(2, len(keys)))]
        keys = sib + keys
    pl = sorted(lens[i] for i in pool)
    kind = rng.choice(["one", "one+", "two", "some", "all", "default"])
    mx = {"one": pl[-1], "one+": pl[-1] + pl[0] - 1 if pl[0] > 1 else pl[-1], "two": pl[-1] + pl[0],
          "some": sum(pl) - 1, "all": 10 ** 7, "default": 0}[kind]
    ops = []
    t = 1000
    used = set()
    faults = rng.random() < 0.3
    for i in range(nops):
        r = rng.random()
        # clock: mostly increasing, sometimes a tie, sometimes going back
        c = rng.random()
        if c < 0.7:
            t += rng.randint(1, 5)
        elif c < 0.9:
            pass
        else:
            t = max(1, t - rng.randint(1, 10))
        if r < 0.42:
            key = rng.choice(keys)
            if rng.random() < 0.08:
                vi = rng.randrange(len(lens))          # any value, possibly larger than the limit
            else:
                vi = rng.choice(pool)
            ops.append({"op": "set", "key": key, "val": vi, "t": t})
            used.add(key)
        elif r < 0.80:
            if rng.random() < 0.2:
                key = rng.choice([x for x in keys + FREE_KEYS + (CONFLICT_KEYS if conflict else []) if x not in used] or keys)
            else:
                key = rng.choice(keys)
            ops.append({"op": "get", "key": key, "t": t})
        elif r < 0.85:
            ops.append({"op": "unload", "key": rng.choice(keys)})
        elif r < 0.90:
            if faults:
                # a get whose load hits a transient read fault (only taken when the key is not cached)
                ops.append({"op": "getfault", "key": rng.choice(sorted(used) or keys), "t": t})
            else:
                ops.append({"op": "unload", "key": rng.choice(keys)})
        else:
            nk = rng.choice(["same", "one", "all", "two", "default"])
            nmx = {"same": mx, "one": pl[-1], "all": 10 ** 7, "two": pl[-1] + pl[0], "default": 0}[nk]
            ops.append({"op": "reopen", "max": nmx})
    return {"max": mx, "ops": ops, "limit_kind": kind, "conflict": conflict}


# ---------------------------------------------------------------- run one key-value sequence on the implementation
class KvsRunner:
    def __init__(self, workdir):
        import klongpy.db.file_cache as fcm
        import klongpy.db.sys_fn_kvs as kvsm
        self.fcm, self.kvsm = fcm, kvsm
        self.workdir = workdir
        self.clock = PlannedClock()
        self.klong, self.vals = value_pool()
        from .canon import canon
        self.canon = canon
        self.intern = Interner()
        self.last_ser = None
        orig = kvsm.serialize_obj

        def rec(o):
            b = orig(o)
            self.last_ser = b
            return b
        self._orig_ser = orig
        kvsm.serialize_obj = rec
        self._orig_time = fcm.time
        fcm.time = self.clock
        self._orig_heapq = fcm.heapq
        self.hq = HeapqProxy()
        fcm.heapq = self.hq
        self.fault = ReadFault(fcm)
        self.lens = [len(orig(v)) for _, v in self.vals]
        self.n = 0

    def close(self):
        self.kvsm.serialize_obj = self._orig_ser
        self.fcm.time = self._orig_time
        self.fcm.heapq = self._orig_heapq

    def open_store(self, root, mx, real_exec):
        st = self.kvsm.KeyValueStorage(root, max_memory=(mx if mx else None))
        if real_exec:
            from concurrent.futures import ThreadPoolExecutor
            st.cache.executor.shutdown(wait=True)
            st.cache.executor = ThreadPoolExecutor(max_workers=1)
        else:
            st.cache.executor.shutdown(wait=True)
            st.cache.executor = LazyExecutor()
        return st

    def run(self, seq, real_exec=False, klong_level=True):
        """-> list of per-op records {res, state, acct_ok, ser (id,len)}"""
        from klongpy.core import KLONG_UNDEFINED
        self.n += 1
        root = os.path.join(self.workdir, "s%d" % self.n)
        os.makedirs(root)
        st = self.open_store(root, seq["max"], real_exec)
        recs = []
        k = self.klong
        try:
            for o in seq["ops"]:
                rec = {}
                self.clock.plan([o.get("t", 0)])
                self.last_ser = None
                self.hq.popped = []
                try:
                    if o["op"] == "set":
                        v = self.vals[o["val"]][1]
                        if klong_level:
                            # Klong-level `s,kv` with kv the pair [key value] (built here: the idiom "k",,v
                            # concatenates instead of pairing when v is a character)
                            import numpy as np
                            kv = np.empty(2, dtype=object)
                            kv[0] = o["key"]
                            kv[1] = v
                            k["s"] = st
                            k["kv"] = kv
                            k("s,kv")
                        else:
                            st.set(o["key"], v)
                        rec["res"] = ["set"]
                    elif o["op"] in ("get", "getfault"):
                        if o["op"] == "getfault":
                            self.fault.arm(os.path.join(root, o["key"]))
                        try:
                            if klong_level:
                                k["s"] = st
                                k["kk"] = o["key"]
                                r = k("s?kk")
                            else:
                                r = st.get(o["key"])
                                r = KLONG_UNDEFINED if r is None else r
                        finally:
                            if o["op"] == "getfault":
                                rec["fault_hit"] = self.fault.hit
                                self.fault.disarm()
                        if r is KLONG_UNDEFINED:
                            # a stored :undefined and a missing key are indistinguishable at Klong level; tell by the file
                            rec["res"] = ["undef"]
                            rec["value"] = self.canon(r)
                            rec["file_exists"] = os.path.exists(os.path.join(root, o["key"]))
                        else:
                            rec["res"] = ["val"]
                            rec["value"] = self.canon(r)
                    elif o["op"] == "unload":
                        st.cache.unload_file(o["key"])
                        rec["res"] = ["none"]
                    elif o["op"] == "reopen":
                        st.cache.executor.shutdown(wait=True)
                        st = self.open_store(root, o["max"], real_exec)
                        rec["res"] = ["none"]
                except BaseException as e:  # noqa
                    if isinstance(e, (KeyboardInterrupt, SystemExit)):
                        raise
                    rec["res"] = ["err", exc_code(e)]
                    rec["exc"] = "%s: %s" % (type(e).__name__, str(e)[:80])
                if o["op"] == "set":
                    b = self.last_ser
                    if b is None:
                        b = self._orig_ser(self.vals[o["val"]][1])
                    rec["ser"] = [self.intern.id(b), len(b)]
                fc = st.cache
                rec["popped"] = [key_to_name(n) for n in self.hq.popped]
                rec["state"] = snapshot(fc, root, self.intern, self.intern.id, self.intern.id)
                rec["acct_ok"] = accounting_ok(fc)
                recs.append(rec)
        finally:
            try:
                st.cache.executor.shutdown(wait=True)
            except Exception:
                pass
            shutil.rmtree(root, ignore_errors=True)
        return recs


def model_request(seq, recs, catches, dirsize):
    ops = []
    for o, r in zip(seq["ops"], recs):
        if o["op"] == "set":
            i, l = r["ser"]
            ops.append(["set", key_to_name(o["key"]), [i, l, l], o["t"], r["popped"]])
        elif o["op"] == "get":
            ops.append(["get", key_to_name(o["key"]), o["t"], r["popped"]])
        elif o["op"] == "getfault":
            ops.append(["getfault", key_to_name(o["key"]), o["t"], r["popped"], 8])
        elif o["op"] == "unload":
            ops.append(["unload", key_to_name(o["key"])])
        else:
            ops.append(["reopen", o["max"]])
    return sx(["kvs", 1 if catches else 0, dirsize, seq["max"], ops]), sx(["spec", seq["max"], ops])


def oracle_kvs(seq, recs, runner):
    """The property's own oracle (a Python dict), independent of the Coq model.
    Returns None or (index, what)."""
    d = {}
    mx = seq["max"] or 2 ** 20
    tainted = set()          # keys whose load failed in the current store object (known finding C16-failed-load-entry)
    seq["k5"] = False
    for i, (o, r) in enumerate(zip(seq["ops"], recs)):
        if o["op"] == "reopen":
            tainted = set()
        if o["op"] == "getfault":
            if r["res"] == ["err", 8] and r.get("fault_hit"):
                tainted.add(o["key"])
                if not r["acct_ok"]:
                    return i, "cache accounting after a failed load: current_memory_usage=%s entries=%s max=%s" % (
                        r["state"][0], [(name_to_key(e[0]), e[2], e[3]) for e in r["state"][1]], r["state"][4])
                continue
            o = dict(o, op="get")
        if not r["acct_ok"]:
            return i, "cache accounting: current_memory_usage=%s entries=%s max=%s" % (
                r["state"][0], [(name_to_key(e[0]), e[2]) for e in r["state"][1]], r["state"][4])
        if o["op"] == "set":
            l = r["ser"][1]
            if l > mx:
                if r["res"] != ["err", 5]:
                    return i, "set of a value larger than the limit: expected MemoryError, got %r" % (r["res"],)
            else:
                if r["res"] != ["set"]:
                    return i, "set failed: %r %s" % (r["res"], r.get("exc"))
                d[o["key"]] = (runner.canon(runner.vals[o["val"]][1]), l)
        elif o["op"] == "get":
            if o["key"] in d:
                want, l = d[o["key"]]
                if l > mx:
                    if r["res"] != ["err", 5]:
                        return i, "get of a value larger than the (reopened) limit: expected MemoryError, got %r" % (r["res"],)
                elif r["res"][0] not in ("val", "undef") or r.get("value") != want:
                    return i, "get %s returned %r %s, latest set value was %r" % (o["key"], r["res"], str(r.get("value"))[:80], str(want)[:80])
            else:
                if r["res"] != ["undef"] or r.get("file_exists"):
                    return i, "get of never-set key %s: expected :undefined, got %r %s" % (o["key"], r["res"], r.get("exc", ""))
        elif o["op"] == "reopen":
            mx = o["max"] or 2 ** 20
    return None


def describe_seq(seq, runner):
    return {"kind": "kvs", "max_memory": seq["max"],
            "ops": [dict(o, **({"value": runner.vals[o["val"]][0]} if "val" in o else {})) for o in seq["ops"]]}


def check_kvs(chk, rng, runner, catches, dirsize):
    """sequences are generated, run and compared in chunks (bounded memory in the thorough tier)"""
    nseq = 3500 if chk.tier == "quick" else 16000
    acc = [None, None, None]
    seen = set()
    done = 0
    while done < nseq:
        n = min(1000, nseq - done)
        r = _check_kvs_chunk(chk, rng, runner, catches, dirsize, n, seen, done)
        for i in range(3):
            if i == 1 and r[i] is not None:
                acc[i] = dict(r[i], **(acc[i] or {}))
            elif acc[i] is None:
                acc[i] = r[i]
        done += n
    return tuple(acc)


def _check_kvs_chunk(chk, rng, runner, catches, dirsize, nseq, seen, base):
    tier = chk.tier
    maxops = 12 if tier == "quick" else 25
    seqs = []
    for j in range(nseq):
        conflict = rng.random() < 0.25
        seqs.append(gen_sequence(rng, rng.randint(3, maxops), runner.lens, conflict))
    all_recs = []
    reqs = []
    for j, seq in enumerate(seqs):
        recs = runner.run(seq, real_exec=(j % 16 == 5), klong_level=(j % 4 != 3))
        all_recs.append(recs)
        a, b = model_request(seq, recs, catches, dirsize)
        reqs.append(a)
        reqs.append(b)
    outs = chk.run_model(reqs)
    bad_prop = None
    bad_known = None
    bad_corr = None
    for j, (seq, recs) in enumerate(zip(seqs, all_recs)):
        mout, sout = outs[2 * j], outs[2 * j + 1]
        chk.count("evaluations", len(recs))
        chk.count("kvs_sequences")
        chk.count("kvs_limit_" + seq["limit_kind"])
        sig = (seq["limit_kind"], tuple(o["op"] for o in seq["ops"]))
        if sig not in seen:
            seen.add(sig)
            chk.count("distinct_nontrivial")
        is_conf = prefix_conflict([o["key"] for o in seq["ops"] if "key" in o])
        if is_conf:
            chk.count("kvs_prefix_conflict_sequences")
        if any(r["state"][1] and len(r["state"][1]) < len([1 for e in r["state"][3] if e[1] == "f"]) for r in recs):
            chk.count("kvs_sequences_with_eviction_or_unload")
        orc = oracle_kvs(seq, recs, runner)
        if orc is not None:
            rep = dict(describe_seq(seq, runner), failing_op=orc[0], what=orc[1])
            if is_conf:
                if bad_known is None:
                    bad_known = {}
                bad_known.setdefault("C16-prefix-keys", rep)
            elif seq.get("k5"):
                if bad_known is None:
                    bad_known = {}
                bad_known.setdefault("C16-failed-load-entry", rep)
            elif bad_prop is None:
                bad_prop = rep
        if any(o["op"] == "getfault" for o in seq["ops"]):
            chk.count("kvs_sequences_with_read_fault")
        # model equality, after every op
        if not (isinstance(mout, list) and len(mout) == len(recs)):
            if bad_corr is None:
                bad_corr = dict(describe_seq(seq, runner), model=str(mout)[:300])
            continue
        for i, (r, m) in enumerate(zip(recs, mout)):
            mres, mstate = m
            ires = list(r["res"])
            mres2 = [mres[0]] if mres[0] in ("set", "undef", "none") else (["val"] if mres[0] == "val" else list(mres))
            ok = ires == mres2 and r["state"] == model_state(mstate)
            if ok and mres[0] == "val":
                # the model's content id must be the file the implementation unpickled
                b = runner.intern.back.get(mres[1])
                ok = b is not None and runner.canon(pickle.loads(b)) == r["value"]
            if not ok:
                if bad_corr is None:
                    bad_corr = dict(describe_seq(seq, runner), failing_op=i, impl_res=ires, model_res=mres,
                                    impl_state=r["state"], model_state=model_state(mstate))
                break
        # spec = model on conflict-free sequences is the Coq theorem; here the spec run is compared with the
        # implementation too (cheap, and it is the second, independent oracle)
        if not is_conf and not any(o["op"] == "getfault" for o in seq["ops"]) and isinstance(sout, list) and len(sout) == len(recs):
            for i, (r, s_) in enumerate(zip(recs, sout)):
                sres = [s_[0]] if s_[0] in ("set", "undef", "none", "val") else list(s_)
                if list(r["res"]) != sres and bad_prop is None:
                    bad_prop = dict(describe_seq(seq, runner), failing_op=i,
                                    what="dictionary specification says %r, implementation %r %s" % (s_, r["res"], r.get("exc", "")))
                    break
        if base == 0 and j < 3:
            chk.sample({"kind": "kvs", "max": seq["max"], "ops": [o["op"] + ":" + o.get("key", str(o.get("max"))) for o in seq["ops"]],
                        "final_mem": recs[-1]["state"][0]}, limit=3)
    return bad_prop, bad_known, bad_corr


# ---------------------------------------------------------------- the DataFrame cache as a FileCache (accounting with cmem != clen)
def check_dfcache(chk, rng, workdir, dirsize):
    import pandas as pd
    import klongpy.db.file_cache as fcm
    from klongpy.db.df_cache import PandasDataFrameCache
    from klongpy.db.helpers import serialize_df, df_memory_usage
    frames = [pd.DataFrame({"v": [1, 2, 3]}, index=[3, 1, 2]),
              pd.DataFrame({"v": list(range(40))}, index=list(range(40))),
              pd.DataFrame({"v": [1.5]}, index=[0]),
              pd.DataFrame({"v": ["abc"] * 30}, index=list(range(30))),        # memory > serialised length
              pd.DataFrame({"v": list(range(200)), "w": list(range(200))}, index=list(range(200))),
              pd.DataFrame({"v": [7, 8]}, index=[10, 20])]
    ser = [serialize_df(f) for f in frames]
    lens = [len(b) for b in ser]
    mems = [int(df_memory_usage(f)) for f in frames]
    by_bytes = {b: i + 1 for i, b in enumerate(ser)}
    clock = PlannedClock()
    orig_time = fcm.time
    fcm.time = clock
    orig_heapq = fcm.heapq
    hq = HeapqProxy()
    fcm.heapq = hq
    fault = ReadFault(fcm)
    nseq = 500 if chk.tier == "quick" else 4000
    keys = ["a", "b", "c", "e/f", "e/g"]
    bad_prop = bad_corr = None
    reqs, runs = [], []
    try:
        for j in range(nseq):
            root = os.path.join(workdir, "d%d" % j)
            os.makedirs(root)
            mx = rng.choice([max(lens), max(lens) + min(mems), sum(mems), 10 ** 7, min(lens) + 50, sorted(lens)[2]])
            # focus: a limit between the pickle length and the memory of the string frame, where two mid-size frames fit
            # but three do not: overwriting a cached key with contents that are served uncached, then evicting
            focus = rng.random() < 0.35 and mems[3] > lens[1] + 1
            if focus:
                mx = rng.randint(max(lens[1], lens[3]), mems[3] - 1)
            fc = PandasDataFrameCache(max_memory=mx, root_path=root)
            fc.executor.shutdown(wait=True)
            fc.executor = LazyExecutor()

            def ckey(df):
                return by_bytes.get(serialize_df(df), -1)
            ops, recs = [], []
            keys_live = list(keys)
            t = 10
            # corpus template (regression of the repaired finding d346f94): a cached key is overwritten by contents that
            # are served uncached, then three mid-size frames on other keys force an eviction; random ops are mixed in
            script = None
            if focus and j % 3 == 0:
                ks = rng.sample(keys, 4)
                script = [("set", ks[0], 1), ("set", ks[0], 3), ("set", ks[1], 1), ("set", ks[2], 1), ("set", ks[3], 1),
                          ("get", ks[0], None), ("get", ks[1], None)]
                for _ in range(rng.randint(0, 2)):
                    script.insert(rng.randint(2, len(script)), None)
            nops = len(script) if script is not None else rng.randint(3, 10 if chk.tier == "quick" else 20)
            for i in range(nops):
                t += rng.randint(0, 3)
                clock.plan([t])
                hq.popped = []
                r = rng.random()
                key = rng.choice(keys_live or keys)
                forced = script[i] if script is not None else None
                if forced is not None:
                    key = forced[1]
                    r = 0.0 if forced[0] == "set" else 0.5
                try:
                    if focus and forced is None:
                        r = r * 0.75 if r < 0.9 else r          # mostly sets and gets
                    if r < 0.45:
                        fi = rng.randrange(len(frames))
                        if focus and rng.random() < 0.85:
                            fi = 1 if rng.random() < 0.65 else 3
                        if forced is not None:
                            fi = forced[2]
                        ops.append(["set", key_to_name(key), [fi + 1, lens[fi], mems[fi]], t, []])
                        fc.update_file(key, ser[fi])
                        res = ["set"]
                    elif r < 0.72:
                        ops.append(["get", key_to_name(key), t, []])
                        res = ["val", ckey(fc.get_file(key))]
                    elif r < 0.8 and forced is None:
                        # a get whose load hits a transient read fault; the key is left alone afterwards (known finding otherwise)
                        ops.append(["getfault", key_to_name(key), t, [], 8])
                        fault.arm(os.path.join(root, key))
                        try:
                            res = ["val", ckey(fc.get_file(key))]
                        finally:
                            if fault.hit and key in keys_live:
                                keys_live.remove(key)
                            fault.disarm()
                    elif r < 0.9:
                        ops.append(["unload", key_to_name(key)])
                        fc.unload_file(key)
                        res = ["none"]
                    else:
                        nmx = rng.choice([mx, 10 ** 7, max(lens)])
                        ops.append(["reopen", nmx])
                        fc = PandasDataFrameCache(max_memory=nmx, root_path=root)
                        fc.executor.shutdown(wait=True)
                        fc.executor = LazyExecutor()
                        keys_live = list(keys)
                        res = ["none"]
                except BaseException as e:  # noqa
                    if isinstance(e, (KeyboardInterrupt, SystemExit)):
                        raise
                    res = ["err", exc_code(e)]
                if ops[-1][0] in ("set", "get"):
                    ops[-1][-1] = [key_to_name(n) for n in hq.popped]
                elif ops[-1][0] == "getfault":
                    ops[-1][3] = [key_to_name(n) for n in hq.popped]
                st = snapshot(fc, root, None, ckey, lambda b: by_bytes.get(b, -1))
                recs.append((res, st, accounting_ok(fc)))
            shutil.rmtree(root, ignore_errors=True)
            reqs.append(sx(["kvs", 0, dirsize, mx, ops]))
            runs.append((mx, ops, recs))
    finally:
        fcm.time = orig_time
        fcm.heapq = orig_heapq
    outs = chk.run_model(reqs)
    for (mx, ops, recs), mout in zip(runs, outs):
        chk.count("evaluations", len(recs))
        chk.count("dfcache_sequences")
        if any(o[0] == "set" and o[2][2] > mx >= o[2][1] for o in ops):
            chk.count("dfcache_sequences_served_uncached")
        # dictionary oracle at the FileCache level: update_file / get_file of frames (MemoryError when the pickle exceeds the limit)
        dd, cur = {}, mx
        for i, (o, (res, st, acct)) in enumerate(zip(ops, recs)):
            want = None
            if o[0] == "set":
                want = ["set"] if o[2][1] <= cur else ["err", 5]
                if want == ["set"]:
                    dd[tuple(o[1])] = (o[2][0], o[2][1])
            elif o[0] in ("get", "getfault"):
                if o[0] == "getfault" and res == ["err", 8]:
                    if not acct and bad_prop is None:
                        bad_prop = {"kind": "dfcache", "max_memory": mx, "ops": ops, "failing_op": i,
                                    "what": "cache accounting after a failed load: current_memory_usage=%s entries=%s" % (st[0], st[1])}
                    continue
                if tuple(o[1]) in dd:
                    fid, ln = dd[tuple(o[1])]
                    want = ["val", fid] if ln <= cur else ["err", 5]
                else:
                    want = ["err", 1]
            elif o[0] == "reopen":
                cur = o[1]
            if want is not None and res != want and bad_prop is None:
                bad_prop = {"kind": "dfcache", "max_memory": mx, "ops": ops, "failing_op": i,
                            "what": "DataFrame cache as a dictionary: operation %d %s returned %r, expected %r" % (i, o[0], res, want)}
        over = any(o[0] == "set" and o[2][2] > mx >= o[2][1] for o in ops)
        if over:
            chk.count("dfcache_sequences_mem_over_limit")
        for i, ((res, st, acct), m) in enumerate(zip(recs, mout)):
            mres, mstate = m
            mres2 = [mres[0]] if mres[0] in ("set", "none") else list(mres)
            if mres2 and mres2[0] == "err" and mres2[1] == 1:
                mres2 = ["err", 1]
            if not acct and bad_prop is None:
                bad_prop = {"kind": "dfcache", "max_memory": mx, "ops": ops, "failing_op": i,
                            "what": "cache accounting: current_memory_usage=%s entries=%s" % (st[0], st[1])}
            if (res != mres2 or st != model_state(mstate)) and bad_corr is None:
                bad_corr = {"kind": "dfcache-correspondence", "max_memory": mx, "ops": ops, "failing_op": i, "impl_res": res,
                            "model_res": mres, "impl_state": st, "model_state": model_state(mstate)}
                break
    return bad_prop, bad_corr


# ---------------------------------------------------------------- table store (Klong level) vs merge model and a dict oracle
def py_merge(old, new):
    """the documented merge: rows of `old` win on equal index, first row wins inside a frame, result sorted by index"""
    d = {}
    for i, v in list(old) + list(new):
        d.setdefault(i, v)
    return sorted(d.items())


def check_tables(chk, rng, workdir, dirsize):
    import pandas as pd
    import klongpy.db.file_cache as fcm
    from klongpy import KlongInterpreter
    from klongpy.core import KLONG_UNDEFINED
    from klongpy.db.sys_fn_kvs import TableStorage
    from klongpy.db.sys_fn_db import Table
    k = KlongInterpreter()
    clock = PlannedClock()
    orig_time = fcm.time
    fcm.time = clock
    nseq = 400 if chk.tier == "quick" else 3000
    keys = ["p", "q", "r/s", "r/t"]
    bad_prop = bad_corr = None
    reqs, runs = [], []

    def open_ts(root, mx):
        ts = TableStorage(root, max_memory=mx)
        ts.cache.executor.shutdown(wait=True)
        ts.cache.executor = LazyExecutor()
        return ts
    try:
        for j in range(nseq):
            root = os.path.join(workdir, "t%d" % j)
            os.makedirs(root)
            small = rng.random() < 0.4
            with_str = small and rng.random() < 0.5      # a string column: DataFrame memory far above the pickle length
            mx = rng.choice([1100, 1300, 2400]) if small else 10 ** 9
            if with_str:
                mx = rng.choice([1500, 2500, 4000])
            ts = open_ts(root, mx)
            d = {}
            fetched = {}          # key -> Table objects handed out by gets of the CURRENT store object
            seq_keys = keys + (["p.tmp", "r/s.tmp", "q~"] if rng.random() < 0.3 else [])
            if rng.random() < 0.3:
                seq_keys = seq_keys + rng.choice(NEAR_COLLISIONS)[:3]
            base_cols = ["v", "s"] if with_str else ["v"]
            ops, recs = [], []
            pending, force_mod_key = None, None
            t = 10
            serial = 0
            for i in range(rng.randint(2, 9 if chk.tier == "quick" else 18)):
                t += 2
                key = rng.choice(seq_keys)
                r = rng.random()
                # scripted follow-ups: get -> local modification of the fetched table -> get of the same key again
                if pending is not None:
                    kind_, key_ = pending
                    pending = None
                    if kind_ == "modify" and key_ in fetched:
                        r = 0.80
                        force_mod_key = key_
                    elif kind_ == "get":
                        r, key = 0.5, key_
                res = None
                fail = None
                try:
                    if r < 0.5:
                        n = rng.choice([1, 2, 3, 5, 8, 12, 40]) if rng.random() < 0.9 else 300
                        if rng.random() < 0.12:
                            n = 0                      # a table with columns but no rows is a value too
                        hi = max(3, n)
                        rows = []
                        for _ in range(n):
                            serial += 1
                            rows.append((rng.randint(0, hi), serial))
                        cols = {"v": pd.Series([v for _, v in rows], dtype="int64")}
                        if with_str:
                            cols["s"] = pd.Series(["abc%d" % v for _, v in rows], dtype=object)
                        df = pd.DataFrame(cols)
                        df.index = pd.Index([i_ for i_, _ in rows], dtype="int64")
                        if n == 0:
                            chk.count("table_sets_of_zero_row_tables")
                        clock.plan([t, t + 1])
                        ops.append(["set", key_to_name(key), ["rows"] + [[a, b] for a, b in rows], t, t + 1])
                        k["ts"] = ts
                        k["tb"] = Table(df)
                        import numpy as np
                        kv = np.empty(2, dtype=object)
                        kv[0] = key
                        kv[1] = Table(df)
                        k["kv"] = kv
                        k("ts,kv")
                        d[key] = py_merge(d.get(key, []), rows)
                        res = ["set"]
                    elif r < 0.76:
                        clock.plan([t])
                        ops.append(["get", key_to_name(key), t])
                        k["ts"] = ts
                        k["kk"] = key
                        got = k("ts?kk")
                        if got is KLONG_UNDEFINED:
                            res = ["undef"]
                            if key in d:
                                fail = "table %s reads as :undefined after a set" % key
                        else:
                            gdf = got.get_dataframe()
                            shape = (list(gdf.columns), list(gdf.index.names))
                            if "v" in gdf.columns and shape == (base_cols, [None]):
                                rows = [(int(a), int(b)) for a, b in zip(gdf.index.tolist(), gdf["v"].tolist())]
                            else:
                                rows = [(-1, -1)]
                            res = ["val"] + [[a, b] for a, b in rows]
                            fetched.setdefault(key, []).append(got)
                            if rng.random() < 0.4:
                                pending = ("modify", key)
                            if key not in d:
                                fail = "never-set table %s reads as a table" % key
                            elif shape != (base_cols, [None]):
                                fail = "table %s: a get returned columns %r / index %r, the latest set had columns %r and a plain index (a fetched table was changed locally, nothing was stored)" % (
                                    key, shape[0], shape[1], base_cols)
                            elif rows != d[key]:
                                fail = "table %s: stored rows differ from the documented merge (existing rows win on equal index): got %s, want %s" % (
                                    key, rows[:12], d[key][:12])
                    elif r < 0.92 and fetched:
                        # the caller changes a table it fetched earlier, in place, and does NOT store it back
                        import numpy as np
                        mk = force_mod_key if force_mod_key in fetched else rng.choice(sorted(fetched))
                        force_mod_key = None
                        if rng.random() < 0.7:
                            pending = ("get", mk)
                        tb = rng.choice(fetched[mk])
                        how = rng.choice(["add-column", "set-index", "insert-row", "overwrite-column"])
                        try:
                            if how == "add-column":
                                tb.set("c", np.arange(len(tb.get_dataframe())))
                            elif how == "overwrite-column":
                                tb.set("v", np.zeros(len(tb.get_dataframe()), dtype=int) - 7)
                            elif how == "set-index":
                                tb.set_index(["v"])
                            else:
                                tb.insert(np.array([999] + (["zz"] if with_str else []), dtype=object))
                                len(tb)
                        except Exception:
                            pass
                        ops.append(["modify", key_to_name(mk), ["rows"] + [[a, b] for a, b in d.get(mk, [])]])
                        res = ["none"]
                        chk.count("table_local_modifications")
                    elif r < 0.95:
                        ts.cache.unload_file(key)
                        ops.append(["unload", key_to_name(key)])
                        res = ["none"]
                    else:
                        nmx = mx
                        ops.append(["reopen", nmx])
                        ts = open_ts(root, nmx)
                        fetched = {}
                        res = ["none"]
                except BaseException as e:  # noqa
                    if isinstance(e, (KeyboardInterrupt, SystemExit)):
                        raise
                    res = ["err", exc_code(e)]
                    if not (small and type(e).__name__ in ("MemoryError",)):
                        fail = "table store raised %s: %s" % (type(e).__name__, str(e)[:100])
                if not accounting_ok(ts.cache) and fail is None:
                    fail = "table cache accounting: current_memory_usage=%s entries=%s max=%s" % (
                        ts.cache.current_memory_usage, [(n, b) for n, (w, b, f) in ts.cache.file_futures.items()], ts.cache.max_memory)
                recs.append((res, fail))
                if fail is not None or (res and res[0] == "err"):
                    break
            shutil.rmtree(root, ignore_errors=True)
            reqs.append(sx(["tbl", dirsize, mx, ops]))
            runs.append((mx, ops, recs, small))
    finally:
        fcm.time = orig_time
    outs = chk.run_model(reqs)
    for (mx, ops, recs, small), mout in zip(runs, outs):
        chk.count("evaluations", len(recs))
        chk.count("table_sequences")
        if small:
            chk.count("table_sequences_small_limit")
        for i, ((res, fail), m) in enumerate(zip(recs, mout)):
            if fail is not None and bad_prop is None and not (small and res and res[0] == "err"):
                bad_prop = {"kind": "tables", "max_memory": mx, "ops": ops, "failing_op": i, "what": fail}
            if small:
                continue           # the model's frame sizes are not pandas'; results under small limits are judged by the oracle only
            mm = [m] if isinstance(m, str) else list(m)
            if mm[0] == "val":
                mm = ["val"] + [list(x) for x in mm[1:]]
            if mm != res and bad_corr is None:
                bad_corr = {"kind": "tables-correspondence", "ops": ops, "failing_op": i, "impl": res, "model": mm}
    return bad_prop, bad_corr


def check_two_handles(chk, rng, workdir):
    """two store objects open on ONE directory at the same time: every set, through either of them, must reach the file —
    a fresh store opened afterwards reads the latest set of every key (the cache of a handle only says what the file
    held when that handle read or wrote it)"""
    from klongpy.core import KLONG_UNDEFINED
    from klongpy.db.sys_fn_kvs import KeyValueStorage
    nseq = 40 if chk.tier == "quick" else 400
    for j in range(nseq):
        root = os.path.join(workdir, "h%d" % j)
        os.makedirs(root)
        handles = {"A": KeyValueStorage(root), "B": KeyValueStorage(root)}
        d, steps = {}, []
        try:
            keys = rng.sample(["k", "m", "e/f", "k.tmp"], 2)
            vals = ["v1", "v2", [1, 2, 3]]
            for i in range(rng.randint(3, 7)):
                h = rng.choice("AB")
                k = rng.choice(keys)
                v = rng.choice(vals[:2] if rng.random() < 0.7 else vals)
                if rng.random() < 0.3:
                    handles[h].get(k)
                    steps.append("%s.get(%s)" % (h, k))
                handles[h].set(k, v)
                d[k] = v
                steps.append("%s.set(%s, %r)" % (h, k, v))
                reader = KeyValueStorage(root)
                try:
                    for kk in keys:
                        chk.count("evaluations")
                        got = reader.get(kk)
                        want = d.get(kk, KLONG_UNDEFINED)
                        if not (got is want or (got is not KLONG_UNDEFINED and want is not KLONG_UNDEFINED and list(got) == list(want) if isinstance(want, list) else got == want)):
                            return {"kind": "two-handles", "steps": steps, "key": kk,
                                    "what": "two stores open on one directory: after %s a fresh store reads key %s as %r, latest set was %r" % (
                                        "; ".join(steps), kk, got, want)}
                finally:
                    reader.cache.executor.shutdown(wait=True)
            chk.count("two_handle_sequences")
        finally:
            for h in handles.values():
                h.cache.executor.shutdown(wait=True)
            shutil.rmtree(root, ignore_errors=True)
    return None


def table_damage_scenario(chk, rng, workdir):
    """a table file on disk is damaged (as after a disk fault): reading it raises; the accounting of the held entries
    and every other key must be unaffected, right after the failure and after further gets/sets"""
    import pandas as pd
    from klongpy.core import KLONG_UNDEFINED
    from klongpy.db.sys_fn_kvs import TableStorage
    from klongpy.db.sys_fn_db import Table
    for j in range(3):
        root = os.path.join(workdir, "dmg%d" % j)
        os.makedirs(root)
        try:
            mk = lambda lo, n: Table(pd.DataFrame({"v": list(range(lo, lo + n))}, index=list(range(n))))
            mx = rng.choice([2000, 10 ** 6])
            ts = TableStorage(root, max_memory=mx)
            ts.set("p", mk(0, 3)); ts.set("q", mk(10, 4)); ts.set("r/s", mk(20, 2))
            ts.cache.executor.shutdown(wait=True)
            ts = TableStorage(root, max_memory=mx)
            with open(os.path.join(root, "p"), "wb") as f:
                f.write([b"\x00garbage", b"", b"\x80\x04\x95"][j])
            steps = []
            def acct(when):
                if not accounting_ok(ts.cache):
                    return {"kind": "tables-damaged-file", "max_memory": mx, "steps": steps, "what":
                            "table cache accounting %s: current_memory_usage=%s entries=%s" % (
                                when, ts.cache.current_memory_usage,
                                [(n, int(b), f_.done() and f_.exception() is None) for n, (w, b, f_) in ts.cache.file_futures.items()])}
                return None
            try:
                r = ts.get("p")
                steps.append("get p -> %s" % ("undefined" if r is KLONG_UNDEFINED else "table"))
            except BaseException as e:  # noqa
                steps.append("get p raised %s" % type(e).__name__)
            chk.count("evaluations"); chk.count("table_damaged_file_reads")
            bad = acct("after reading a damaged table file")
            if bad:
                return bad
            for key, lo, n in (("q", 10, 4), ("r/s", 20, 2)):
                got = ts.get(key)
                steps.append("get %s" % key)
                if got is KLONG_UNDEFINED or got.get_dataframe()["v"].tolist() != list(range(lo, lo + n)):
                    return {"kind": "tables-damaged-file", "steps": steps, "what": "table %s reads wrongly after another key's file was damaged" % key}
                bad = acct("after get %s" % key)
                if bad:
                    return bad
            ts.set("q", mk(100, 6))
            steps.append("set q")
            bad = acct("after set q")
            if bad:
                return bad
        finally:
            try:
                ts.cache.executor.shutdown(wait=True)
            except Exception:
                pass
            shutil.rmtree(root, ignore_errors=True)
    return None


# ---------------------------------------------------------------- known-finding witnesses (mirrors of the Coq _refuted witnesses)
def witness_prefix(runner):
    """C16_prefix_refuted: set a/x; get a  (a was never set: the property says :undefined)"""
    seq = {"max": 0, "limit_kind": "default", "conflict": True, "ops": [
        {"op": "set", "key": "a/x", "val": 0, "t": 1}, {"op": "get", "key": "a", "t": 2},
        {"op": "set", "key": "a", "val": 0, "t": 3}, {"op": "get", "key": "a/x", "t": 4}]}
    recs = runner.run(seq)
    return seq, recs


def witness_mem_over_limit(workdir):
    """C16_mem_over_limit_refuted on the real TableStorage: a table whose pickle fits the limit but whose
    DataFrame memory does not.  Returns (results, (len, mem))."""
    import pandas as pd
    from klongpy import KlongInterpreter
    from klongpy.db.sys_fn_kvs import TableStorage
    from klongpy.db.sys_fn_db import Table
    from klongpy.db.helpers import serialize_df, df_memory_usage
    root = os.path.join(workdir, "k3")
    os.makedirs(root)
    df = pd.DataFrame({"v": ["abc"] * 30}, index=list(range(30)))
    ln, mem = len(serialize_df(df)), int(df_memory_usage(df))
    mx = (ln + mem) // 2
    ts = TableStorage(root, max_memory=mx)
    ts.cache.executor.shutdown(wait=True)
    ts.cache.executor = LazyExecutor()
    k = KlongInterpreter()
    out = []
    for text, tb in (('ts,"p",,tb', Table(df)), ('ts?"p"', None), ('ts,"p",,tb', Table(pd.DataFrame({"v": ["z"]}, index=[99])))):
        k["ts"] = ts
        if tb is not None:
            k["tb"] = tb
        try:
            k(text)
            out.append(["ok"])
        except BaseException as e:  # noqa
            out.append(["err", exc_code(e)])
    stuck = [(n, bool(w)) for n, (w, b, f) in ts.cache.file_futures.items()]
    shutil.rmtree(root, ignore_errors=True)
    return out, (ln, mem, mx), stuck


def run(tier, replay=None):
    chk = Check("C16", tier)
    rng = random.Random(chk.seed * 7919 + 16)
    gen = chk.generate(generate())
    chk.build_model()
    hits = forbidden_scan("C16")
    proof = chk.build_proofs()
    if hits:
        proof["ok"] = False
        proof["error"] = "forbidden declarations: %r" % hits
        proof["broken"] = hits[0]
    catches = "kvs_get_catches_fnf : bool := true" in gen
    workdir = os.path.join(VERIF, ".work", "C16-%d" % os.getpid())
    shutil.rmtree(workdir, ignore_errors=True)
    os.makedirs(workdir)
    dirsize = os.path.getsize(workdir)
    bad_props, bad_corrs = [], []
    try:
        runner = KvsRunner(workdir)
        try:
            # known finding: keys in path-prefix relation interfere (R10)
            seq, recs = witness_prefix(runner)
            m = chk.run_model([model_request(seq, recs, catches, dirsize)[0]])[0]
            model_predicts = m[1][0][0] == "err" and m[1][0][1] == 2 and m[2][0][0] == "err"
            impl_shows = recs[1]["res"] == ["err", 2] and recs[2]["res"][0] == "err"
            if impl_shows and model_predicts:
                chk.finding("C16-prefix-keys", "keys in path-prefix relation interfere", describe_seq(seq, runner))
            elif impl_shows != model_predicts:
                bad_corrs.append(dict(describe_seq(seq, runner), what="prefix-key witness: model and implementation disagree",
                                      impl=[r["res"] for r in recs], model=str(m)[:300]))
            # regression of the repaired finding C16-table-mem-over-limit: a table larger in memory than the limit
            res3, (ln, mem, mx3), stuck = witness_mem_over_limit(workdir)
            m3 = chk.run_model([sx(["kvs", 1, dirsize, mx3, [["set", [112], [1, ln, mem], 1, []], ["get", [112], 2, []], ["set", [112], [2, 600, 100], 3, []]]])])[0]
            rep3 = {"kind": "tables", "what": "TableStorage(max_memory=%d); set of a table with pickle length %d and DataFrame memory %d; get; set: %r, entries left writing %r"
                                             % (mx3, ln, mem, res3, stuck), "impl": res3, "stuck_entries": stuck}
            if res3 != [["ok"]] * 3 or stuck:
                bad_props.append(rep3)
            if [x[0][0] for x in m3] != ["set", "val", "set"]:
                bad_corrs.append(dict(rep3, kind="mem-over-limit witness", model=str(m3)[:300]))
            # regression of the repaired finding C16-failed-load-entry (ada72ef): a failed load leaves no entry behind
            seq5 = {"max": 0, "limit_kind": "default", "conflict": False, "ops": [
                {"op": "set", "key": "a", "val": 4, "t": 1}, {"op": "reopen", "max": 0}, {"op": "getfault", "key": "a", "t": 2},
                {"op": "get", "key": "a", "t": 3}, {"op": "set", "key": "a", "val": 4, "t": 4}]}
            recs5 = runner.run(seq5)
            if not (recs5[2]["res"] == ["err", 8] and recs5[3]["res"] == ["val"] and all(r["acct_ok"] for r in recs5)):
                bad_props.append(dict(describe_seq(seq5, runner), what="after a failed load of key a: results %r, accounting ok %r"
                                      % ([r["res"] for r in recs5], [r["acct_ok"] for r in recs5])))
            bp, bk, bc = check_kvs(chk, rng, runner, catches, dirsize)
        finally:
            runner.close()
        if bp:
            bad_props.append(bp)
        for fid, rep in (bk or {}).items():
            chk.finding(fid, rep["what"], rep)
        if bc:
            bad_corrs.append(bc)
        bp, bc = check_dfcache(chk, rng, workdir, dirsize)
        if bp:
            bad_props.append(bp)
        if bc:
            bad_corrs.append(bc)
        bp = check_two_handles(chk, rng, workdir)
        if bp:
            bad_props.append(bp)
        bp = table_damage_scenario(chk, rng, workdir)
        if bp:
            bad_props.append(bp)
        bp, bc = check_tables(chk, rng, workdir, dirsize)
        if bp:
            bad_props.append(bp)
        if bc:
            bad_corrs.append(bc)
    finally:
        shutil.rmtree(workdir, ignore_errors=True)
    if os.environ.get("C16_DEBUG"):
        print("DEBUG bad_corrs", json.dumps(bad_corrs, default=str)[:3000])
    for bp in bad_props:
        chk.violation("store behaviour differs from the property's dictionary oracle: %s" % bp.get("what", bp["kind"]), bp)
    if not chk.violations:
        for bc in bad_corrs:
            chk.violation("correspondence between klongpy and the Coq model broke (%s); no failing input of the property found in %d operations"
                          % (bc.get("kind", "kvs"), chk.counters.get("evaluations", 0)),
                          {"broken": "correspondence C16/Model.v", "detail": bc}, no_input=True)
        if not proof["ok"] and not chk.violations:
            chk.violation("proof obligation no longer checks: %s" % proof["broken"],
                          {"broken_obligation": proof["broken"], "coq_error": proof["error"], "generated": chk.generated_text}, no_input=True)
    return chk.finish(
        rule="seeded random operation sequences (set / get / get of a never-set key / unload / reopen with a new limit / value larger than the limit) "
             "over 4 flat and 3 nested keys (+4 path-prefix-conflicting keys in 25% of the sequences), 18 values of every picklable Klong kind, "
             "limits one-entry..everything..default, planned clock with ties and steps back; state compared after every operation. "
             "evaluations = operations executed on the implementation and compared; distinct = distinct (limit kind, op-kind sequence)",
        trusted_base=TRUSTED, assumptions=ASSUME)


def replay(path):
    body = json.load(open(path))
    rep = body.get("replay", {})
    print(json.dumps(body, indent=1)[:6000])
    if rep.get("kind") == "kvs":
        workdir = os.path.join(VERIF, ".work", "C16-replay-%d" % os.getpid())
        os.makedirs(workdir, exist_ok=True)
        runner = KvsRunner(workdir)
        try:
            names = [n for n, _ in runner.vals]
            ops = []
            for o in rep["ops"]:
                o = dict(o)
                if "value" in o:
                    o["val"] = names.index(o["value"])
                ops.append(o)
            seq = {"max": rep["max_memory"], "ops": ops}
            recs = runner.run(seq)
            orc = oracle_kvs(seq, recs, runner)
            for o, r in zip(ops, recs):
                print("op", o, "->", r["res"], r.get("exc", ""), "mem", r["state"][0], "accounting_ok", r["acct_ok"])
            print("property oracle:", "holds" if orc is None else "FAILS at op %d: %s" % orc)
        finally:
            runner.close()
            shutil.rmtree(workdir, ignore_errors=True)
    return 0
