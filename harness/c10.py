"""C10 — a dictionary behaves as a finite map under any sequence of operations.

Link 1 (Coq): coq/C10/Properties.v — refinement of the Python-like dictionary model to abstract finite
maps for every operation sequence, finite-map laws of the specification, aliasing, freshness, Each.
Link 2 (here): the same operation sequences are run on the real interpreter (Klong text, one statement per
operation, fresh interpreter per sequence) and on the extracted model; results and the contents of every
dictionary object are compared after every step.  A third, independent Python-dict oracle states what the
property text prescribes (the property oracle).
"""
import ast
import json
import os
import random
from fractions import Fraction

from . import astlib
from .astlib import ShapeError
from .common import Check, sx, forbidden_scan, REPO

TRUSTED = [
    "Coq 8.16.1 kernel (coqc); vm_compute only in Examples and the _refuted witness",
    "Print Assumptions: all C10 theorems closed under the global context (no axioms)",
    "translator harness/c10.py:generate (Python ast): KGSym.__eq__/__hash__, both KGChar classes, copy_lambda / ':{' branch of kg_read, "
    "dictionary branches of Join/Find/Drop/At/Size/Each",
    "extraction: ExtrOcamlBasic only; Z kept as inductive; ocaml/driver.ml",
    "correspondence harness: canonical form of Python values (floats as exact dyadic rationals, dictionary objects numbered by creation), CPython dict semantics",
]
ASSUME = [
    "CPython dict: insertion ordered, overwrite keeps the first key object, lookup compares stored == probe after hash equality (modelled; sampled by link 2)",
    "hash(x) == hash(y) whenever x == y for int/float/str-family keys (CPython invariant); NaN, infinities and -0.0 are outside the generated universe",
    "integers converted to reals by numpy homogenisation are exact (|z| < 2^53 in the generated universe)",
    "operands of dictionary operations are already-evaluated values (names, literals, tuples); the Klong evaluator itself is C03's subject",
]


# ------------------------------------------------------------------------------------------------ translator
def _ret_src(fn):
    b = astlib.body_no_doc(fn)
    if len(b) != 1 or not isinstance(b[0], ast.Return):
        raise ShapeError("%s: body is not a single return" % fn.name)
    return ast.unparse(b[0].value)


def _sym_guard():
    m = astlib.module("klongpy/types.py")
    cls = astlib.find_class(m, "KGSym")
    if [ast.unparse(b) for b in cls.bases] != ["str"]:
        raise ShapeError("KGSym is not class KGSym(str)")
    eq = _ret_src(astlib.find_func(cls, "__eq__"))
    hs = _ret_src(astlib.find_func(cls, "__hash__"))
    if astlib.has_method(cls, "__ne__"):
        raise ShapeError("KGSym.__ne__ present")
    return eq == "isinstance(o, KGSym) and self.__str__() == o.__str__()" and hs == "super().__hash__()"


_CHAR_EQ_OK = {
    "klongpy/types.py": {"not isinstance(o, KGSym) and str.__eq__(self, o)"},
    "klongpy/backends/numpy_backend.py": {"type(o).__name__ != 'KGSym' and str.__eq__(self, o)"},
}


def _char_guard():
    ok = True
    for path, allowed in _CHAR_EQ_OK.items():
        m = astlib.module(path)
        cls = astlib.find_class(m, "KGChar")
        if [ast.unparse(b) for b in cls.bases] != ["str"]:
            raise ShapeError("KGChar is not class KGChar(str) in %s" % path)
        if not astlib.has_method(cls, "__eq__"):
            ok = False
            continue
        eq = _ret_src(astlib.find_func(cls, "__eq__"))
        hs = _ret_src(astlib.find_func(cls, "__hash__")) if astlib.has_method(cls, "__hash__") else None
        ne_ok = False
        if astlib.has_method(cls, "__ne__"):
            ne = astlib.body_no_doc(astlib.find_func(cls, "__ne__"))
            ne_ok = [ast.unparse(s) for s in ne] == ["r = self.__eq__(o)", "return r if r is NotImplemented else not r"]
        ok = ok and eq in allowed and hs == "str.__hash__(self)" and ne_ok
    return ok


def _lit_copy():
    m = astlib.module("klongpy/parser.py")
    cl = ast.unparse(astlib.module_assign(m, "copy_lambda"))
    if cl == "KGLambda(lambda x: _copy_literal(x))":
        if [ast.unparse(s_) for s_ in astlib.body_no_doc(astlib.find_func(m, "_copy_literal"))] != _COPY_LITERAL:
            return False
    elif cl != "KGLambda(lambda x: copy.deepcopy(x))":
        return False
    l2d = astlib.find_func(m, "list_to_dict")
    if _ret_src(l2d) != "{x[0]: x[1] for x in a}":
        return False
    kr = astlib.find_func(m, "kg_read")
    hits = []
    for n in ast.walk(kr):
        if isinstance(n, ast.If) and ast.unparse(n.test) == "aa == '{'":
            hits.append([ast.unparse(s) for s in n.body])
    want = ["i, d = read_list(t, '}', i=i + 2, module=module)", "d = list_to_dict(d)", "return (i, KGCall(copy_lambda, args=d, arity=0))"]
    return len(hits) == 1 and hits[0] == want


_COPY_LITERAL = ["if isinstance(x, KGCall) and x.a is copy_lambda:\n    return _copy_literal(x.args)",
                 "if isinstance(x, dict):\n    return {k: _copy_literal(v) for k, v in x.items()}",
                 "if isinstance(x, list):\n    return [_copy_literal(v) for v in x]", "return copy.deepcopy(x)"]


def _lit_nested():
    m = astlib.module("klongpy/parser.py")
    cl = ast.unparse(astlib.module_assign(m, "copy_lambda"))
    if cl == "KGLambda(lambda x: copy.deepcopy(x))":
        return False
    return cl == "KGLambda(lambda x: _copy_literal(x))" and \
        [ast.unparse(s_) for s_ in astlib.body_no_doc(astlib.find_func(m, "_copy_literal"))] == _COPY_LITERAL


def _branch(fn, test_src):
    """statements of the unique `if/elif <test_src>:` inside fn"""
    hits = [n for n in ast.walk(fn) if isinstance(n, ast.If) and ast.unparse(n.test) == test_src]
    if len(hits) != 1:
        raise ShapeError("%s: %d branches `%s`" % (fn.name, len(hits), test_src))
    return [ast.unparse(s) for s in hits[0].body]


def _ops_shape():
    dy = astlib.module("klongpy/dyads.py")
    join = astlib.find_func(dy, "eval_dyad_join")
    ok = _branch(join, "isinstance(a, dict)") == ["a[b[0]] = b[1]", "return a"]
    ok = ok and _branch(join, "isinstance(b, dict) and is_list(a) and (len(a) == 2)") == ["b[a[0]] = a[1]", "return b"]
    # the dictionary tests come before any list handling, in this order
    tests = [ast.unparse(n.test) for n in astlib.body_no_doc(join) if isinstance(n, ast.If)]
    ok = ok and tests[:3] == ["(isinstance(a, str) and (not isinstance(a, KGSym))) and (isinstance(b, str) and (not isinstance(b, KGSym)))",
                              "isinstance(a, dict)", "isinstance(b, dict) and is_list(a) and (len(a) == 2)"]
    find = astlib.find_func(dy, "eval_dyad_find")
    ok = ok and _branch(find, "is_dict(a)") == ["v = a.get(b)", "return KLONG_UNDEFINED if v is None else v"]
    drop = astlib.find_func(dy, "eval_dyad_drop")
    ok = ok and _branch(drop, "is_dict(b)") == ["try:\n    del b[a]\nexcept KeyError:\n    pass", "return b"]
    at = astlib.find_func(dy, "eval_dyad_at_index")
    src = [ast.unparse(s) for s in astlib.body_no_doc(at)]
    ok = ok and any(s.startswith("if is_list(b):\n    if is_empty(b):\n        r = bknp.asarray([])\n    else:\n        r = backend.kg_asarray([a[x] for x in b])\n"
                                 "elif backend.is_integer(b):\n    r = a[b]\n    j = False\nelse:\n    r = a") for s in src)
    mo = astlib.module("klongpy/monads.py")
    ok = ok and _ret_src(astlib.find_func(mo, "eval_monad_size")) == "backend.np.abs(a) if backend.is_number(a) else ord(a) if is_char(a) else len(a)"
    ad = astlib.module("klongpy/adverbs.py")
    each = astlib.find_func(ad, "eval_adverb_each")
    ok = ok and _branch(each, "is_dict(a)") == ["r = [f(backend.kg_asarray(x)) for x in a.items()]", "return backend.kg_asarray(r)"]
    wr = astlib.module("klongpy/writer.py")
    wd = astlib.find_func(wr, "kg_write_dict")
    rets = [ast.unparse(n.value) for n in ast.walk(wd) if isinstance(n, ast.Return)]
    ok = ok and len(rets) == 2 and "str(d)" in rets and "''.join([':{', ' '.join([kg_write(list(e), backend, display=display) for e in d.items()]), '}'])" in rets
    return ok


def generate():
    out = ["From Coq Require Import Bool."]
    for name, fn in (("kgsym_eq_guard", _sym_guard), ("kgchar_eq_guard", _char_guard),
                     ("literal_deepcopy", _lit_copy), ("dict_ops_shape_ok", _ops_shape), ("literal_nested_built", _lit_nested)):
        try:
            v, why = bool(fn()), None
        except (ShapeError, OSError, SyntaxError, IndexError) as e:
            v, why = False, str(e)
        out.append("Definition %s : bool := %s.%s" % (name, astlib.coq_bool(v), "" if why is None else "  (* shape not recognised: %s *)" % why.replace("*", "x")))
    return "\n".join(out) + "\n"


# ------------------------------------------------------------------------------------------------ values
def dyadic(x):
    n, d = float(x).as_integer_ratio()
    e = -(d.bit_length() - 1)
    if n == 0:
        return 0, 0
    while n % 2 == 0:
        n //= 2
        e += 1
    return n, e


class Refs:
    """dictionary objects numbered in the order they are first seen (= allocation order)"""

    def __init__(self):
        self.objs = []
        self.nans = []          # NaN float objects met as dictionary keys: (object, id); Python finds them by identity only
        self.next_nan = 0

    def register_nan(self, obj, oid):
        self.nans.append((obj, oid))

    def nan_index(self, obj):
        for o, i in self.nans:
            if o is obj:
                return i
        self.nans.append((obj, self.next_nan))
        self.next_nan += 1
        return self.next_nan - 1

    def index(self, d):
        for i, o in enumerate(self.objs):
            if o is d:
                return i
        # dictionaries held as payloads (directly, or one list deep) are numbered first: a literal builds its nested literals first
        for v in d.values():
            for w in ([v] + (list(v) if isinstance(v, (list, tuple)) else [])):
                if isinstance(w, dict) and not any(w is o for o in self.objs):
                    self.index(w)
        self.objs.append(d)
        return len(self.objs) - 1


def canon(v, refs, key=False):
    import numpy as np
    from klongpy.core import KGSym, KGFn, KGLambda, KLONG_UNDEFINED
    if v is KLONG_UNDEFINED:
        return ["u"]
    if isinstance(v, dict):
        return ["ref", refs.index(v)]
    if isinstance(v, (bool, np.bool_, int, np.integer)):
        return ["i", int(v)]
    if isinstance(v, (float, np.floating)):
        if v != v:
            return ["nan", refs.nan_index(v) if key else 0]
        if v in (float("inf"), float("-inf")):
            return ["inf", 1 if v < 0 else 0]
        m, e = dyadic(v)
        return ["r", m, e]
    if isinstance(v, KGSym):
        return ["y"] + [ord(c) for c in str(v)]
    if isinstance(v, str):
        if type(v).__name__ == "KGChar":
            return ["c", ord(str(v))]
        return ["s"] + [ord(c) for c in v]
    if isinstance(v, np.ndarray):
        if v.ndim == 0:
            return canon(v.item(), refs)
        return ["l"] + [canon(x, refs) for x in v]
    if isinstance(v, (list, tuple)):
        return ["l"] + [canon(x, refs) for x in v]
    if type(v).__name__ == "KGCall" and isinstance(getattr(v, "args", None), dict) and type(v.a).__name__ == "KGLambda":
        # an unevaluated dictionary constructor (a nested literal the copy did not build)
        return ["dlit"] + [["l", canon(a, refs), canon(b, refs)] for a, b in v.args.items()]
    if isinstance(v, (KGFn, KGLambda)) or callable(v):
        return ["f", -1]
    return ["other", type(v).__name__]


# structural literals: ("i",3) ("r",2.5) ("c","a") ("s","ab") ("y","ab") ("l",[...])
def lit_text(l, top=True):
    t = l[0]
    if t == "i":
        s = str(l[1])
        return "(%s)" % s if (top and l[1] < 0) else s
    if t == "r":
        s = repr(float(l[1]))
        return "(%s)" % s if (top and s.startswith("-")) else s
    if t == "inf":
        return ("(-1.0e400)" if top else "-1.0e400") if l[1] else "1.0e400"
    if t == "u":
        if not top:
            raise ValueError("no literal form inside a list")
        return "(1%0)"
    if t == "c":
        return "0c" + l[1]
    if t == "s":
        return '"' + l[1].replace('"', '""') + '"'
    if t == "y":
        return ":" + l[1]
    if t == "l":
        return "[" + " ".join(lit_text(x, False) for x in l[1]) + "]"
    if t == "d":
        return ":{" + " ".join("[%s %s]" % (lit_text(a, False), lit_text(b, False)) for a, b in l[1]) + "}"
    raise ValueError(l)


def lit_raw(l):
    """canonical value of a literal as the parser leaves it inside :{...} (no array conversion)"""
    t = l[0]
    if t == "i":
        return ["i", l[1]]
    if t == "r":
        return ["r"] + list(dyadic(l[1]))
    if t == "inf":
        return ["inf", 1 if l[1] else 0]
    if t == "u":
        return ["u"]
    if t == "c":
        return ["c", ord(l[1])]
    if t == "s":
        return ["s"] + [ord(c) for c in l[1]]
    if t == "y":
        return ["y"] + [ord(c) for c in l[1]]
    if t == "d":
        return ["dlit"] + [["l", lit_raw(a), lit_raw(b)] for a, b in l[1]]
    return ["l"] + [lit_raw(x) for x in l[1]]


_scratch = {}


def lit_eval(text):
    """canonical value of a Klong literal evaluated on the implementation (array conversion included)"""
    if text not in _scratch:
        from klongpy import KlongInterpreter
        if "k" not in _scratch:
            _scratch["k"] = KlongInterpreter()
        _scratch[text] = canon(_scratch["k"](text), Refs())
    return _scratch[text]


def normkey(c):
    """the property's key classes on canonical values; None = not a key (list, dictionary)"""
    t = c[0]
    if t == "i":
        return ("n", Fraction(c[1]))
    if t == "r":
        return ("n", Fraction(c[1]) * Fraction(2) ** c[2])
    if t == "c":
        return ("t", (c[1],))
    if t == "s":
        return ("t", tuple(c[1:]))
    if t == "y":
        return ("y", tuple(c[1:]))
    if t == "u":
        return ("u",)
    if t == "inf":
        return ("inf", c[1])
    if t == "nan":
        return ("nan",)          # the Klong-level reading: a program cannot tell one NaN from another
    return None


def numval(c):
    if c[0] == "inf":
        return ("inf", c[1])
    if c[0] == "i":
        return Fraction(c[1])
    if c[0] == "r":
        return Fraction(c[1]) * Fraction(2) ** c[2]
    return None


def same_mod_homog(a, b):
    """a == b, or both numbers of the same value (a tuple [k v] of an int and a real is a list of reals)"""
    if a == b:
        return True
    if numval(a) is None or numval(b) is None:
        return False
    if numval(a) == numval(b):
        return True
    # an integer beyond 2^53 next to a real is rounded to binary64 by the tuple
    return isinstance(numval(a), Fraction) and isinstance(numval(b), Fraction) and float(numval(a)) == float(numval(b))


KEYS = [("i", 0), ("i", 1), ("i", 2), ("i", -3), ("i", 7), ("r", 1.0), ("r", 2.5), ("r", 0.5), ("r", -3.0), ("r", 2.0),
        ("r", -0.0), ("r", 0.0), ("inf", False), ("inf", True), ("u",), ("i", 2 ** 53 + 1), ("r", float(2 ** 53)), ("i", 2 ** 60 + 3),
        ("c", "a"), ("c", "b"), ("c", "1"), ("s", "a"), ("s", "b"), ("s", "ab"), ("s", ""), ("s", "1"),
        ("y", "a"), ("y", "b"), ("y", "ab")]
BADKEYS = [("l", [("i", 1), ("i", 2)]), ("l", []), ("l", [("s", "a")])]
# payload lists are chosen stable under numpy array conversion (an int/real mix inside a nested list is re-typed by kg_asarray: C01's subject)
VALUES = KEYS + [("l", [("i", 1), ("i", 2)]), ("l", [("r", 1.5), ("r", 2.5)]), ("l", []), ("s", "hello"),
                 ("l", [("l", [("i", 1), ("i", 2)]), ("s", "x")]), ("l", [("c", "a"), ("y", "q")]), ("i", 100), ("r", 0.25)]


# ------------------------------------------------------------------------------------------------ sequences
def litable(l):
    """has a literal form usable inside [...] and :{...}"""
    return l[0] != "u" and (l[0] != "l" or all(litable(x) for x in l[1]))


def pair_text(k, v):
    """Klong text of the tuple [k v]: a list literal when both have a literal form, else (k),,v"""
    if litable(k) and litable(v):
        return "[%s %s]" % (lit_text(k, False), lit_text(v, False))
    return "(%s),,%s" % (lit_text(k), lit_text(v))


class Gen:
    """Generates one operation sequence together with what the property prescribes (Python-dict oracle)."""

    def __init__(self, rng, maxlen):
        self.rng = rng
        self.maxlen = maxlen
        self.env = {}        # name -> object index
        self.objs = []       # object index -> {normkey: canonical value} or None when tainted
        self.fns = {}        # fname -> elems (structural)
        self.nsite = 0
        self.ops = []

    # -- helpers
    def key(self, d=None, hit=0.6):
        rng = self.rng
        if d is not None and self.objs[d] and rng.random() < hit:
            nk = rng.choice(list(self.objs[d].keys()))
            cands = [k for k in KEYS if normkey(lit_raw(k)) == nk]
            if cands:
                return rng.choice(cands)
        return rng.choice(KEYS)

    def elems(self):
        rng = self.rng
        n = rng.choice([0, 1, 1, 2, 2, 3])
        out = []
        for _ in range(n):
            k = rng.choice([x for x in KEYS if litable(x)]) if rng.random() < 0.93 else rng.choice(BADKEYS)
            if rng.random() < 0.15:
                inner = [(rng.choice([x for x in KEYS if litable(x)]), rng.choice([x for x in VALUES if litable(x)])) for _ in range(rng.randint(0, 2))]
                out.append(("l", [k, ("d", inner)]))
            else:
                out.append(("l", [k, rng.choice([x for x in VALUES if litable(x)])]))
        if any(e[1][1][0] == "d" for e in out):
            # a literal with a nested literal and a repeated key is outside the model (list_to_dict drops the overwritten
            # payload at parse time, so which nested literals are ever built depends on the key classes)
            seen, uniq = set(), []
            for e in out:
                nk = normkey(lit_raw(e[1][0]))
                if nk is None or nk not in seen:
                    uniq.append(e)
                    seen.add(nk)
            out = uniq
        return out

    def new_obj(self, elems):
        """oracle for list_to_dict; None when a key is not hashable (the literal does not parse)"""
        # does it parse at all (keys of the literal and of the literals nested in it)?
        for e in elems:
            if normkey(lit_raw(e[1][0])) is None:
                return None
            if e[1][1][0] == "d" and any(normkey(lit_raw(a)) is None for a, _ in e[1][1][1]):
                return None
        d = {}
        for e in elems:
            k = lit_raw(e[1][0])
            if e[1][1][0] == "d":
                inner = {}
                for a, b in e[1][1][1]:
                    inner[normkey(lit_raw(a))] = lit_raw(b)
                self.objs.append(inner)           # a nested literal is a dictionary of its own, built first
                v = ["ref", len(self.objs) - 1]
            else:
                v = lit_raw(e[1][1])
            d[normkey(k)] = v
        self.objs.append(d)
        return len(self.objs) - 1

    def emit(self, text, mop, expect, kind):
        self.ops.append({"text": text, "model": mop, "expect": expect, "kind": kind})

    def names(self):
        return sorted(self.env)

    # -- one operation
    def step(self):
        rng = self.rng
        if not self.env:
            kind = rng.choice(["lit", "lit", "deffn"] if not self.fns else ["lit", "call"])
        else:
            kind = rng.choice(["lit", "deffn", "call", "alias", "joinl", "joinl", "joinl", "joinr", "joinr", "find", "find", "find",
                               "at", "drop", "drop", "size", "each", "joinx", "findx", "eachdo"])
        if kind == "call" and not self.fns:
            kind = "deffn"
        if kind == "lit":
            n = rng.randint(0, 3)
            el = self.elems()
            site = self.nsite
            self.nsite += 1
            text = "d%d:::{%s}" % (n, " ".join(lit_text(e, False) for e in el))
            mop = ["olit", n, site, [lit_raw(e) for e in el]]
            o = self.new_obj(el)
            if o is None:
                self.emit(text, mop, ("err",), kind)
            else:
                self.env[n] = o
                self.emit(text, mop, ("val", ["ref", o]), kind)
        elif kind == "deffn":
            fn = 10 + rng.randint(0, 1)
            el = self.elems()
            site = self.nsite
            self.nsite += 1
            text = "f%d::{:{%s}}" % (fn, " ".join(lit_text(e, False) for e in el))
            mop = ["odef", fn, site, [lit_raw(e) for e in el]]
            bad = any(normkey(lit_raw(e[1][0])) is None for e in el)
            if bad:
                self.emit(text, mop, ("err",), kind)
            else:
                self.fns[fn] = el
                self.emit(text, mop, ("fn", site), kind)
        elif kind == "call":
            fn = rng.choice(sorted(self.fns))
            n = rng.randint(0, 3)
            o = self.new_obj(self.fns[fn])
            self.env[n] = o
            self.emit("d%d::f%d()" % (n, fn), ["ocall", n, fn], ("val", ["ref", o]), kind)
        elif kind == "alias":
            m = rng.choice(self.names())
            n = rng.randint(0, 3)
            self.env[n] = self.env[m]
            self.emit("d%d::d%d" % (n, m), ["oalias", n, m], ("val", ["ref", self.env[m]]), kind)
        elif kind in ("joinl", "joinr"):
            n = rng.choice(self.names())
            d = self.env[n]
            if rng.random() < 0.12:
                # the payload is a dictionary (possibly this one): (k),,dm
                k = self.key(d)
                m = rng.choice(self.names())
                ptxt = "(%s),,d%d" % (lit_text(k), m)
                marg = ["pair", ["lit", lit_eval(lit_text(k))], ["var", m]]
                pk, pv = lit_eval(lit_text(k)), ["ref", self.env[m]]
            else:
                k = self.key(d) if rng.random() < 0.93 else rng.choice(BADKEYS)
                v = rng.choice(VALUES)
                if not litable(k) and k in BADKEYS:
                    return
                ptxt = pair_text(k, v)
                pc = lit_eval(ptxt)
                if pc[0] != "l" or len(pc) != 3:
                    return
                marg = ["lit", pc]
                pk, pv = pc[1], pc[2]
            if kind == "joinl":
                text = "d%d,%s" % (n, ptxt)
                mop = ["joinl", ["var", n], marg]
            else:
                text = "(%s),d%d" % (ptxt, n)
                mop = ["joinr", marg, ["var", n]]
            nk = normkey(pk)
            if nk is None:
                self.emit(text, mop, ("err",), kind)
            else:
                if self.objs[d] is not None:
                    self.objs[d][nk] = pv
                self.emit(text, mop, ("val", ["ref", d]), kind)
        elif kind == "joinx":
            # forms of Join the property text does not describe: strings, symbols, atoms, short/long lists, two dictionaries
            n = rng.choice(self.names())
            d = self.env[n]
            form = rng.choice(["str", "sym", "atom", "one", "three", "dict", "rthree", "ratom", "rstr"])
            if form in ("str", "sym", "atom", "one", "three"):
                l = {"str": ("s", "ab"), "sym": ("y", "ab"), "atom": ("i", 7), "one": ("l", [("i", 7)]),
                     "three": ("l", [("i", 1), ("i", 2), ("i", 3)])}[form]
                text = "d%d,%s" % (n, lit_text(l))
                mop = ["joinl", ["var", n], ["lit", lit_eval(lit_text(l))]]
                self.objs[d] = None
            elif form == "dict":
                m = rng.choice(self.names())
                text = "d%d,d%d" % (n, m)
                mop = ["joinl", ["var", n], ["var", m]]
                self.objs[d] = None
            else:
                l = {"rthree": ("l", [("i", 1), ("i", 2), ("i", 3)]), "ratom": ("i", 7), "rstr": ("s", "ab")}[form]
                text = "%s,d%d" % (lit_text(l), n)
                mop = ["joinr", ["lit", lit_eval(lit_text(l))], ["var", n]]
            self.emit(text, mop, None, kind)
        elif kind in ("find", "findx"):
            n = rng.choice(self.names())
            d = self.env[n]
            if kind == "findx":
                if rng.random() < 0.5:
                    k = rng.choice(BADKEYS)
                    self.emit("d%d?%s" % (n, lit_text(k)), ["find", ["var", n], ["lit", lit_eval(lit_text(k))]], ("err",), kind)
                else:
                    m = rng.choice(self.names())
                    self.emit("d%d?d%d" % (n, m), ["find", ["var", n], ["var", m]], ("err",), kind)
                return
            k = self.key(d)
            kc = lit_eval(lit_text(k))
            exp = None
            if self.objs[d] is not None:
                exp = ("val", self.objs[d].get(normkey(kc), ["u"]))
            self.emit("d%d?%s" % (n, lit_text(k)), ["find", ["var", n], ["lit", kc]], exp, kind)
        elif kind == "at":
            n = rng.choice(self.names())
            d = self.env[n]
            r = rng.random()
            if r < 0.6:
                k = self.key(d, hit=0.8)
                kc = lit_eval(lit_text(k))
                exp = None
                if self.objs[d] is not None and kc[0] == "i" and normkey(kc) in self.objs[d]:
                    exp = ("val", self.objs[d][normkey(kc)])
                self.emit("d%d@%s" % (n, lit_text(k)), ["at", ["var", n], ["lit", kc]], exp, kind)
            else:
                # a list of keys: only when every stored payload asked for is a scalar (array assembly is C01's subject)
                ks = [k_ for k_ in (self.key(d, hit=0.9) for _ in range(rng.randint(0, 3))) if litable(k_)]
                ks = [k for k in ks if k[0] in ("i", "r")] if rng.random() < 0.5 else ks
                ltxt = "[" + " ".join(lit_text(k, False) for k in ks) + "]"
                kc = lit_eval(ltxt)
                if self.objs[d] is None:
                    return
                vals = [self.objs[d].get(normkey(x)) if normkey(x) is not None else None for x in kc[1:]]
                if any(v is not None and v[0] in ("l", "ref") for v in vals):
                    return
                self.emit("d%d@%s" % (n, ltxt), ["at", ["var", n], ["lit", kc]], None, kind)
        elif kind == "drop":
            n = rng.choice(self.names())
            d = self.env[n]
            if rng.random() < 0.1:
                k = rng.choice(BADKEYS)
                self.emit("%s_d%d" % (lit_text(k), n), ["drop", ["lit", lit_eval(lit_text(k))], ["var", n]], ("err",), kind)
                return
            k = self.key(d, hit=0.75)
            kc = lit_eval(lit_text(k))
            if self.objs[d] is not None:
                self.objs[d].pop(normkey(kc), None)
            self.emit("(%s)_d%d" % (lit_text(k, litable(k) is False), n), ["drop", ["lit", kc], ["var", n]], ("val", ["ref", d]), kind)
        elif kind == "size":
            n = rng.choice(self.names())
            d = self.env[n]
            exp = ("val", ["i", len(self.objs[d])]) if self.objs[d] is not None else None
            self.emit("#d%d" % n, ["size", ["var", n]], exp, kind)
        elif kind == "each":
            n = rng.choice(self.names())
            d = self.env[n]
            exp = ("visits", [(nk, v) for nk, v in self.objs[d].items()]) if self.objs[d] is not None else None
            self.emit("lg'd%d" % n, ["each", ["var", n]], exp, kind)
        elif kind == "eachdo":
            # f'd where f also performs a dictionary operation at every visit (often on d itself)
            n = rng.choice(self.names())
            d = self.env[n]
            m = n if rng.random() < 0.7 else rng.choice(self.names())
            dm = self.env[m]
            what = rng.choice(["joinl", "joinl", "joinr", "drop", "find", "size"])
            exp = None
            if what in ("joinl", "joinr"):
                k = self.key(dm, hit=0.5)
                v = rng.choice(VALUES)
                ptxt = pair_text(k, v)
                pc = lit_eval(ptxt)
                if pc[0] != "l" or len(pc) != 3:
                    return
                itext, imop = ("d%d,%s" % (m, ptxt), ["joinl", ["var", m], ["lit", pc]]) if what == "joinl" else \
                              ("(%s),d%d" % (ptxt, m), ["joinr", ["lit", pc], ["var", m]])
                nk = normkey(pc[1])
                if self.objs[dm] is not None and self.objs[d] is not None and nk is not None and nk in self.objs[dm] and len(self.objs[d]) > 0:
                    # f overwrites an EXISTING key (of d itself, through this or another name, or of another dictionary): no key
                    # appears or disappears, so Each must complete and visit every key exactly once
                    self.objs[dm][nk] = pc[2]
                    exp = ("visitkeys", list(self.objs[d].keys()))
                else:
                    self.objs[dm] = None
                    self.objs[d] = None
            elif what == "drop":
                k = self.key(dm, hit=0.6)
                itext, imop = "(%s)_d%d" % (lit_text(k, litable(k) is False), m), ["drop", ["lit", lit_eval(lit_text(k))], ["var", m]]
                self.objs[dm] = None
                self.objs[d] = None
            elif what == "find":
                k = self.key(dm)
                itext, imop = "d%d?%s" % (m, lit_text(k)), ["find", ["var", m], ["lit", lit_eval(lit_text(k))]]
                exp = ("visits", [(nk, v) for nk, v in self.objs[d].items()]) if self.objs[d] is not None else None
            else:
                itext, imop = "#d%d" % m, ["size", ["var", m]]
                exp = ("visits", [(nk, v) for nk, v in self.objs[d].items()]) if self.objs[d] is not None else None
            self.emit("lgdo'd%d   :\"where lgdo also runs  %s\"" % (n, itext), ["eachdo", ["var", n], imop], exp, kind)
            self.ops[-1]["run"] = "lgdo'd%d" % n
            self.ops[-1]["inner"] = itext

    def sequence(self):
        n = self.rng.randint(max(2, self.maxlen - 4), self.maxlen)
        guard = 0
        while len(self.ops) < n and guard < 10 * n:
            self.step()
            guard += 1
        return self.ops


def scripted():
    """fixed multi-step scenarios (as generator-free op lists built through a scripted Gen)"""
    class Script(Gen):
        pass
    out = []

    def build(fn):
        g = Script(random.Random(0), 99)
        fn(g)
        out.append(g.ops)

    def lit(g, n, pairs):
        el = [("l", [k, v]) for k, v in pairs]
        site = g.nsite
        g.nsite += 1
        o = g.new_obj(el)
        g.env[n] = o
        g.emit("d%d:::{%s}" % (n, " ".join(lit_text(e, False) for e in el)), ["olit", n, site, [lit_raw(e) for e in el]], ("val", ["ref", o]), "lit")

    def join(g, n, k, v, left=True):
        d = g.env[n]
        ptxt = "[%s %s]" % (lit_text(k, False), lit_text(v, False))
        pc = lit_eval(ptxt)
        g.objs[d][normkey(pc[1])] = pc[2]
        if left:
            g.emit("d%d,%s" % (n, ptxt), ["joinl", ["var", n], ["lit", pc]], ("val", ["ref", d]), "joinl")
        else:
            g.emit("(%s),d%d" % (ptxt, n), ["joinr", ["lit", pc], ["var", n]], ("val", ["ref", d]), "joinr")

    def find(g, n, k):
        d = g.env[n]
        kc = lit_eval(lit_text(k))
        g.emit("d%d?%s" % (n, lit_text(k)), ["find", ["var", n], ["lit", kc]], ("val", g.objs[d].get(normkey(kc), ["u"])), "find")

    def drop(g, n, k):
        d = g.env[n]
        kc = lit_eval(lit_text(k))
        g.objs[d].pop(normkey(kc), None)
        g.emit("(%s)_d%d" % (lit_text(k, False), n), ["drop", ["lit", kc], ["var", n]], ("val", ["ref", d]), "drop")

    def size(g, n):
        d = g.env[n]
        g.emit("#d%d" % n, ["size", ["var", n]], ("val", ["i", len(g.objs[d])]), "size")

    def each(g, n):
        d = g.env[n]
        g.emit("lg'd%d" % n, ["each", ["var", n]], ("visits", list(g.objs[d].items())), "each")

    def alias(g, n, m):
        g.env[n] = g.env[m]
        g.emit("d%d::d%d" % (n, m), ["oalias", n, m], ("val", ["ref", g.env[m]]), "alias")

    def deffn(g, fn, pairs):
        el = [("l", [k, v]) for k, v in pairs]
        site = g.nsite
        g.nsite += 1
        g.fns[fn] = el
        g.emit("f%d::{:{%s}}" % (fn, " ".join(lit_text(e, False) for e in el)), ["odef", fn, site, [lit_raw(e) for e in el]], ("fn", site), "deffn")

    def call(g, n, fn):
        o = g.new_obj(g.fns[fn])
        g.env[n] = o
        g.emit("d%d::f%d()" % (n, fn), ["ocall", n, fn], ("val", ["ref", o]), "call")

    A, B = ("c", "a"), ("y", "a")

    # character key stored, symbol of the same text looked up / stored / removed (and the other order)
    def s1(g):
        lit(g, 0, []); join(g, 0, A, ("i", 1)); find(g, 0, B); join(g, 0, B, ("i", 2)); size(g, 0); find(g, 0, A); find(g, 0, B); drop(g, 0, B); find(g, 0, A); each(g, 0)
    def s2(g):
        lit(g, 0, []); join(g, 0, B, ("i", 1)); find(g, 0, A); join(g, 0, A, ("i", 2)); size(g, 0); find(g, 0, B); drop(g, 0, A); find(g, 0, B); size(g, 0)
    def s3(g):
        lit(g, 0, [(A, ("i", 1))]); drop(g, 0, B); size(g, 0); find(g, 0, ("s", "a")); find(g, 0, B)
    def s4(g):
        lit(g, 0, [(("s", "a"), ("i", 1))]); find(g, 0, B); join(g, 0, B, ("i", 5), left=False); size(g, 0); find(g, 0, A); each(g, 0)
    # 1 / 1.0 overwrite keeps one binding, remove + reinsert, alias then update, literal in a function called twice
    def s5(g):
        lit(g, 0, [(("i", 1), ("s", "x"))]); join(g, 0, ("r", 1.0), ("s", "y")); size(g, 0); find(g, 0, ("i", 1)); each(g, 0); drop(g, 0, ("r", 1.0)); size(g, 0); join(g, 0, ("i", 1), ("i", 3), left=False); each(g, 0)
    def s6(g):
        lit(g, 0, [(("i", 1), ("i", 2)), (("i", 3), ("i", 4))]); alias(g, 1, 0); join(g, 1, ("i", 5), ("i", 6)); find(g, 0, ("i", 5)); drop(g, 0, ("i", 1)); find(g, 1, ("i", 1)); size(g, 1)
    def s7(g):
        deffn(g, 10, [(("i", 1), ("i", 2))]); call(g, 0, 10); call(g, 1, 10); join(g, 0, ("i", 1), ("i", 9)); find(g, 1, ("i", 1)); call(g, 2, 10); find(g, 2, ("i", 1)); find(g, 0, ("i", 1)); size(g, 2)
    def s8(g):
        lit(g, 0, [(("i", 1), ("i", 2)), (("i", 3), ("i", 4)), (("i", 5), ("i", 6))]); drop(g, 0, ("i", 3)); join(g, 0, ("i", 3), ("i", 7)); each(g, 0); join(g, 0, ("i", 1), ("i", 8)); each(g, 0); size(g, 0)
    def eachdo_over(g, n, m, k, v):
        d = g.env[n]
        ptxt = "[%s %s]" % (lit_text(k, False), lit_text(v, False))
        pc = lit_eval(ptxt)
        g.objs[g.env[m]][normkey(pc[1])] = pc[2]
        g.emit("lgdo'd%d   :\"where lgdo also runs  d%d,%s\"" % (n, m, ptxt), ["eachdo", ["var", n], ["joinl", ["var", m], ["lit", pc]]],
               ("visitkeys", list(g.objs[d].keys())), "eachdo")
        g.ops[-1]["run"] = "lgdo'd%d" % n
        g.ops[-1]["inner"] = "d%d,%s" % (m, ptxt)

    # f overwrites an existing key of the dictionary Each is walking, through an alias: Each completes, every key once
    def s9(g):
        lit(g, 0, [(("i", 1), ("i", 2)), (("i", 3), ("i", 4)), (("s", "a"), ("i", 6))]); alias(g, 1, 0)
        eachdo_over(g, 0, 1, ("i", 1), ("i", 9)); size(g, 0); find(g, 1, ("i", 1)); eachdo_over(g, 1, 0, ("s", "a"), ("s", "z")); each(g, 0)
        eachdo_over(g, 0, 0, ("r", 3.0), ("i", 5)); find(g, 0, ("i", 3)); size(g, 1)
    for s in (s1, s2, s3, s4, s5, s6, s7, s8, s9):
        build(s)
    return out


# ------------------------------------------------------------------------------------------------ implementation side
def run_impl(ops):
    from klongpy import KlongInterpreter
    k = KlongInterpreter()
    log = []

    def lg(x):
        log.append(x)
        return 0
    k["lg"] = lg
    inner = [None]

    def lgdo(klong, x):
        log.append(x)
        klong(inner[0])
        return 0
    k["lgdo"] = lgdo
    refs = Refs()
    steps = []
    for op in ops:
        del log[:]
        inner[0] = op.get("inner")
        try:
            r = k(op.get("run", op["text"]))
            if op["kind"] in ("each", "eachdo"):
                res = ["visits"] + [canon(x, refs) for x in log]
            elif op["kind"] == "deffn":
                c = canon(r, refs)
                res = ["val", ["f", op["model"][2]]] if c[0] == "f" else ["val", c]
            else:
                res = ["val", canon(r, refs)]
        except Exception as e:  # noqa
            res = ["err"] if op["kind"] != "eachdo" else ["visitserr"] + [canon(x, refs) for x in log]
            op["impl_exc"] = type(e).__name__
        heap = []
        i = 0
        while i < len(refs.objs):      # dumping may discover dictionaries stored inside dictionaries
            heap.append(["d"] + [[canon(a, refs), canon(b, refs)] for a, b in refs.objs[i].items()])
            i += 1
        steps.append((res, heap))
    return steps, k, refs


def written_ok(k, refs):
    """writer.py: a dictionary is written as :{[k v] ...} with every binding exactly once, in its own order, payload
    dictionaries written the same way in place (cyclic ones are skipped: the writer recurses without end on them)"""
    from klongpy.core import kg_write

    def cyclic(d, seen=()):
        if any(d is s_ for s_ in seen):
            return True
        return any(isinstance(v, dict) and cyclic(v, seen + (d,)) for v in d.values())

    def expected(d):
        return ":{" + " ".join("[" + kg_write(a, k._backend) + " " + (expected(b) if isinstance(b, dict) else kg_write(b, k._backend)) + "]"
                               for a, b in d.items()) + "}"
    for d in refs.objs:
        try:
            if cyclic(d):
                continue
            want = expected(d)
            if kg_write(d, k._backend) != want:
                return False, (kg_write(d, k._backend), want)
        except Exception as e:  # noqa
            return False, ("exception", repr(e))
    return True, None


def prop_ok(expect, res):
    """does the implementation's result satisfy what the property prescribes?"""
    if expect is None:
        return True
    if expect[0] == "err":
        return True          # the property does not say how a non-key is rejected; state is compared separately
    if expect[0] == "fn":
        return res[0] == "val" and res[1][0] == "f"
    if expect[0] == "val":
        return res[0] == "val" and res[1] == expect[1]
    if expect[0] == "visitkeys":
        if res[0] != "visits" or len(res) - 1 != len(expect[1]):
            return False
        left = list(expect[1])
        for x in res[1:]:
            if x[0] != "l" or len(x) != 3:
                return False
            vk = normkey(x[1])
            hit = [j for j, nk in enumerate(left) if vk == nk or (vk is not None and vk[0] == "n" and nk[0] == "n" and float(vk[1]) == float(nk[1]))]
            if not hit:
                return False
            left.pop(hit[0])
        return True
    if expect[0] == "visits":
        if res[0] != "visits" or len(res) - 1 != len(expect[1]):
            return False
        left = list(expect[1])
        for x in res[1:]:
            if x[0] != "l" or len(x) != 3:
                return False
            hit = None
            for j, (nk, v) in enumerate(left):
                vk = normkey(x[1])
                same_key = vk == nk or (vk is not None and vk[0] == "n" and nk[0] == "n" and float(vk[1]) == float(nk[1]))
                if same_key and same_mod_homog(x[2], v):
                    hit = j
                    break
            if hit is None:
                return False
            left.pop(hit)
        return True
    return False


def model_request(ops):
    return sx(["run"] + [op["model"] for op in ops])


def sweep(chk, seqs, tag):
    """run sequences on implementation and model; returns (first property failure, first correspondence failure)"""
    reqs = [model_request(ops) for ops in seqs]
    mouts = chk.run_model(reqs)
    bad_prop = bad_corr = None
    seen = set()
    for ops, mo in zip(seqs, mouts):
        steps, k, refs = run_impl(ops)
        chk.count("evaluations", len(ops))
        chk.count(tag + "_sequences")
        sig = tuple(op["text"] for op in ops)
        if sig not in seen and len(ops) >= 2:
            seen.add(sig)
            chk.count("distinct_nontrivial")
        if mo[0] != "ok" or len(mo) - 1 != len(ops):
            raise RuntimeError("model rejected a generated sequence: %r / %r" % (mo, [op["model"] for op in ops]))
        for i, (op, (res, heap), ms) in enumerate(zip(ops, steps, mo[1:])):
            chk.count("op_" + op["kind"])
            mres, mheap = ms[1], ms[2][1:]
            if mres == ["bad"]:
                raise RuntimeError("generator produced an operation outside the model: %s" % op["text"])
            if not prop_ok(op["expect"], res) and bad_prop is None:
                bad_prop = {"kind": "property", "sequence": [o["text"] for o in ops], "failing_step": i, "statement": op["text"],
                            "prescribed": repr(op["expect"]), "implementation": sx(res), "exception": op.get("impl_exc")}
            if (res != mres or heap != mheap) and bad_corr is None:
                bad_corr = {"kind": "correspondence", "sequence": [o["text"] for o in ops], "failing_step": i, "statement": op["text"],
                            "implementation": sx(res), "model": sx(mres), "impl_heap": sx(heap), "model_heap": sx(mheap)}
        ok, why = written_ok(k, refs)
        chk.count("written_dictionaries", len(refs.objs))
        if not ok and bad_prop is None:
            bad_prop = {"kind": "writer", "sequence": [o["text"] for o in ops], "written": why[0], "expected": why[1]}
        if len(ops) >= 4:
            chk.sample({"sequence": [o["text"] for o in ops][:10], "last": sx(steps[-1][0])[:80]}, limit=5)
    return bad_prop, bad_corr


def erase_nan(x, keep_keys=False):
    """forget NaN object ids everywhere except (keep_keys) in the key position of a dumped dictionary entry"""
    if isinstance(x, list):
        if x and x[0] == "nan":
            return ["nan", 0]
        if keep_keys and x and x[0] == "d":
            return ["d"] + [[e[0] if e[0][:1] == ["nan"] else erase_nan(e[0]), erase_nan(e[1])] for e in x[1:]]
        return [erase_nan(e, keep_keys) for e in x]
    return x


def nan_check(chk):
    """NaN keys: Python finds a NaN key by object identity only.  Model (VNan oid) vs implementation exactly; the Klong-level
    reading of the property (a program cannot tell NaNs apart) is the KNOWN FINDING C10-nan-key."""
    from klongpy import KlongInterpreter
    k = KlongInterpreter()
    log = []
    k["lg"] = lambda x: (log.append(x), 0)[1]
    k("nn::1.0e400-1.0e400")
    refs = Refs()
    refs.register_nan(k("nn"), 500)
    NN, EX = "nn", "(1.0e400-1.0e400)"
    one, two = ["r", 1, 0], ["r", 1, 1]
    S, T = ["s", 115], ["s", 116]
    # (statement, model op, what the Klong-level reading prescribes or None)
    script = [
        ("d0:::{}", ["olit", 0, 0, []], None),
        ("d0,%s,,1" % NN, ["joinl", ["var", 0], ["lit", ["l", ["nan", 0], one]]], None),
        ("d0?%s" % NN, ["find", ["var", 0], ["lit", ["nan", 500]]], ["val", one]),
        ("d0,%s,,2" % NN, ["joinl", ["var", 0], ["lit", ["l", ["nan", 1], two]]], None),
        ("#d0", ["size", ["var", 0]], ["val", ["i", 1]]),
        ('d0,%s,,"s"' % NN, ["joinl", ["var", 0], ["lit", ["l", ["nan", 500], S]]], None),
        ("d0?%s" % NN, ["find", ["var", 0], ["lit", ["nan", 500]]], ["val", S]),
        ("#d0", ["size", ["var", 0]], ["val", ["i", 1]]),
        ("(%s)_d0" % NN, ["drop", ["lit", ["nan", 500]], ["var", 0]], None),
        ("#d0", ["size", ["var", 0]], ["val", ["i", 0]]),
        ("lg'd0", ["each", ["var", 0]], None),
        ("d0?%s" % EX, ["find", ["var", 0], ["lit", ["nan", 501]]], None),
        ('(%s,,"t"),d0' % EX, ["joinr", ["lit", ["l", ["nan", 2], T]], ["var", 0]], None),
        ("d0?%s" % EX, ["find", ["var", 0], ["lit", ["nan", 502]]], ["val", T]),
        ("#d0", ["size", ["var", 0]], ["val", ["i", 1]]),
    ]
    impl = []
    for text, mop, want in script:
        del log[:]
        try:
            r = k(text)
            res = ["visits"] + [canon(x, refs) for x in log] if text.startswith("lg'") else ["val", canon(r, refs)]
        except Exception:  # noqa
            res = ["err"]
        heap = [["d"] + [[canon(a, refs, key=True), canon(b, refs)] for a, b in o.items()] for o in refs.objs]
        impl.append((res, heap))
    mo = chk.run_model([sx(["run"] + [m for _, m, _ in script])])[0]
    if mo[0] != "ok":
        raise RuntimeError("model rejected the NaN script: %r" % (mo,))
    fails = []
    for i, ((text, mop, want), (res, heap), ms) in enumerate(zip(script, impl, mo[1:])):
        chk.count("evaluations")
        chk.count("nan_steps")
        mres, mheap = erase_nan(ms[1]), erase_nan(ms[2][1:], keep_keys=True)
        if res != mres or heap != mheap:
            chk.violation("NaN keys: `%s` (step %d of the replayed script) gives %s with dictionaries %s; the model, which finds a NaN key by object identity only, gives %s / %s"
                          % (text, i, sx(res), sx(heap), sx(mres), sx(mheap)),
                          {"kind": "nan-correspondence", "sequence": [t for t, _, _ in script][:i + 1], "failing_step": i})
            return
        if want is not None and res != want:
            fails.append("`%s` gives %s, prescribed %s" % (text, sx(res), sx(want)))
    if fails:
        chk.finding("C10-nan-key", "NaN as a key: " + "; ".join(fails[:3]),
                    {"kind": "nan-key", "sequence": [t for t, _, _ in script], "failures": fails})


def make_sequences(seed, count, maxlen):
    rng = random.Random(seed)
    return [Gen(rng, maxlen).sequence() for _ in range(count)]


def run(tier, replay=None):
    chk = Check("C10", tier)
    chk.generate(generate())
    chk.build_model()
    hits = forbidden_scan("C10")
    proof = chk.build_proofs()
    if hits:
        proof["ok"] = False
        proof["error"] = "forbidden declarations: %r" % hits
        proof["broken"] = hits[0]
    count, maxlen = (1500, 8) if tier == "quick" else (12000, 12)
    seqs = scripted() + make_sequences(chk.seed * 7919 + 10, count, maxlen)
    nan_check(chk)
    bad_prop, bad_corr = sweep(chk, seqs, "main")
    if bad_prop is None and (bad_corr is not None or not proof["ok"]):
        # something is off: look harder for an input on which the property itself fails
        more = make_sequences(chk.seed * 104729 + 77, 4 * count, maxlen + 2)
        bp2, bc2 = sweep(chk, more, "search")
        bad_prop = bp2
        bad_corr = bad_corr or bc2
    if bad_prop is not None:
        chk.violation("dictionary does not behave as a finite map: step %s `%s` of the replayed sequence gives %s, the property prescribes %s"
                      % (bad_prop.get("failing_step"), bad_prop.get("statement"), bad_prop.get("implementation", bad_prop.get("written")),
                         bad_prop.get("prescribed", bad_prop.get("expected"))), bad_prop)
    elif bad_corr is not None:
        chk.violation("correspondence between klongpy and the Coq dictionary model broke at `%s`; no failing input of the property found in %d operations"
                      % (bad_corr["statement"], chk.counters.get("evaluations", 0)),
                      {"broken": "correspondence C10/Model.v", "detail": bad_corr}, no_input=True)
    elif not proof["ok"]:
        chk.violation("proof obligation no longer checks: %s" % proof["broken"],
                      {"broken_obligation": proof["broken"], "coq_error": proof["error"], "generated": chk.generated_text}, no_input=True)
    return chk.finish(
        rule="8 scripted multi-step scenarios + seeded random operation sequences (length <= %d) over 1-4 names and 2 functions: literal, literal in a "
             "function called repeatedly, alias, add/overwrite from either side (payloads of every kind incl. dictionaries), find, index (integer and list), "
             "remove, size, each (visit log), unhashable keys, Join forms outside the property text; keys: ints, reals, chars, strings, symbols incl. every "
             "cross-kind collision candidate. Compared after every step: result and full contents (order, key objects) of every dictionary object vs. the "
             "extracted model, and vs. an independent Python-dict oracle. distinct = distinct statement sequences of length >= 2" % maxlen,
        trusted_base=TRUSTED, assumptions=ASSUME)


def replay(path):
    body = json.load(open(path))
    rp = body.get("replay", {})
    seq = rp.get("sequence") or rp.get("detail", {}).get("sequence")
    print(json.dumps(body, indent=1)[:3000])
    if not seq:
        return 0
    from klongpy import KlongInterpreter
    k = KlongInterpreter()
    k["lg"] = lambda x: 0
    for s in seq:
        try:
            print("  %-30s -> %r" % (s, k(s)))
        except Exception as e:  # noqa
            print("  %-30s -> raises %s: %s" % (s, type(e).__name__, e))
    return 0
