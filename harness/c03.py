"""C03 — function application, projection, locals and conditionals follow substitution.

Link 1 (Coq): coq/C03/Properties.v
Link 2 (here): the real KlongInterpreter (fresh per case, run in a child process) and the real
klongpy.types.merge_projections against the extracted model, on enumerated programs.

The model starts from the syntax tree the real parser produced (`to_term`), so parsing is outside C03.
"""
import ast
import itertools
import json
import os
import random
import subprocess
import sys

from . import astlib
from .astlib import ShapeError
from .common import Check, sx, parse_sx, forbidden_scan, PY, VERIF, REPO

TRUSTED = [
    "Coq 8.16.1 kernel (coqc); vm_compute only in Examples and _refuted witnesses",
    "Print Assumptions: all C03 theorems closed under the global context (no axioms)",
    "translator harness/c03.py:generate (Python ast): try/finally/pop skeleton of KlongInterpreter._eval_fn, number of _resolve_fn passes, loop skeleton of merge_projections",
    "extraction: ExtrOcamlBasic only; Z kept as inductive; ocaml/driver.ml",
    "harness/c03.py:to_term (real syntax tree / values -> model terms), the program generators and comparators",
    "the real parser (KlongInterpreter.prog) produces the trees the model evaluates (parsing is C12's subject)",
]
ASSUME = [
    "NumPy ufunc / indexing behaviour of + - * , # @ = < on the value universe is modelled (Model.apply1/apply2) and sampled exhaustively over the universe by the op shard; combinations outside the modelled domain are EUnmodelled and skipped (counted)",
    "system scopes, modules, adverbs, Python callables, dictionaries and the compiled fast path are outside the C03 model (C02, C04, C05, C09, C10); generated programs keep every operator node type-stable so compiled = interpreted",
    "T3.subst is proved for the pure expression grammar (x y z, globals, literals, + - * , # = <, conditionals) with data arguments; other bodies are validated by the correspondence only",
]

OP1 = {'-': 0, '#': 1, ',': 2}
OP2 = {'+': 0, '-': 1, '*': 2, ',': 3, '@': 4, '=': 5, '<': 6, '::': 7}
RESERVED = {'x': 0, 'y': 1, 'z': 2, '.f': 3}
# Python callables known to the model's oracle table (Run.v pyfun), by function name
PYIDS = {'boom': 0, 'pyid': 1, 'pyadd': 2, 'eval_sys_from_channel': 10}


def name_code(s):
    s = str(s)
    if s in RESERVED:
        return RESERVED[s]
    return 100 + int.from_bytes(s.encode("utf-8"), "big")


def code_name(c):
    for k, v in RESERVED.items():
        if v == c:
            return k
    n = c - 100
    return n.to_bytes((n.bit_length() + 7) // 8, "big").decode("utf-8")


class Unsupported(Exception):
    pass


def to_term(v):
    """real syntax tree node / runtime value -> nested python lists in the Run.v term encoding"""
    import numpy as np
    from klongpy.core import KGSym, KGChar, KGFn, KGCall, KGOp, KGCond, KGLambda, KGExprArray, is_char
    if v is None:
        return ["n"]
    if isinstance(v, (bool, np.bool_)):
        return ["i", int(v)]
    if isinstance(v, (int, np.integer)):
        return ["i", int(v)]
    if isinstance(v, (float, np.floating)):
        import struct
        return ["r", struct.unpack(">Q", struct.pack(">d", float(v)))[0]]
    if isinstance(v, KGLambda):
        name = getattr(v.fn, "__name__", None)
        if name not in PYIDS:
            raise Unsupported("python callable " + str(name))
        return ["py", PYIDS[name], [name_code(a) for a in v.args]]
    if is_char(v):      # klongpy.types.KGChar and the backend's own KGChar class
        return ["c", ord(str(v))]
    if isinstance(v, KGSym):
        return ["y", name_code(v)]
    if isinstance(v, str):
        return ["s"] + [ord(c) for c in v]
    if isinstance(v, np.ndarray):
        if v.ndim == 0:
            return to_term(v.item())
        return ["a"] + [to_term(e) for e in v]
    if isinstance(v, KGCond):
        if len(v) != 3:
            raise Unsupported("cond arity")
        return ["q"] + [to_term(e) for e in v]
    if isinstance(v, KGExprArray):
        raise Unsupported("expr array")
    if isinstance(v, list):
        return ["p"] + [to_term(e) for e in v]
    if isinstance(v, KGFn):
        if v.is_op():
            op, ar = v.a.a, v.a.arity
            if ar == 1:
                if op not in OP1 or type(v.args) is list:
                    raise Unsupported("monad " + str(op))
                return ["o1", OP1[op], to_term(v.args)]
            if ar == 2:
                if op not in OP2 or not isinstance(v.args, list) or len(v.args) != 2:
                    raise Unsupported("dyad " + str(op))
                return ["o2", OP2[op], to_term(v.args[0]), to_term(v.args[1])]
            raise Unsupported("op arity")
        if v.is_adverb_chain():
            raise Unsupported("adverb")
        if v.args is None:
            args = [0]
        elif isinstance(v.args, list):
            args = [1] + [to_term(e) for e in v.args]
        else:
            args = [1, to_term(v.args)]
        return ["f", 1 if isinstance(v, KGCall) else 0, to_term(v.a), args, int(v.arity)]
    raise Unsupported(type(v).__name__)


# ---------------------------------------------------------------- translator
def generate():
    out = []

    def eval_fn_flags():
        m = astlib.module("klongpy/interpreter.py")
        cls = astlib.find_class(m, "KlongInterpreter")
        fn = astlib.find_func(cls, "_eval_fn")
        body = astlib.body_no_doc(fn)
        # exactly three `f, f_args, f_arity = self._resolve_fn(f, f_args, f_arity)` passes
        passes = 0
        for st in body:
            if isinstance(st, ast.Assign) and isinstance(st.value, ast.Call) and \
                    isinstance(st.value.func, ast.Attribute) and st.value.func.attr == "_resolve_fn":
                passes += 1
        # the push is the statement right before a Try whose finalbody is exactly `self._context.pop()`
        pushes = [i for i, st in enumerate(body) if isinstance(st, ast.Expr) and isinstance(st.value, ast.Call)
                  and ast.unparse(st.value.func) == "self._context.push"]
        if len(pushes) != 1:
            raise ShapeError("_eval_fn: expected exactly one self._context.push(...) statement")
        i = pushes[0]
        if i + 1 >= len(body):
            raise ShapeError("_eval_fn: nothing after push")
        nxt = body[i + 1]
        pops_anywhere = [c for c in astlib.calls_in(fn, "pop") if ast.unparse(c.func) == "self._context.pop"]
        in_finally = False
        if isinstance(nxt, ast.Try):
            fb = nxt.finalbody
            in_finally = (len(fb) == 1 and isinstance(fb[0], ast.Expr) and isinstance(fb[0].value, ast.Call)
                          and ast.unparse(fb[0].value.func) == "self._context.pop" and not nxt.handlers)
            # the body of the try must be the evaluation (a single return)
            if not (len(nxt.body) == 1 and isinstance(nxt.body[0], ast.Return)):
                raise ShapeError("_eval_fn: try body is not a single return")
            if i + 2 != len(body):
                raise ShapeError("_eval_fn: statements after the try")
        if len(pops_anywhere) != 1:
            raise ShapeError("_eval_fn: expected exactly one self._context.pop()")
        # the arguments are evaluated (self.call(q)) before the push
        arg_eval_before_push = any("self.call(q)" in ast.unparse(st) for st in body[:i])
        return passes, in_finally, arg_eval_before_push

    fl, why = astlib.try_flag(eval_fn_flags)
    if fl is None:
        out.append("(* _eval_fn shape not recognised: %s *)" % why)
        out.append("Definition eval_fn_pop_in_finally : bool := false.")
        out.append("Definition resolve_passes : nat := 0.")
        out.append("Definition args_evaluated_before_push : bool := false.")
    else:
        passes, in_finally, before = fl
        out.append("Definition eval_fn_pop_in_finally : bool := %s." % astlib.coq_bool(in_finally))
        out.append("Definition resolve_passes : nat := %d." % passes)
        out.append("Definition args_evaluated_before_push : bool := %s." % astlib.coq_bool(before))

    def truth_flag():
        m = astlib.module("klongpy/interpreter.py")
        cls = astlib.find_class(m, "KlongInterpreter")
        fn = astlib.find_func(cls, "eval")
        hits = []
        for n in ast.walk(fn):
            if isinstance(n, ast.If) and ast.unparse(n.test) == "isinstance(x, KGCond)":
                hits.append(n)
        if len(hits) != 1:
            raise ShapeError("eval: expected one `isinstance(x, KGCond)` branch")
        body = hits[0].body
        # q = self.call(x[0]); p = not ((is_number(q) and q == 0) or is_empty(q)); return call(x[1]) if p else call(x[2])
        if len(body) != 3:
            raise ShapeError("KGCond branch: expected three statements")
        if not (ast.unparse(body[0]) == "q = self.call(x[0])" and
                ast.unparse(body[2]) == "return self.call(x[1]) if p else self.call(x[2])"):
            return False
        test = ast.unparse(body[1])
        if test == "p = not (self._backend.is_number(q) and q == 0 or is_empty(q))":
            return True          # the test written inline (pinned tree)
        if test != "p = kg_is_true(q, self._backend)":
            return False
        # the test lives in types.kg_is_true (cf601c6): pin its body as well, and that no other kg_is_true shadows it
        tm = astlib.module("klongpy/types.py")
        kt = astlib.find_func(tm, "kg_is_true")
        kb = astlib.body_no_doc(kt)
        if [a.arg for a in kt.args.args] != ["q", "backend"] or len(kb) != 1 or not isinstance(kb[0], ast.Return):
            return False
        if ast.unparse(kb[0]) != "return not (backend.is_number(q) and q == 0 or is_empty(q))":
            return False
        for n in m.body:
            if isinstance(n, (ast.FunctionDef, ast.Assign)) and "kg_is_true" in ast.unparse(n).split("(")[0]:
                return False
        return True
    tf, why = astlib.try_flag(truth_flag)
    out.append("Definition cond_zero_test_is_exact : bool := %s.%s" % (
        astlib.coq_bool(bool(tf)), "" if why is None else "  (* shape not recognised: %s *)" % why))

    def merge_flags():
        m = astlib.module("klongpy/types.py")
        fn = astlib.find_func(m, "merge_projections")
        # does the index into the sparse argument list restart for every further argument list?
        loops = [n for n in ast.walk(fn) if isinstance(n, (ast.For, ast.While))]
        if not loops:
            raise ShapeError("merge_projections: no loop")
        outer = None
        for st in astlib.body_no_doc(fn):
            if isinstance(st, (ast.For, ast.While)):
                outer = st
        if outer is None:
            raise ShapeError("merge_projections: no top-level loop")
        restarts = any(isinstance(st, ast.Assign) and len(st.targets) == 1 and isinstance(st.targets[0], ast.Name)
                       and st.targets[0].id == "i" and isinstance(st.value, ast.Constant) and st.value.value == 0
                       for st in outer.body)
        # the pinned tree skipped holes of the argument list after a store: `while j < len(fa) and safe_eq(fa[j], None)`
        skips = any(isinstance(n, ast.While) and "safe_eq(fa[j], None)" in ast.unparse(n.test) for n in ast.walk(fn))
        return restarts and not skips
    mf, why = astlib.try_flag(merge_flags)
    out.append("Definition merge_restarts_per_fill : bool := %s.%s" % (
        astlib.coq_bool(bool(mf)), "" if why is None else "  (* shape not recognised: %s *)" % why))
    return "\n".join(out) + "\n"


# ---------------------------------------------------------------- child process: run cases on the real interpreter
CHILD = r'''
import sys, json
sys.path.insert(0, %(verif)r)
sys.setrecursionlimit(3000)
from klongpy import KlongInterpreter
from harness.c03 import to_term, Unsupported
from harness.common import sx

def snap(k):
    frames = list(k._context._context)[:-2]
    out = []
    for d in frames:
        fr = []
        for key, val in d.items():
            fr.append([to_term(key)[1], to_term(val)])
        fr.sort(key=lambda kv: kv[0])
        out.append(fr)
    return out

def boom(x):
    raise ValueError("boom")

def pyid(x):
    return x

def pyadd(x, y):
    return x + y

def new_interp():
    k = KlongInterpreter()
    k['boom'] = boom
    k['pyid'] = pyid
    k['pyadd'] = pyadd
    return k

def init_frames():
    from klongpy.core import KGSym
    k = new_interp()
    g = sx(snap(k)[0])
    sysf = sx([[to_term(KGSym('.fc'))[1], to_term(k._context[KGSym('.fc')])]])
    return g, sysf

def run_case(stmts):
    k = new_interp()
    kp = KlongInterpreter()
    res = []
    for text in stmts:
        rec = {}
        try:
            i, prog = kp.prog(text)
            if i < len(text.rstrip()):
                rec["parse"] = "trailing text at %%d" %% i
            tree = prog[0] if len(prog) == 1 else prog
            rec["term"] = sx(to_term(tree))
        except Unsupported as e:
            rec["term"] = None
            rec["unsupported"] = str(e)
        except Exception as e:
            rec["term"] = None
            rec["parse"] = type(e).__name__
        d0 = len(k._context._context) - 2
        try:
            r = k(text)
            try:
                rec["r"] = sx(["ok", to_term(r)])
            except Unsupported as e:
                rec["r"] = "UNSUPPORTED " + str(e)
        except RecursionError:
            rec["r"] = "RECURSION"
        except Exception as e:
            rec["r"] = "EXC " + type(e).__name__
        rec["d0"] = d0
        rec["d1"] = len(k._context._context) - 2
        try:
            rec["frames"] = sx(snap(k))
        except Unsupported as e:
            rec["frames"] = "UNSUPPORTED " + str(e)
        res.append(rec)
    return res

def run_merge(arrs):
    from klongpy.core import merge_projections
    import numpy as np
    out = []
    for arr in arrs:
        a = [None if x is None else list(x) for x in arr]
        try:
            r = merge_projections(a)
            if r is None:
                out.append("(list (0))")
            elif isinstance(r, list):
                out.append(sx(["list", [1] + [to_term(e) for e in r]]))
            else:
                out.append(sx(["arr"] + [to_term(e) for e in r]))
        except Exception as e:
            out.append("(err)")
    return out

req = json.load(sys.stdin)
out = {"cases": [run_case(c) for c in req.get("cases", [])], "merge": run_merge(req.get("merge", [])), "init": init_frames()}
json.dump(out, sys.stdout)
'''


def run_child(cases, merge=()):
    env = dict(os.environ, PYTHONPATH=REPO + ":" + VERIF, PYTHONHASHSEED="0")
    p = subprocess.run([PY, "-W", "ignore", "-c", CHILD % {"verif": VERIF}], input=json.dumps({"cases": cases, "merge": list(merge)}).encode(),
                       stdout=subprocess.PIPE, stderr=subprocess.PIPE, env=env, timeout=3000)
    if p.returncode != 0:
        raise RuntimeError("C03 child failed: " + p.stderr.decode()[-2000:])
    return json.loads(p.stdout.decode())


_INIT = {}


def init_frames_sx():
    if "v" not in _INIT:
        _INIT["v"] = run_child([])["init"]
    return _INIT["v"]


def run_child_sharded(cases, shards=4):
    """split the cases over a few child processes (fresh interpreter per case anyway)"""
    if len(cases) < 400 or shards <= 1:
        return run_child(cases)["cases"]
    import concurrent.futures
    n = (len(cases) + shards - 1) // shards
    parts = [cases[i:i + n] for i in range(0, len(cases), n)]
    with concurrent.futures.ThreadPoolExecutor(max_workers=shards) as ex:
        outs = list(ex.map(lambda part: run_child(part)["cases"], parts))
    return [c for o in outs for c in o]


# ---------------------------------------------------------------- generators
# the value universe (literal texts); FALSY per the property text: 0, [] and ""
VALS = ['0', '1', '7', '-3', '[]', '[1 2]', '[3 4 5]', '""', '"ab"', '0cq', ':foo', '[[1 2] [3 4]]', '[1 "a"]', '[[1] 2]']
FALSY = {'0', '[]', '""'}
GLOBALS = ['a::2', 'b::[1 2]']


class E:
    """expression tree of the closed grammar; render(subst) gives Klong text"""
    def __init__(self, kind, *kids):
        self.kind, self.kids = kind, kids

    def render(self, sub=None):
        k = self.kind
        if k == 'atom':
            t = self.kids[0]
            if sub and t in sub:
                return "(" + sub[t] + ")"
            return t
        if k == 'm':
            return "(%s%s)" % (self.kids[0], self.kids[1].render(sub))
        if k == 'd':
            return "(%s%s%s)" % (self.kids[1].render(sub), self.kids[0], self.kids[2].render(sub))
        if k == 'c':
            return ":[%s;%s;%s]" % tuple(x.render(sub) for x in self.kids)
        raise ValueError(k)

    def params(self):
        if self.kind == 'atom':
            return {self.kids[0]} & {'x', 'y', 'z'}
        s = set()
        for x in self.kids:
            if isinstance(x, E):
                s |= x.params()
        return s


ATOMS = ['x', 'y', 'z', 'a', 'b', '1', '"ab"', '[3 4 5]']
MONADS = ['-', '#', ',']
DYADS = ['+', '-', '*', ',', '@', '=', '<']


def all_depth1():
    at = [E('atom', t) for t in ATOMS]
    out = list(at)
    for m in MONADS:
        out += [E('m', m, a) for a in at]
    for d in DYADS:
        out += [E('d', d, a, b) for a in at for b in at]
    return at, out


def rand_expr(rng, depth):
    if depth == 0 or rng.random() < 0.15:
        return E('atom', rng.choice(ATOMS))
    r = rng.random()
    if r < 0.2:
        return E('m', rng.choice(MONADS), rand_expr(rng, depth - 1))
    if r < 0.8:
        return E('d', rng.choice(DYADS), rand_expr(rng, depth - 1), rand_expr(rng, depth - 1))
    return E('c', rand_expr(rng, depth - 1), rand_expr(rng, depth - 1), rand_expr(rng, depth - 1))


def arity_of(e):
    # what get_fn_arity computes: the number of distinct x,y,z mentioned
    return len(e.params())


def family_calls(rng, tier):
    """(case statements, meta) — meta tells the comparator which statements must agree (property oracle)"""
    at, d1 = all_depth1()
    bodies = list(d1)
    # all conditionals over atoms for a reduced atom set, then seeded depth-2/3 trees
    small = [E('atom', t) for t in ['x', 'y', 'a', '1']]
    bodies += [E('c', p, q, r) for p in small for q in small for r in small]
    n_rand = 700 if tier == "quick" else (2500 if tier == "escalate" else 12000)
    for _ in range(n_rand):
        bodies.append(rand_expr(rng, rng.choice([2, 2, 3])))
    per_body = 2 if tier == "quick" else (3 if tier == "escalate" else 6)
    for e in bodies:
        ps = sorted(e.params())
        ar = len(ps)
        if ar == 0:
            continue
        for _ in range(per_body):
            argv = [rng.choice(VALS) for _ in range(ar)]
            sub = dict(zip(ps, argv))
            body = e.render()
            args = ";".join(argv)
            stmts = list(GLOBALS) + ['f::{%s}' % body, 'f(%s)' % args, '{%s}(%s)' % (body, args),
                                     'f@[%s]' % " ".join(argv), e.render(sub)]
            # x,y,z are bound in order of the distinct names present: {y+z} called with 2 arguments binds x,y (not y,z)!
            # the parser's arity counts names, the call binds positionally; substitute accordingly
            pos = dict(zip(['x', 'y', 'z'], argv))
            stmts[-1] = e.render({p: pos[p] for p in ps if p in pos})
            unbound_param = any(p not in pos for p in ps)
            same = [3, 4, 5, 6] if not unbound_param else [3, 4, 5]
            if (ar > 1 and any(v.startswith('[') for v in argv)) or '[[1] 2]' in argv:
                # several lists inside one list literal change representation (a ragged nested literal keeps Python lists
                # as elements, a mixed one turns integer rows into object rows): literal representation is outside C03,
                # so the @ form is used with one argument or with atoms only
                stmts[5] = '0'
                same.remove(5)
            if rng.random() < 0.5:
                # call the function once with plain integers first: a compilation kept on an inner node of the body
                # must not change what the later calls give
                stmts.insert(3, 'f(%s)' % ";".join(str(rng.randint(1, 9)) for _ in range(ar)))
                same = [i + 1 for i in same]
                yield stmts, {"family": "calls", "same": same, "no_change_from": 4}
            else:
                yield stmts, {"family": "calls", "same": same, "no_change_from": 3}


REC = [
    ('{:[x=0;0;x+.f(x-1)]}', 1, lambda x: x * (x + 1) // 2),
    ('{:[x<1;y;.f(x-1;y*2)]}', 2, lambda x, y: y * 2 ** x),
    ('{:[x=0;y;.f(x-1;y,x)]}', 2, None),
    ('{[t];t::x;:[x=0;0;t+.f(x-1)]}', 1, lambda x: x * (x + 1) // 2),
]


def family_rec(rng, tier):
    for body, ar, fn in REC:
        for n in range(0, 6):
            args = [str(n)] + (['3'] if ar == 2 else [])
            stmts = list(GLOBALS) + ['t::99', 'f::%s' % body, 'f(%s)' % ";".join(args), '%s(%s)' % (body, ";".join(args)), 't']
            exp = None
            if fn is not None:
                exp = fn(*[int(a) for a in args])
            yield stmts, {"family": "rec", "same": [4, 5], "expect_int": (4, exp) if exp is not None else None, "no_change_from": 4}


SCOPE = [
    # a declared local that has the name of a parameter does not hide the parameter
    (['f::{[x t];t::x;t+1}', 'f(5)'], (1, 6)),
    (['h::{[y];x+y}', 'h(1;2)'], (1, 3)),
    (['h::{[z y x];(x*100)+(y*10)+z}', 'h(1;2;3)'], (1, 123)),
    # assigning x y z inside a function changes that function's own parameter only
    (['f::{x::x+1;x}', 'g::{[t];t::f(x);x+t*10}', 'g(5)'], (2, 65)),
    (['x::100', 'f::{x::x+1;x}', 'f(1)', 'x'], (3, 100)),
    (['x::100', 'f::{x::x+1;x}', 'f(1)', 'x'], (2, 2)),
    (['f::{y::7;y}', 'g::{[t];t::f(x);y+t*10}', 'g(1;2)'], (2, 72)),
    (['f::{z::x;z}', 'g::{f(9);z}', 'g(1;2;3)'], (2, 3)),
    # a local of the caller is visible to the callee (dynamic scope) but a parameter of the callee hides it
    (['f::{x}', 'g::{[t];t::x;f(t+1)}', 'g(4)'], (2, 5)),
]


# FIXED corpus: the witness of every repaired C03 defect, with the value the property prescribes; runs first in every tier
FIXED = [
    # a4df9a2 projection fill order
    (['f::{x,y,z}', 'g::f(1;;)', 'h::g(;2)', 'h(3)'], 3, '(ok (a (i 1) (i 3) (i 2)))'),
    (['f::{x,y,z}', 'g::f(;;)', 'h::g(1;;3)', 'h(2)'], 3, '(ok (a (i 1) (i 2) (i 3)))'),
    # b482ce5 projection holding a list argument
    (['f::{x,y,z}', 'g::f(;[4 5];)', 'g(1;2)'], 2, '(ok (a (i 1) (i 4) (i 5) (i 2)))'),
    # 4692626 a conditional is not a local declaration
    (['a::0', 'b::5', 'c::1', '{:[:[a;b;c];1;2]}()'], 3, '(ok (i 1))'),
    (['{:[:[[3 4 5];x;y];1;2]}(0;0)'], 0, '(ok (i 2))'),
    (['{:[:[[3 4 5];x;y];1;2]}(7;0)'], 0, '(ok (i 1))'),
    # dc700d6 recursion through .f has its own declared locals
    (['{[t];t::x;:[x=0;0;t+.f(x-1)]}(3)'], 0, '(ok (i 6))'),
    (['{[a];a::x;:[x>0;.f(x-1);0];a}(3)'], 0, '(ok (i 3))'),
    # 9f7189e a monad applied to a conditional applies to the value of the selected branch
    (['-:[1;5;6]'], 0, '(ok (i -5))'),
    (['-:[0;5;6]'], 0, '(ok (i -6))'),
    (['-(:[0;5;6])'], 0, '(ok (i -6))'),
    (['#:[0;"abc";"de"]'], 0, '(ok (i 2))'),
    (['#(:[1;"abc";"de"])'], 0, '(ok (i 3))'),
    (['~:[1;0;5]'], 0, '(ok (i 1))'),
    (['*:[0;[7 8];[9 8]]'], 0, '(ok (i 9))'),
    (['|:[1;[1 2];[3 4]]'], 0, '(ok (a (i 2) (i 1)))'),
    (['{-:[x;y;z]}(1;2;3)', '{-:[x;y;z]}(0;2;3)'], 1, '(ok (i -3))'),
    (['{-:[x;y;z]}(1;2;3)'], 0, '(ok (i -2))'),
    (['f::{#:[x;y;z]}', 'f(0;"ab";"cde")', 'f(1;"ab";"cde")'], 2, '(ok (i 2))'),
    (['f::{#:[x;y;z]}', 'f(0;"ab";"cde")'], 1, '(ok (i 3))'),
    (['m::0', '-:[1;m::5;m::6]', 'm'], 2, '(ok (i 5))'),
    (['x::3', '-:[x;5;6]'], 1, '(ok (i -5))'),
    # a1b9850 arity counts parameters under monads
    (['{x(3)}({-x})'], 0, '(ok (i -3))'),
    (['g::{x(4)}', 'g({#x})'], 1, '(ok (i 4))'),
]


def family_fixed(rng, tier):
    for stmts, i, want in FIXED:
        yield list(stmts), {"family": "fixed", "expect_sx": (i, want), "oracle_only": True}


# a name that is at the same time a global and a local of an outer ACTIVE function, assigned without declaration in a callee
# at depth 2 and 3: `::` takes the first scope that has the name, searching from the running function outwards
SCOPE_NESTED = [
    # (operands of a dyad are evaluated right to left, so the call is sequenced through a local t before the name is read)
    (['a::1', 'g::{a::x;a}', 'f::{[a t];a::10;t::g(x);t,a}', 'f(5)', 'a'], 3, '(ok (a (i 5) (i 5)))'),
    (['a::1', 'g::{a::x;a}', 'f::{[a t];a::10;t::g(x);t,a}', 'f(5)', 'a'], 4, '(ok (i 1))'),
    (['a::1', 'g::{a::x;a}', 'f::{[a];a::10;g(x)}', 'f(7)', 'a'], 3, '(ok (i 7))'),
    (['a::1', 'g::{a::x;a}', 'f::{[a];a::10;g(x)}', 'f(7)', 'a'], 4, '(ok (i 1))'),
    (['a::1', 'g::{a::x;a}', 'f::{[a];a::10;g(x)}', 'f2::{[a t];a::20;t::f(x);t,a}', 'f2(8)', 'a'], 4, '(ok (a (i 8) (i 20)))'),
    (['a::1', 'g::{a::x;a}', 'f::{[a];a::10;g(x)}', 'f2::{[a t];a::20;t::f(x);t,a}', 'f2(8)', 'a'], 5, '(ok (i 1))'),
    (['a::1', 'h::{a::x;a}', 'g::{[t];t::h(x);t,a}', 'f::{[a t];a::10;t::g(x);t,a}', 'f(5)', 'a'], 4, '(ok (a (i 5) (i 5) (i 5)))'),
    (['a::1', 'h::{a::x;a}', 'g::{[t];t::h(x);t,a}', 'f::{[a t];a::10;t::g(x);t,a}', 'f(5)', 'a'], 5, '(ok (i 1))'),
    (['a::1', 'h::{a::x;a}', 'g::{[b t];b::0;t::h(x);t,a}', 'f::{[t];t::g(x);t,a}', 'f(5)', 'a'], 4, '(ok (a (i 5) (i 5) (i 5)))'),
    (['a::1', 'h::{a::x;a}', 'g::{[b t];b::0;t::h(x);t,a}', 'f::{[t];t::g(x);t,a}', 'f(5)', 'a'], 5, '(ok (i 5))'),
    (['a::1', 'g::{a::x;a}', 'w::{[b t];b::10;t::g(x);t,a}', 'w(6)', 'a'], 3, '(ok (a (i 6) (i 6)))'),
    (['a::1', 'g::{a::x;a}', 'w::{[b t];b::10;t::g(x);t,a}', 'w(6)', 'a'], 4, '(ok (i 6))'),
    (['a::1', 'g::{[a];a::x;a}', 'f::{[a t];a::10;t::g(x);t,a}', 'f(5)', 'a'], 3, '(ok (a (i 5) (i 10)))'),
    (['a::1', 'w::{a::x;a=x}', '{[a];a::10;w(x)}(9)'], 2, '(ok (i 1))'),
    (['a::1', 'g::{a::x;a}', "{[a];a::10;g'x}([1 2 3])", 'a'], 2, '(ok (a (i 1) (i 2) (i 3)))'),
    (['a::1', 'g::{a::x;a}', "{[a];a::10;g'x}([1 2 3])", 'a'], 3, '(ok (i 1))'),
    (['a::1', 'g::{a::x;a}', '{[a];a::10;g@x}(4)', 'a'], 2, '(ok (i 4))'),
    (['a::1', 'g::{a::x;a}', '{[a t];a::10;t::g@x;t,a}(4)'], 2, '(ok (a (i 4) (i 4)))'),
    (['g::{a::x;a}', 'f::{[a t];a::10;t::g(x);t,a}', 'f(5)', 'a'], 2, '(ok (a (i 5) (i 5)))'),
]


def family_scope_nested(rng, tier):
    for stmts, i, want in SCOPE_NESTED:
        yield list(stmts), {"family": "scope", "expect_sx": (i, want), "oracle_only": True}


SCOPE_FORMS = [
    # locals that have the name of a parameter, in every call form; expected canonical result
    (['h::{[y];x+y*10}', 'h(1;2)'], 1, '(ok (i 21))'),
    (['h::{[y];x+y*10}', '{[y];x+y*10}(1;2)'], 1, '(ok (i 21))'),
    (['h::{[y];x+y*10}', 'h@[1 2]'], 1, '(ok (i 21))'),
    (['h::{[y];x+y*10}', 'g::h(1;)', 'g(2)'], 2, '(ok (i 21))'),
    (['h::{[y];x+y*10}', 'g::h(;2)', 'g(1)'], 2, '(ok (i 21))'),
    (['h::{[y];x+y*10}', "[1 2]h'[2 3]"], 1, '(ok (a (i 21) (i 32)))'),
    (['h::{[t y];t::y;x+t*10}', "[1 2]h'[2 3]"], 1, '(ok (a (i 21) (i 32)))'),
    (['h::{[x];x*x}', "h'[1 2 3]"], 1, '(ok (a (i 1) (i 4) (i 9)))'),
    (['h::{[y x];x-y}', 'h/[10 1 2]'], 1, '(ok (i 7))'),
    (['r::{[x];:[x=0;0;x+.f(x-1)]}', 'r(3)'], 1, '(ok (i 6))'),
    (['r::{[x t];t::x;:[x=0;0;t+.f(x-1)]}', 'r(3)'], 1, '(ok (i 6))'),
    (['h::{[z t];t::z;x+y+t}', 'h(1;2;3)', 'h@[1 2 3]', 'g::h(;2;)', 'g(1;3)'], 4, '(ok (i 6))'),
    (['h::{[z t];t::z;x+y+t}', 'h(1;2;3)', 'h@[1 2 3]'], 2, '(ok (i 6))'),
]


def family_scope_forms(rng, tier):
    for stmts, i, want in SCOPE_FORMS:
        yield list(stmts), {"family": "scope", "expect_sx": (i, want), "oracle_only": True}


def family_scope(rng, tier):
    for stmts, exp in SCOPE:
        for form in ('%s', '{%s}()', ':[1;%s;0]'):
            st = list(stmts)
            i = exp[0]
            if st[i] == 'x' and form != '%s':
                continue
            st[i] = form % st[i]
            yield st, {"family": "scope", "expect_int": exp}


WARM_BODIES = ['(,x=y)', '((x=y),z)', '(#x<y)', '(,x<y)', '(,(x-y))', '(,x*y)', '((x=y),(x<y))', '(#,x=y)', ':[#x;,x=y;0]']
WARM_ARGS = [('[[1] 2]', '[[1] 2]'), ('[[1] 2]', '[[1] 3]'), ('[[1 2] 3]', '[[1 2] 3]'), ('[1 "a"]', '[1 "a"]'), ('[[1] [2 3]]', '[[1] [2 4]]'),
             ('[1 2]', '[1 3]'), ('"ab"', '"ab"'), ('[[3] 4]', '[[1] 2]')]


def family_warm(rng, tier):
    """a function is first applied to plain numbers (which leaves compilations on the inner nodes of its body) and then to
    lists of mixed depth, strings, mixed lists: the call must still give the value of the substituted body"""
    for body in WARM_BODIES:
        ar = 3 if 'z' in body else 2
        for a, b in WARM_ARGS:
            for warm in (['f(1;2;3)'], ['f([1 2];[1 3];0)'], ['f(1;2;3)', 'f([1 2];[1 3];0)']):
                argv = [a, b, '1'][:ar]
                w = [x if ar == 3 else x.replace(';3)', ')').replace(';0)', ')') for x in warm]
                sub = dict(zip(['x', 'y', 'z'], argv))
                text = body
                for k_, v_ in sub.items():
                    text = text.replace(k_, '(' + v_ + ')')
                stmts = ['f::{%s}' % body] + w + ['f(%s)' % ";".join(argv), 'v::f', 'v(%s)' % ";".join(argv),
                                                  'p::f(%s;%s)' % (argv[0], ";".join([''] * (ar - 1))), 'p(%s)' % ";".join(argv[1:]), text]
                n = 1 + len(w)
                yield stmts, {"family": "warm", "same": [n, n + 2, n + 4, n + 5], "oracle_only": True}


ADV_DYADS = ['x-y', 'y-x', 'y,x', 'x,y', 'x-x', 'y-y', '(x*2)-y', 'y-x*2', 'x+y', 'y', 'x', 'x*y', 'y*x-1']
ADV_MONADS = ['-x', 'x*x', 'x-1', '0-x', '#x', 'x']
ADV_LISTS = [['1', '2', '3', '4'], ['5', '3'], ['2', '7', '1'], ['9']]


def family_adverb(rng, tier):
    """a function as the verb of an adverb: Over, Scan-Over, Each, Each-2 (and Over below Each) must give what the
    explicit direct calls give; lambda verbs with swapped or repeated parameters, literal and through a variable"""
    oo = {"family": "adverb", "oracle_only": True}
    for b in ADV_DYADS:
        listy = ',' in b
        for l in ADV_LISTS:
            lit = "[%s]" % " ".join(l)
            acc = l[0]
            scan = [l[0]]
            for e in l[1:]:
                acc = "f(%s;%s)" % (acc, e)
                scan.append(acc)
            pre = ['f::{%s}' % b]
            yield pre + ['{%s}/%s' % (b, lit), 'f/%s' % lit, acc], dict(oo, same=[1, 2, 3])
            if not listy and len(l) > 1:
                yield pre + ['{%s}\\%s' % (b, lit), 'f\\%s' % lit, ",".join(scan)], dict(oo, same=[1, 2, 3])
                pairs = ",".join("f(%s;%s)" % (p, q) for p, q in zip(l, reversed(l)))
                rl = "[%s]" % " ".join(reversed(l))
                yield pre + ["%s{%s}'%s" % (lit, b, rl), "%s f'%s" % (lit, rl), pairs], dict(oo, same=[1, 2, 3])
                two = "[%s %s]" % (lit, rl)
                acc2 = scan[-1]
                racc = list(reversed(l))[0]
                for e in list(reversed(l))[1:]:
                    racc = "f(%s;%s)" % (racc, e)
                yield pre + ["{%s}/'%s" % (b, two), "f/'%s" % two, "%s,%s" % (acc2, racc)], dict(oo, same=[1, 2, 3])
    for b in ADV_MONADS:
        for l in ADV_LISTS:
            if len(l) < 2:
                continue
            lit = "[%s]" % " ".join(l)
            pre = ['f::{%s}' % b]
            yield pre + ["{%s}'%s" % (b, lit), "f'%s" % lit, ",".join("f(%s)" % e for e in l)], dict(oo, same=[1, 2, 3])


def py_fill(base, fill):
    """the property's positional rule, written independently of the Coq spec"""
    out, m = [], 0
    for s in base:
        if s is None:
            out.append(fill[m] if m < len(fill) else None)
            m += 1
        else:
            out.append(s)
    return out


def patterns(n):
    """all argument lists of length n over {hole, value} with at least one hole; (;) with n == 1 cannot be written"""
    for bits in itertools.product([0, 1], repeat=n):
        if 0 in bits:
            yield bits


def family_proj(rng, tier):
    """every chain of projections of arity 2 and 3 (all hole patterns, all fill orders) that the three
    resolution passes admit, ended by a full call; through variables, through @, and with a lambda as base"""
    vals_pool = ['1', '2', '3', '"ab"', '[4 5]', '0cq', '7', '8', '9']
    for ar, variant in ((2, 0), (3, 0), (2, 1), (3, 1)):
        # variant 1: bodies whose parameters occur under monads only (get_fn_arity ignored those before a1b9850)
        fdefs = {3: '{x,y,z}', 2: '{x,y}'} if variant == 0 else {3: '{(,x),(,y),,z}', 2: '{(,x),,y}'}
        for lambda_base in (False, True):
            maxproj = 3 if lambda_base else 2
            def chains(holes, depth):
                yield []
                if depth < maxproj and holes >= 2:
                    for p in patterns(holes):
                        for rest in chains(p.count(0), depth + 1):
                            yield [p] + rest
            first = [p for p in patterns(ar)]
            for p1 in first:
                for rest in chains(p1.count(0), 1):
                    chain = [p1] + rest
                    reps = 1 if tier == "quick" else 3
                    for rep in range(reps):
                        pool = list(vals_pool)
                        rng.shuffle(pool)
                        it = iter(pool)
                        stmts = ['f::%s' % fdefs[ar]]
                        cur = [None] * ar
                        prev = fdefs[ar] if lambda_base else 'f'
                        names = ['g', 'h', 'k']
                        for i, p in enumerate(chain):
                            fill = [next(it) if b else None for b in p]
                            stmts.append('%s::%s(%s)' % (names[i], prev, ";".join(v or "" for v in fill)))
                            prev = names[i]
                            cur = py_fill(cur, fill)
                        nh = cur.count(None)
                        final = [next(it) for _ in range(nh)]
                        full = py_fill(cur, final)
                        direct = 'f(%s)' % ";".join(full)
                        i_call = len(stmts)
                        stmts.append('%s(%s)' % (prev, ";".join(final)))
                        stmts.append('%s@[%s]' % (prev, " ".join(final)))
                        stmts.append(direct)
                        yield stmts, {"family": "proj", "same": [i_call, i_call + 1, i_call + 2], "chain": [list(p) for p in chain],
                                      "no_change_from": i_call}


# Klong-level faults and faults raised inside Python-implemented functions (a callable registered from
# Python, a system function given a bad argument): _eval_fn runs those on a separate path (KGLambda)
FAULTS = ['1+"a"', 'und(1)', '[1 2]@9', 'boom(1)', '.fc("nochannel")']


def family_faults(rng, tier):
    """a fault at every position of up to three nested calls; every level has a parameter, a declared local that
    shadows a global, and a deliberate assignment to the existing global c that counts how far evaluation got"""
    names = ['p', 'q', 'r']
    forms = ['call', 'at', 'proj']

    def callform(form, fn, arg1, arg2):
        if form == 'call':
            return '%s(%s;%s)' % (fn, arg1, arg2)
        if form == 'at':
            return '%s@((,%s),,%s)' % (fn, arg1, arg2)
        return '%s(;%s)(%s)' % (fn, arg2, arg1) if False else '{x(%s)}(%s(;%s))' % (arg1, fn, arg2)

    combos = []
    for d in (1, 2, 3):
        for level in range(1, d + 1):
            slots = ['s1', 's3'] + (['arg'] if level < d else [])
            for slot in slots:
                for fault in FAULTS:
                    for fs in itertools.product(forms, repeat=d - 1):
                        combos.append((d, level, slot, fault, fs))
    if tier in ("quick", "escalate"):
        rng.shuffle(combos)
        combos = combos[:330 if tier == "quick" else 700]
    for d, level, slot, fault, fs in combos:
        defs = []
        for k in range(d, 0, -1):
            nm = names[k - 1]
            s1 = fault if (slot == 's1' and level == k) else 'a::a+1'
            s3 = fault if (slot == 's3' and level == k) else 't,a'
            if k < d:
                arg = ('(%s)' % fault) if (slot == 'arg' and level == k) else 't+1'
                nested = 't::' + callform(fs[k - 1], names[k], arg, 'a')
            else:
                nested = 't::t*2'
            defs.append('%s::{[a t];a::y;t::x;c::c+1;%s;c::c+1;%s;c::c+1;%s}' % (nm, s1, nested, s3))
        pre = ['a::1', 'b::[1 2]', 'c::0', 'ok::{x+y}'] + defs
        failing = 'p(5;10)'
        follow = ['a', 'b', 't', 'ok(2;3)', 'c']
        yield pre + [failing] + follow, {"family": "faults", "fail_at": len(pre), "deliberate": ['c'], "follow": follow, "pre": pre,
                                         "where": [d, level, slot, fault, list(fs)]}


# condition texts with the truth the property text prescribes: exactly 0 (any numeric zero), [] and "" are false
COND_FALSE = ['0', '[]', '""', '0-0', '1-1', '#[]', '0.0', '-0.0', '0*2.5', '1.5-1.5']
COND_TRUE = [v for v in VALS if v not in FALSY] + [
    '[0]', '"0"', '{x}', '-1', '0c0', '[[]]', '#"a"', 'nn', '" "', ':sym', '[""]', '[0.0]',
    '0.000000001', '-0.000000001', '1.0e-300', '-1.0e-300', '0.00000001', '(0.1+0.2)-0.3', '1.0e300', '-2.5', '0.5', '1.0e-9*1.0e-9',
    ':{}', ':{[1 2]}', 'ff', 'pyid', '.fc']


def family_cond(rng, tier):
    conds = [(c, True) for c in COND_FALSE] + [(c, False) for c in COND_TRUE]
    for c, falsy in conds:
        sel = 2 if falsy else 1
        oo = {"family": "cond", "oracle_only": True}
        pre = ['ff::{x+1}']
        n = len(pre)
        yield pre + ['m::0', ':[%s;m::1;m::2]' % c, 'm'], dict(oo, expect_int=(n + 2, sel), expect_int2=(n + 1, sel))
        yield pre + [':[%s;1;1+"a"]' % c], dict(oo, expect_err=(n, falsy), expect_int=None if falsy else (n, 1))
        yield pre + [':[%s;und(1);2]' % c], dict(oo, expect_err=(n, not falsy), expect_int=(n, 2) if falsy else None)
        yield pre + ['m::0', 'f::{:[x;m::y;m::z]}', 'f(%s;1;2)' % c, 'm'], dict(oo, expect_int=(n + 3, sel))
        yield pre + ['m::0', 'v::%s' % c, 'g::{:[v;m::1;m::2]}', 'g()', 'm'], dict(oo, expect_int=(n + 4, sel))
        for c2 in ['0', '1', '[]', '"x"', '0.000000001', '0.0']:
            f2 = c2 in FALSY or c2 == '0.0'
            exp = 1 if not falsy else (2 if not f2 else 3)
            yield pre + ['m::0', ':[%s;m::1:|%s;m::2;m::3]' % (c, c2), 'm'], dict(oo, expect_int=(n + 2, exp))
            # the same chain with the two conditions swapped
            exp2 = 1 if not f2 else (2 if not falsy else 3)
            yield pre + ['m::0', ':[%s;m::1:|%s;m::2;m::3]' % (c2, c), 'm'], dict(oo, expect_int=(n + 2, exp2))


MISC = [
    ['f::{x+1}', 'g::{x(y)}', 'g(f;2)', 'g({x*2};4)', '{x@y}(f;3)', 'f@1', 'f@[1]', 'h::f', 'h(1)'],
    ['a::5', '{:[a;b;c];a}()', 'a'],
    ['f::{x,y,z}', 'g::f(1;;)', 'g(2)', 'f(1;2)', 'f()', 'f(1;2;3;4)'],
    ['{1}', '{x}', 'f::{7}', 'f()', 'f', 'f(1)'],
    ['-:[1;5;6]', '#:[0;"abc";"de"]', 'f::{-:[x;y;z]}', 'f(1;2;3)', 'f(0;2;3)', '{:[:[a;b;c];1;2]}()', 'a::0', 'c::0', '{:[:[a;b;c];1;2]}()'],
    ['{x(2)}(5)', 'x', 'x::3', 'x', '{x}(9)', '{y}(1)', 'y'],
    ['f::{[a];a::x;g(1)}', 'g::{a::a+x}', 'a::100', 'f(5)', 'a'],
    ['f::{nn::x}', 'f(1)', 'nn', 'nn::0', 'f(2)', 'nn'],
    ['f::{x+y}', 'g::{f(x;)}', 'g(1)', 'h::{f(1;)}', 'h', 'h(2)', 'h()'],
    ['k::{.f}', 'k()', 'k(1)', '.f'],
    ['boom(1)', 'pyid(5)', 'pyadd(2;3)', 'pyid@7', 'g::{[a];a::x*2;boom(a)}', 'a::100', 'g(7)', 'a', 'x', 'h::{pyid(x)+1}', 'h(4)', '.fc("nochannel")', 'a'],
    ['f::{[a b];a::1;b::2;a+b}', 'f()', 'a', 'b', 'f::{[a 1];a}', 'f()'],
    ['f::{x;y}', 'f(1;2)', 'f(und(1);2)', 'f(1;und(2))', 'f(1+"a";und(2))'],
    ['a::[1 2 3]', 'a@0', 'a@[0 2]', 'a@-1', 'a@3', 'a@"x"', '"abc"@1', '"abc"@[2 0]', '5@0', 'a@[]'],
    ['f::{x,y}', 'f@[1 2]', 'f@[1 2 3]', 'f@1', 'f@[]', ':foo@1', 'zz@1'],
]


def family_misc(rng, tier):
    for m in MISC:
        yield list(m), {"family": "misc"}


def family_ops(rng, tier):
    for op in DYADS:
        for a in VALS:
            yield ['(%s)%s(%s)' % (a, op, b) for b in VALS], {"family": "ops"}
    for op in MONADS:
        yield ['%s(%s)' % (op, a) for a in VALS], {"family": "ops"}


def merge_inputs(rng, tier):
    """argument lists handed to the real merge_projections: every base of length 1..3 (4 in thorough) and up to
    3 further lists of length 1..3 over {None, distinct values}; plus the None / empty special cases"""
    out = [[], [None], [[1]], [[None]], [[1, None], None], [[1, 2], None], [[None, None], [1], None]]
    ctr = itertools.count(10)

    def lists(n):
        for bits in itertools.product([0, 1], repeat=n):
            yield bits
    maxlen = 4 if tier == "thorough" else 3
    bases = [b for n in range(1, maxlen + 1) for b in lists(n)]
    fills = [f for n in range(1, 4) for f in lists(n)]
    def mk(bits):
        return [next(ctr) if b else None for b in bits]
    for b in bases:
        for k in range(0, 4):
            combos = list(itertools.product(fills, repeat=k))
            if k == 3 and tier != "thorough":
                rng.shuffle(combos)
                combos = combos[:60 if tier == "quick" else 400]
            for fs in combos:
                ctr = itertools.count(10)
                out.append([mk(b)] + [mk(f) for f in fs])
    return out


def arr_sx(arr):
    return "(" + " ".join("(0)" if a is None else "(1 %s)" % " ".join("(n)" if v is None else "(i %d)" % v for v in a) for a in arr) + ")"


def check_merge(chk, rng):
    """klongpy.types.merge_projections itself against the model function and against the positional-fill spec"""
    arrs = merge_inputs(rng, chk.tier)
    impl = run_child([], merge=arrs)["merge"]
    model = chk.run_model(["(merge %s)" % arr_sx(a) for a in arrs])
    spec_req, spec_idx = [], []
    for i, a in enumerate(arrs):
        if a and all(x is not None for x in a) and len(a) >= 2 and None in a[0]:
            spec_req.append("(fill %s %s)" % (arr_sx([a[0]])[1:-1], arr_sx(a[1:])))
            spec_idx.append(i)
    spec = dict(zip(spec_idx, chk.run_model(spec_req)))
    bad_prop = bad_corr = None
    for i, (a, im, mo) in enumerate(zip(arrs, impl, model)):
        chk.count("evaluations")
        chk.count("merge_direct")
        if len(a) >= 2:
            chk.count("distinct_nontrivial")
        if sx(mo) != im and bad_corr is None:
            bad_corr = {"kind": "merge-correspondence", "arr": a, "impl": im, "model": sx(mo)}
        if i in spec:
            # property oracle: positional filling, computed twice (python rule and the Coq Spec)
            cur = list(a[0])
            for f in a[1:]:
                cur = py_fill(cur, f)
            want = "(arr %s)" % " ".join("(n)" if v is None else "(i %d)" % v for v in cur) if cur else "(arr)"
            if sx(spec[i]) != want and bad_corr is None:
                bad_corr = {"kind": "spec-vs-python-rule", "arr": a, "spec": sx(spec[i]), "python": want}
            if im != want and bad_prop is None:
                bad_prop = {"kind": "merge_projections", "arr": a, "expected_by_positional_filling": want, "actual": im,
                            "how": "klongpy.types.merge_projections(arr)"}
    return bad_prop, bad_corr


def strip_self(frames_sx):
    """normalise a snapshot for the property oracle: 'unbound' and 'bound to its own symbol' are the same"""
    fr = parse_sx(frames_sx)
    out = []
    for f in fr:
        out.append([kv for kv in f if not (kv[1][0] == "y" and kv[1][1] == kv[0])])
    return out


def model_frames(m):
    return sx([sorted(f, key=lambda kv: kv[0]) for f in m[2]])


FUEL = 400


def check_programs(chk, rng, fams):
    cases = []
    for fam in fams:
        cases.extend(fam(rng, chk.tier))
    stmts = [c[0] for c in cases]
    impl = run_child_sharded(stmts)
    # control runs for the fault family: same definitions, the failing statement never executed, deliberate
    # assignments applied by hand
    controls, control_of = [], {}
    for ci, ((st, meta), recs) in enumerate(zip(cases, impl)):
        if meta["family"] == "faults":
            fa = meta["fail_at"]
            cval = recs[-1]["r"]       # the follow-up `c`
            if cval.startswith("(ok (i "):
                n = int(cval[len("(ok (i "):-2])
                control_of[ci] = len(controls)
                controls.append(meta["pre"] + ['c::%d' % n] + meta["follow"])
    ctrl = run_child_sharded(controls) if controls else []
    reqs = []
    init_g, init_s = init_frames_sx()
    for (st, meta), recs in zip(cases, impl):
        terms = [r["term"] for r in recs]
        if any(t is None for t in terms):
            reqs.append("(run 1 ())")
        else:
            reqs.append("(runs %d (%s) %s %s)" % (FUEL, " ".join(terms), init_g, init_s))
    model = chk.run_model(reqs)
    bad_props, bad_corrs = [], []
    seen = set()
    for ci, ((st, meta), recs, mod) in enumerate(zip(cases, impl, model)):
        fam = meta["family"]
        chk.count("programs_" + fam)
        key = (fam, tuple(st))
        if key not in seen:
            seen.add(key)
            chk.count("distinct_nontrivial")
        oracle_only = meta.get("oracle_only") and any(r["term"] is None for r in recs)
        if oracle_only:
            chk.count("oracle_only_programs")
        elif any(r["term"] is None for r in recs):
            chk.count("skipped_unparsed")
            bad_corrs.append({"kind": "generator produced a text outside the modelled syntax", "statements": st,
                              "detail": [(r.get("unsupported"), r.get("parse")) for r in recs]})
            continue
        if any("parse" in r for r in recs) and not oracle_only:
            bad_corrs.append({"kind": "generator text not fully parsed", "statements": st, "detail": [r.get("parse") for r in recs]})
            continue
        # ---- property oracle on the implementation alone
        def viol(what, **kw):
            bad_props.append(dict({"kind": what, "family": fam, "statements": st,
                                   "impl_results": [r["r"] for r in recs], "depths": [(r["d0"], r["d1"]) for r in recs]}, **kw))
        for i, r in enumerate(recs):
            chk.count("evaluations")
            if r["d1"] != r["d0"]:
                viol("context depth changed by statement %d (%s): %d -> %d" % (i, st[i], r["d0"], r["d1"]))
                break
        same = meta.get("same")
        if same:
            rs = [recs[i]["r"] if not recs[i]["r"].startswith("EXC") else "EXC" for i in same]
            if len(set(rs)) != 1:
                viol("call forms / substituted body disagree: " + " | ".join("%s => %s" % (st[i], r[:60]) for i, r in zip(same, rs)))
            elif fam == "proj" and rs[0] == "EXC":
                viol("filled projection raises")
        for k in ("expect_int", "expect_int2"):
            if meta.get(k):
                i, v = meta[k]
                if recs[i]["r"] != "(ok (i %d))" % v:
                    viol("statement %d (%s) should give %d, gives %s" % (i, st[i], v, recs[i]["r"][:80]))
        if meta.get("expect_sx"):
            i, want = meta["expect_sx"]
            if recs[i]["r"] != want:
                viol("statement %d (%s) should give %s, gives %s" % (i, st[i], want, recs[i]["r"][:80]))
        if meta.get("expect_err"):
            i, want = meta["expect_err"]
            if recs[i]["r"].startswith("EXC") != want:
                viol("statement %d (%s): branch selection wrong (error expected: %s, got %s)" % (i, st[i], want, recs[i]["r"][:60]))
        if "no_change_from" in meta:
            i0 = meta["no_change_from"]
            base = strip_self(recs[i0 - 1]["frames"])
            for i in range(i0, len(recs)):
                if strip_self(recs[i]["frames"]) != base:
                    viol("variables of the caller changed by statement %d (%s)" % (i, st[i]), before=sx(base), after=recs[i]["frames"])
                    break
        if fam == "faults":
            fa = meta["fail_at"]
            if not recs[fa]["r"].startswith("EXC"):
                viol("planted fault did not raise")
            else:
                before = strip_self(recs[fa - 1]["frames"])
                after = strip_self(recs[fa]["frames"])
                dl = {name_code(n) for n in meta["deliberate"]}
                strip = lambda frs: [[kv for kv in f if kv[0] not in dl] for f in frs]
                if strip(before) != strip(after):
                    viol("a failed call left variables of the caller changed", before=sx(before), after=sx(after))
                if ci in control_of:
                    crecs = ctrl[control_of[ci]]
                    got = [r["r"] for r in recs[fa + 1:]]
                    want = [r["r"] for r in crecs[-len(meta["follow"]):]]
                    if got != want:
                        viol("follow-up programs behave differently after the failed call", after_failure=got, never_called=want)
                    chk.count("evaluations", len(want))
                else:
                    viol("follow-up `c` did not evaluate to an integer")
        # ---- model equality
        if oracle_only:
            continue
        if len(mod) != len(recs):
            bad_corrs.append({"kind": "model runner output shape", "statements": st, "model": sx(mod)[:300]})
            continue
        for i, (r, m) in enumerate(zip(recs, mod)):
            mres = m[0]
            if mres[0] == "err" and mres[1] in ("unmodelled", "fuel"):
                chk.count("skipped_" + mres[1])
                break
            ir = r["r"]
            if ir.startswith("UNSUPPORTED") or r["frames"].startswith("UNSUPPORTED") or ir == "RECURSION":
                chk.count("skipped_unsupported_value")
                break
            ok = (mres[0] == "err" and ir.startswith("EXC")) or (mres[0] == "ok" and sx(mres) == ir)
            ok = ok and m[1] == r["d1"] and model_frames(m) == r["frames"]
            chk.count("compared_statements")
            if not ok:
                bad_corrs.append({"kind": "model-vs-klongpy", "family": fam, "statements": st, "at": i, "impl": ir[:300], "model": sx(mres)[:300],
                                  "impl_depth": r["d1"], "model_depth": m[1], "impl_frames": r["frames"][:400], "model_frames": model_frames(m)[:400]})
                break
        if fam != "ops":
            chk.sample({"family": fam, "statements": st[-4:], "results": [r["r"][:60] for r in recs[-4:]]}, limit=8)
    return bad_props, bad_corrs


FAMILIES = [family_fixed, family_scope_nested, family_calls, family_rec, family_proj, family_faults, family_cond, family_scope, family_scope_forms, family_warm, family_adverb, family_misc, family_ops]


def run(tier, replay=None):
    chk = Check("C03", tier)
    rng = random.Random(chk.seed)
    chk.generate(generate())
    chk.build_model()
    hits = forbidden_scan("C03")
    proof = chk.build_proofs()
    if hits:
        proof["ok"] = False
        proof["error"] = "forbidden declarations: %r" % hits
        proof["broken"] = hits[0]
    bp_m, bc_m = check_merge(chk, rng)
    bad_props, bad_corrs = check_programs(chk, rng, FAMILIES)
    if bp_m:
        bad_props.insert(0, bp_m)
    if bc_m:
        bad_corrs.insert(0, bc_m)
    if (bad_corrs or not proof["ok"]) and not bad_props and tier == "quick":
        # something no longer checks: look harder for a failing input of the property itself
        # (hard budget: the quick tier stays under ~4 min in total, so the wider sweep is a bounded "escalate" tier)
        rng2 = random.Random(chk.seed + 1)
        chk.tier = "escalate"
        try:
            bp2, _ = check_programs(chk, rng2, [family_calls, family_proj, family_faults, family_cond, family_rec, family_scope, family_scope_forms, family_scope_nested, family_fixed, family_warm, family_adverb])
            bpm2, _ = check_merge(chk, rng2)
        finally:
            chk.tier = tier
        bad_props = bp2 + ([bpm2] if bpm2 else [])
    for bp in bad_props[:3]:
        chk.violation("C03 property fails on the implementation: %s" % bp["kind"], bp)
    if not chk.violations:
        if bad_corrs:
            bc = bad_corrs[0]
            chk.violation("correspondence between klongpy and the Coq model broke (%s); no failing input of the property found in %d evaluations"
                          % (bc["kind"], chk.counters.get("evaluations", 0)),
                          {"broken": "correspondence C03/Model.v", "detail": bc, "more": len(bad_corrs) - 1}, no_input=True)
        elif not proof["ok"]:
            chk.violation("proof obligation no longer checks: %s" % proof["broken"],
                          {"broken_obligation": proof["broken"], "coq_error": proof["error"], "generated": chk.generated_text}, no_input=True)
    return chk.finish(
        rule="programs: every depth-1 body of the closed grammar and all conditionals over 4 atoms, seeded depth-2/3 bodies, x argument tuples from a 13-value universe, "
             "each as variable call / direct call / @ / substituted text; recursion through .f; every projection chain of arity 2 and 3 admitted by three resolution passes; "
             "faults (3 kinds) at every slot of up to 3 nested calls x call forms; conditionals over 24 conditions; merge_projections called directly on all bases x fills; "
             "verb tables over the universe. distinct = distinct (family, statement list) + merge inputs with at least one further list",
        trusted_base=TRUSTED, assumptions=ASSUME)
