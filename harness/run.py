import importlib
import json
import os
import sys
import traceback


def main():
    args = sys.argv[1:]
    if not args:
        print("usage: check <Cxx> [quick|thorough] [--replay file]")
        return 2
    pid = args[0].upper()
    tier = os.environ.get("VERIF_TIER", "quick")
    replay = None
    i = 1
    while i < len(args):
        if args[i] in ("quick", "thorough"):
            tier = args[i]
        elif args[i] == "--replay":
            replay = args[i + 1]
            i += 1
        i += 1
    mod = importlib.import_module("harness." + pid.lower())
    if replay is not None:
        if hasattr(mod, "replay"):
            return mod.replay(replay)
        print(json.dumps(json.load(open(replay)), indent=1))
        return 0
    try:
        return mod.run(tier)
    except Exception:
        # an infrastructure failure is not a verdict about the property; make it loud and non-zero
        traceback.print_exc()
        print("ERROR property=%s check could not run (infrastructure failure, not a property verdict)" % pid)
        return 2


if __name__ == "__main__":
    sys.exit(main())
