"""C05 — compiled and interpreted execution of an expression are indistinguishable.

Link 1 (Coq): coq/C05/Properties.v — T5.src, T5.equiv (site = interpreter on D5, any nesting, any
rebinding history), T5.fallback, refuted witnesses for the finding classes.
Link 2 (here):
  (i)  the real _ast_to_ir tuple tree, _collect_params list and _ir_to_source / exec'd source text,
       against the extracted model (plain data / string equality), and the value of the compiled
       function and of the stubbed interpreter against the model's eval_ir / interp;
  (ii) the property's own differential: the same program in two interpreters, one of them with
       klongpy.interpreter.compile_expr replaced by a stub returning None.
"""
import ast
import itertools
import json
import math
import os
import random
import struct
import subprocess
import sys

from . import astlib
from .astlib import ShapeError
from .common import Check, sx, parse_sx, forbidden_scan, PY, VERIF, REPO

TRUSTED = [
    "Coq 8.16.1 kernel (coqc); vm_compute in the closed checks over the regenerated tables and in the refuted witnesses / Examples",
    "Print Assumptions: every C05 theorem closed under the global context (no axioms); reals are Coq.Floats.SpecFloat binary64",
    "translator harness/c05.py:generate (Python ast): _ARITH_OPS/_CMP_OPS/_REDUCE_SCAN_OPS, the op->text dictionaries and f-string templates of both backends' _ir_to_source, shape of KlongInterpreter._compiled_args and of the three call sites",
    "extraction: ExtrOcamlBasic only; Z, positive, spec_float kept as extracted inductives; ocaml/driver.ml",
    "correspondence harness: expression/binding enumerators, encoding of klongpy syntax trees and values (harness/c05.py), Python/NumPy themselves as the meaning of the emitted text",
]
ASSUME = [
    "Python/NumPy operator semantics on ints, binary64 reals, rank-1 and rank-2 ndarrays are as modelled in coq/C05/Model.v (np_lift2, ufunc_reduce, ufunc_accumulate, Python scalar arithmetic, ZeroDivisionError); sampled exactly by link 2 on every run",
    "integers stay below 2^53 in magnitude: int64 wrap-around, exact int/float comparison of huge ints and correctly rounded int/int division are not modelled (theorems are over unbounded Z)",
    "np.add.reduce on >= 8 contiguous floats uses pairwise summation; both execution paths call the same ufunc, the model folds left (generated real arrays have < 8 elements)",
    "repr(float) is passed through from Python as the text of a real literal; exec of a well-formed `def _expr(...)` does not fail",
    "a^b is modelled only for a non-negative integer exponent (repeated multiplication); other exponents are compared on the implementation only",
    "under the torch backend the run-time meaning of the emitted text is validated differentially, not proved (T5.src and T8.accept hold at the string/table level)",
]

HOLES = {"call": ["call", "l", "r"], "binop": ["l", "py_op", "r"], "cmp": ["l", "py_cmp", "r"], "negate": ["child"],
         "reduce": ["method", "arg_src"], "scan": ["method", "arg_src"]}


# ---------------------------------------------------------------- translator
def _set_of_consts(node, what):
    if not isinstance(node, ast.Set):
        raise ShapeError("%s is not a set literal" % what)
    return sorted(astlib.const(e) for e in node.elts)


def _branches(fn):
    """{'binop': body, ...} for the `if node_type == '<k>':` blocks of _ir_to_source"""
    out = {}
    for st in fn.body:
        if isinstance(st, ast.If) and isinstance(st.test, ast.Compare) and len(st.test.ops) == 1 \
                and isinstance(st.test.ops[0], ast.Eq) and isinstance(st.test.left, ast.Name) \
                and st.test.left.id == "node_type" and isinstance(st.test.comparators[0], ast.Constant):
            out[st.test.comparators[0].value] = st
    return out


def _table_and_template(branch, kind):
    dicts = [n for n in ast.walk(branch) if isinstance(n, ast.Dict)]
    if len(dicts) != 1:
        raise ShapeError("%s: expected exactly one dict literal" % kind)
    tbl = [(astlib.const(k), astlib.const(v)) for k, v in zip(dicts[0].keys, dicts[0].values)]
    tpl = _template(branch, kind)
    return tbl, tpl


def _template(branch, kind):
    rets = [n for n in branch.body if isinstance(n, ast.Return)]
    if len(rets) != 1 or not isinstance(rets[0].value, ast.JoinedStr):
        raise ShapeError("%s: last statement is not `return f'...'`" % kind)
    parts = []
    for v in rets[0].value.values:
        if isinstance(v, ast.Constant):
            parts.append(("L", v.value))
        elif isinstance(v, ast.FormattedValue) and isinstance(v.value, ast.Name) and v.conversion == -1 and v.format_spec is None:
            parts.append(("H", v.value.id))
        else:
            raise ShapeError("%s: f-string part not understood" % kind)
    holes = [p[1] for p in parts if p[0] == "H"]
    if sorted(holes) != sorted(HOLES[kind]):
        raise ShapeError("%s: holes %r" % (kind, holes))
    return parts


def backend_tables(relpath, cls):
    m = astlib.module(relpath)
    fn = astlib.find_func(astlib.find_class(m, cls), "_ir_to_source")
    br = _branches(fn)
    for k in ("literal", "var", "binop", "cmp", "negate", "reduce", "scan"):
        if k not in br:
            raise ShapeError("_ir_to_source: no branch for %s" % k)
    # literal -> repr(ir[1]); var -> ir[1]
    lit = br["literal"].body
    if not (len(lit) == 1 and isinstance(lit[0], ast.Return) and ast.unparse(lit[0].value) == "repr(ir[1])"):
        raise ShapeError("literal branch is not `return repr(ir[1])`")
    var = br["var"].body
    if not (len(var) == 1 and isinstance(var[0], ast.Return) and ast.unparse(var[0].value) == "ir[1]"):
        raise ShapeError("var branch is not `return ir[1]`")
    out = {}
    for k in ("cmp", "reduce", "scan"):
        out[k] = _table_and_template(br[k], k)
    out["negate"] = ([], _template(br["negate"], "negate"))
    out["binop"], out["call"] = _binop_tables(br["binop"])
    out["helpers"] = _helpers_bound(relpath, cls, [v for _, v in out["call"][0]])
    return out


def _dict_get_assign(branch, name):
    """`name = {...}.get(op)` directly in the branch body -> [(k, v)] or None"""
    for st in branch.body:
        if isinstance(st, ast.Assign) and len(st.targets) == 1 and isinstance(st.targets[0], ast.Name) and st.targets[0].id == name:
            v = st.value
            if isinstance(v, ast.Call) and isinstance(v.func, ast.Attribute) and v.func.attr == "get" and isinstance(v.func.value, ast.Dict) \
                    and len(v.args) == 1 and ast.unparse(v.args[0]) == "op":
                d = v.func.value
                return [(astlib.const(k), astlib.const(x)) for k, x in zip(d.keys, d.values)]
            raise ShapeError("binop: %s is not `{...}.get(op)`" % name)
    return None


def _joined(ret, kind):
    class _B:  # a pseudo branch for _template
        body = [ret]
    return _template(_B, kind)


def _binop_tables(branch):
    """((infix table, infix template), (call table, call template)) of the binop branch: a verb listed in
    `call = {...}.get(op)` is emitted as `{call}({l},{r})`, the others as `({l}{py_op}{r})`"""
    dicts = [n for n in ast.walk(branch) if isinstance(n, ast.Dict)]
    infix = _dict_get_assign(branch, "py_op")
    if infix is None:
        raise ShapeError("binop: no py_op table")
    call = _dict_get_assign(branch, "call")
    if len(dicts) != (1 if call is None else 2):
        raise ShapeError("binop: unexpected dict literals")
    f_call = []
    if call is not None:
        ifs = [st for st in branch.body if isinstance(st, ast.If) and ast.unparse(st.test) == "call is not None"]
        if len(ifs) != 1 or len(ifs[0].body) != 1 or ifs[0].orelse or not isinstance(ifs[0].body[0], ast.Return):
            raise ShapeError("binop: `if call is not None: return f'...'` expected")
        f_call = _joined(ifs[0].body[0], "call")
        # the call test must come before the infix lookup, as the model assumes
        idx = {id(st): i for i, st in enumerate(branch.body)}
        py_assign = [st for st in branch.body if isinstance(st, ast.Assign) and ast.unparse(st.targets[0]) == "py_op"][0]
        if idx[id(ifs[0])] > idx[id(py_assign)]:
            raise ShapeError("binop: helper call tested after the infix table")
        if set(k for k, _ in call) & set(k for k, _ in infix):
            raise ShapeError("binop: a verb is in both tables")
    f_bin = _template(branch, "binop")
    return (infix, f_bin), (call or [], f_call)


DIV_HELPER = """
if getattr(b, 'ndim', 0) == 0 and b == 0:
    raise ZeroDivisionError("a scalar divisor of 0 is :undefined")
return a / b
"""


def _helpers_bound(relpath, cls, names):
    """the namespace the generated function is exec'd in binds every helper name of the call table to the function
    the model gives it: _div -> base.compiled_divide (with the expected body), _pow -> eval_dyad_power(a, b, self)"""
    m = astlib.module(relpath)
    f = astlib.find_func(astlib.find_class(m, cls), "compile_expr_ir")
    ns = [n for n in f.body if isinstance(n, ast.Assign) and ast.unparse(n.targets[0]) == "ns" and isinstance(n.value, ast.Dict)]
    if len(ns) != 1:
        return False
    bound = {astlib.const(k): ast.unparse(v) for k, v in zip(ns[0].value.keys, ns[0].value.values)}
    for nm in names:
        if nm == "_div":
            if bound.get("_div") != "compiled_divide":
                return False
            imp = [n for n in m.body if isinstance(n, ast.ImportFrom) and n.module == "base" and n.level == 1
                   and any(a.name == "compiled_divide" and a.asname is None for a in n.names)]
            if not imp:
                return False
            base = astlib.module("klongpy/backends/base.py")
            h = astlib.find_func(base, "compiled_divide")
            if [a.arg for a in h.args.args] != ["a", "b"] or h.decorator_list:
                return False
            want = ast.parse(DIV_HELPER.replace("\nreturn", "\n    return").replace("\nif", "\n    if").replace("\n    raise", "\n        raise").join(["def f(a, b):", ""])).body[0].body
            if [ast.dump(x) for x in astlib.body_no_doc(h)] != [ast.dump(x) for x in want]:
                return False
        elif nm == "_pow":
            if bound.get("_pow") != "lambda a, b: eval_dyad_power(a, b, self)":
                return False
            imp = [n for n in ast.walk(f) if isinstance(n, ast.ImportFrom) and n.module == "dyads" and n.level == 2
                   and any(a.name == "eval_dyad_power" and a.asname is None for a in n.names)]
            if not imp:
                return False
        else:
            return False
    return True


GUARD_TEST = "not (tv is int or tv is float or (isinstance(v, ndarray) and v.dtype != object and self._backend.array_size(v) > 0))"


def guard_flag():
    """all three compiled call sites fetch operands through _compiled_args, which repeats the admission test"""
    m = astlib.module("klongpy/interpreter.py")
    cls = astlib.find_class(m, "KlongInterpreter")
    if not astlib.has_method(cls, "_compiled_args"):
        return False
    g = astlib.find_func(cls, "_compiled_args")
    ok_test = False
    for n in ast.walk(g):
        if isinstance(n, ast.If) and any(isinstance(b, ast.Raise) for b in n.body):
            if ast.dump(n.test) == ast.dump(ast.parse(GUARD_TEST, mode="eval").body):
                ok_test = True
    if not ok_test:
        return False
    # ndarray must be the backend's array class, v the context value of the symbol
    src = ast.unparse(g).replace(" ", "")
    if "ndarray=self._backend.np.ndarray" not in src or "v=self._context[s]" not in src or "tv=type(v)" not in src:
        return False
    n_sites = 0
    for name in ("eval", "__call__"):
        f = astlib.find_func(cls, name)
        for c in ast.walk(f):
            if isinstance(c, ast.Call) and isinstance(c.func, ast.Name) and c.func.id == "fn":
                if not (len(c.args) == 1 and isinstance(c.args[0], ast.Starred)
                        and ast.unparse(c.args[0].value) == "self._compiled_args(var_syms)"):
                    return False
                n_sites += 1
    return n_sites == 3


def _unwrap_exact(m):
    """the Negate branch of _ast_to_ir unwraps its operand with `type(arg) is list` (a KGCond is a list subclass and
    is itself the operand); `isinstance(arg, list)` -> False; anything else is not understood"""
    fn = astlib.find_func(m, "_ast_to_ir")
    tests = []
    for n in ast.walk(fn):
        if isinstance(n, ast.If) and len(n.body) == 1 and ast.unparse(n.body[0]) == "arg = arg[0]":
            tests.append(ast.unparse(n.test))
    if tests == ["type(arg) is list"]:
        return True
    if tests == ["isinstance(arg, list)"]:
        return False
    raise ShapeError("_ast_to_ir: operand unwrapping of a monad not recognised: %r" % tests)


def _admits_object(m):
    """the ndarray admission test of _ast_to_ir: plain isinstance (object arrays admitted) or `... and val.dtype != object`"""
    fn = astlib.find_func(m, "_ast_to_ir")
    tests = [ast.unparse(n.test).replace(" ", "") for n in ast.walk(fn) if isinstance(n, ast.If) and "ndarray" in ast.unparse(n.test)]
    if tests == ["isinstance(val,klong._backend.np.ndarray)"]:
        return True
    if tests == ["isinstance(val,klong._backend.np.ndarray)andval.dtype!=object"]:
        return False
    raise ShapeError("_ast_to_ir: ndarray admission test not recognised: %r" % tests)


def fallback_flag():
    """each of the three `fn(*...)` calls sits in a try whose only handler is `except Exception` (or bare)"""
    m = astlib.module("klongpy/interpreter.py")
    cls = astlib.find_class(m, "KlongInterpreter")
    n = 0
    for name in ("eval", "__call__"):
        f = astlib.find_func(cls, name)
        for t in ast.walk(f):
            if not isinstance(t, ast.Try):
                continue
            calls = [c for st in t.body for c in ast.walk(st)
                     if isinstance(c, ast.Call) and isinstance(c.func, ast.Name) and c.func.id == "fn"]
            if not calls:
                continue
            if len(t.handlers) != 1 or t.finalbody or t.orelse:
                return False
            ty = t.handlers[0].type
            if not (ty is None or (isinstance(ty, ast.Name) and ty.id in ("Exception", "BaseException"))):
                return False
            n += len(calls)
    return n == 3


def stateless_flag():
    """compile_expr hands the IR straight to the backend and neither it nor compile_expr_ir keeps anything across
    calls (no decorator, no global, no store into a container, no .get/.setdefault lookup)"""
    def clean(fn):
        if fn.decorator_list:
            return False
        for n in ast.walk(fn):
            if isinstance(n, (ast.Global, ast.Nonlocal)):
                return False
            if isinstance(n, ast.Subscript) and isinstance(n.ctx, (ast.Store, ast.Del)):
                return False
            if isinstance(n, ast.Call) and isinstance(n.func, ast.Attribute) and n.func.attr in ("get", "setdefault", "pop", "update"):
                return False
        return True
    m = astlib.module("klongpy/compiler.py")
    ce = astlib.find_func(m, "compile_expr")
    if not clean(ce):
        return False
    last = ce.body[-1]
    if not (isinstance(last, ast.Return) and ast.unparse(last.value) == "klong._backend.compile_expr_ir(ir, var_syms)"):
        return False
    a2i = astlib.find_func(m, "_ast_to_ir")
    if a2i.decorator_list or any(isinstance(n, (ast.Global, ast.Nonlocal)) for n in ast.walk(a2i)):
        return False
    for rel, cls in (("klongpy/backends/numpy_backend.py", "NumpyBackendProvider"), ("klongpy/backends/torch_backend.py", "TorchBackendProvider")):
        f = astlib.find_func(astlib.find_class(astlib.module(rel), cls), "compile_expr_ir")
        if not clean(f):
            return False
        last = f.body[-1]
        if not (isinstance(last, ast.Return) and ast.unparse(last.value) == "(ns['_expr'], var_syms)"):
            return False
        if not any(isinstance(n, ast.Assign) and ast.unparse(n.targets[0]) == "ns" and isinstance(n.value, ast.Dict) for n in f.body):
            return False
    return True


def _flag(fn):
    try:
        v, why = astlib.try_flag(fn)
    except Exception as e:  # any unexpected shape: fail closed
        v, why = False, repr(e)
    return bool(v), why


def _coq_tbl(tbl):
    return astlib.coq_list(["(%s, %s)" % (astlib.coq_string(k), astlib.coq_string(v)) for k, v in tbl])


def _coq_tpl(parts):
    return astlib.coq_list([("TL %s" if k == "L" else "TH %s") % astlib.coq_string(v) for k, v in parts])


def _coq_tables(name, sets, bt):
    if bt is None:
        body = ("arith_ops := []; cmp_ops := []; redscan_ops := []; t_bin := []; t_cmp := []; t_red := []; t_scan := []; adm_obj := true;\n"
                "  t_call := []; helpers_bound := false; unwrap_exact := false; f_call := [];\n"
                "  f_bin := []; f_cmp := []; f_neg := []; f_red := []; f_scan := []")
    else:
        ar, cm, rs, adm, unw = sets
        L = lambda xs: astlib.coq_list([astlib.coq_string(x) for x in xs])
        fields = [("arith_ops", L(ar)), ("cmp_ops", L(cm)), ("redscan_ops", L(rs)), ("adm_obj", astlib.coq_bool(adm)), ("unwrap_exact", astlib.coq_bool(unw)),
                  ("t_bin", _coq_tbl(bt["binop"][0])), ("t_cmp", _coq_tbl(bt["cmp"][0])), ("t_red", _coq_tbl(bt["reduce"][0])),
                  ("t_scan", _coq_tbl(bt["scan"][0])), ("t_call", _coq_tbl(bt["call"][0])),
                  ("helpers_bound", astlib.coq_bool(bt["helpers"])), ("f_call", _coq_tpl(bt["call"][1])),
                  ("f_bin", _coq_tpl(bt["binop"][1])), ("f_cmp", _coq_tpl(bt["cmp"][1])), ("f_neg", _coq_tpl(bt["negate"][1])),
                  ("f_red", _coq_tpl(bt["reduce"][1])), ("f_scan", _coq_tpl(bt["scan"][1]))]
        body = ";\n  ".join("%s := %s" % kv for kv in fields)
    return "Definition %s : tables := {|\n  %s |}." % (name, body)


def read_tables():
    def sets():
        m = astlib.module("klongpy/compiler.py")
        return (_set_of_consts(astlib.module_assign(m, "_ARITH_OPS"), "_ARITH_OPS"),
                _set_of_consts(astlib.module_assign(m, "_CMP_OPS"), "_CMP_OPS"),
                _set_of_consts(astlib.module_assign(m, "_REDUCE_SCAN_OPS"), "_REDUCE_SCAN_OPS"),
                _admits_object(m), _unwrap_exact(m))
    s, why_s = astlib.try_flag(sets)
    npt, why_n = astlib.try_flag(lambda: backend_tables("klongpy/backends/numpy_backend.py", "NumpyBackendProvider"))
    tot, why_t = astlib.try_flag(lambda: backend_tables("klongpy/backends/torch_backend.py", "TorchBackendProvider"))
    try:
        g, why_g = astlib.try_flag(guard_flag)
    except Exception as e:  # any unexpected shape: fail closed
        g, why_g = False, repr(e)
    return s, npt, tot, bool(g), [w for w in (why_s, why_n, why_t, why_g) if w]


def generate(prop="C05"):
    s, npt, tot, g, why = read_tables()
    out = ["From Coq Require Import List String.", "From %s Require Import Model." % prop, "Import ListNotations.",
           "Open Scope string_scope."]
    for w in why:
        out.append("(* shape not recognised: %s *)" % w.replace("*)", "* )"))
    out.append(_coq_tables("np_tables", s, npt if s is not None else None))
    out.append(_coq_tables("torch_tables", s, tot if s is not None else None))
    out.append("Definition call_guard : bool := %s." % astlib.coq_bool(g))
    for name, fn in (("fallback_catches_all", fallback_flag), ("compile_is_stateless", stateless_flag)):
        v, w = _flag(fn)
        out.append("Definition %s : bool := %s.%s" % (name, astlib.coq_bool(v), "" if not w else "  (* %s *)" % w.replace("*)", "* )")))
    return "\n".join(out) + "\n"


# ---------------------------------------------------------------- worker side (runs under $VERIF_REPO)
NAN_BITS = 0x7FF8000000000000


def fbits(x):
    x = float(x)
    if x != x:
        return NAN_BITS
    if x == 0.0:
        return 0                    # -0.0 == 0.0: the property compares elements, not sign bits of zero
    return struct.unpack(">Q", struct.pack(">d", x))[0]


def canon5(v):
    """canonical form of a result: structure, elements, integer/real kind (Python vs NumPy scalar is not a kind)"""
    import numpy as np
    from klongpy.core import KGSym, KGChar, KGFn, KGLambda, KLONG_UNDEFINED
    from klongpy.types import KGUndefined
    if v is KLONG_UNDEFINED:
        return ["u", 1]
    if isinstance(v, KGUndefined):
        return ["u", 0]
    if v is None:
        return ["none"]
    if isinstance(v, (bool, np.bool_)):
        return ["i", int(v)]
    if isinstance(v, (int, np.integer)):
        return ["i", int(v)]
    if isinstance(v, (float, np.floating)):
        return ["r", fbits(v)]
    if isinstance(v, KGChar):
        return ["c", ord(str(v))]
    if isinstance(v, KGSym):
        return ["y"] + [ord(c) for c in str(v)]
    if isinstance(v, str):
        return ["s"] + [ord(c) for c in v]
    if isinstance(v, np.ndarray):
        if v.ndim == 0:
            return canon5(v.item())
        return ["l"] + [canon5(x) for x in v]
    if isinstance(v, (list, tuple)):
        return ["l"] + [canon5(x) for x in v]
    if isinstance(v, dict):
        return ["d", len(v)]
    if isinstance(v, (KGFn, KGLambda)) or callable(v):
        return ["f"]
    mod = type(v).__module__ or ""
    if mod.startswith("torch"):
        a = v.detach().cpu().numpy()
        return canon5(a)
    return ["other", type(v).__name__]


def cps(s):
    return [ord(c) for c in s]


def enc_expr(node):
    """klongpy syntax tree -> the model's expr (what _ast_to_ir can look at)"""
    from klongpy.types import KGSym, KGFn, KGCall, KGOp, KGAdverb
    t = type(node)
    if t is int:
        return ["li", node]
    if t is float:
        return ["lr", fbits(node), cps(repr(node))]
    if t is KGSym:
        return ["sym", cps(str(node))]
    if isinstance(node, KGFn) and node.is_op():
        op, ar = node.a.a, node.a.arity
        args = node.args
        if ar == 2:
            if not isinstance(args, list):
                args = [args] if args is not None else None
            if args is None or len(args) != 2:
                return ["other"]
            return ["dy", cps(op), enc_expr(args[0]), enc_expr(args[1])]
        if ar == 1:
            if type(args) is not list and isinstance(args, list):
                # a conditional (KGCond, a list subclass) is itself the operand of the monad
                return ["mc", cps(op), enc_expr(args[0])] if len(args) > 0 else ["other"]
            a = args[0] if type(args) is list else args
            return ["mo", cps(op), enc_expr(a)]
        return ["other"]
    if isinstance(node, KGCall) and node.is_adverb_chain():
        ch = node.a
        if isinstance(ch, list) and len(ch) == 3 and isinstance(ch[0], KGAdverb) and isinstance(ch[0].a, KGOp) \
                and isinstance(ch[1], KGAdverb):
            return ["adv", cps(ch[0].a.a), cps(ch[1].a), enc_expr(ch[2])]
    return ["other"]


def enc_val(v):
    import numpy as np
    from klongpy.core import KLONG_UNDEFINED
    t = type(v)
    if t is int:
        return ["i", v]
    if t is float:
        return ["r", fbits(v)]
    if isinstance(v, np.integer):
        return ["ni", int(v)]
    if isinstance(v, np.floating):
        return ["nr", fbits(v)]
    if isinstance(v, np.ndarray):
        if v.dtype.kind in "if" and v.ndim == 1:
            return ["a1"] + [enc_elem(x) for x in v]
        if v.dtype.kind in "if" and v.ndim == 2 and v.shape[0] > 0 and v.shape[1] > 0:
            return ["a2"] + [[enc_elem(x) for x in row] for row in v]
        return ["obj"] if v.dtype == object else ["hi"]
    if v is KLONG_UNDEFINED:
        return ["u"]
    if isinstance(v, str):
        return ["str"] + cps(v)
    return ["other"]


def enc_elem(x):
    import numpy as np
    return ["i", int(x)] if isinstance(x, (int, np.integer)) else ["r", fbits(x)]


def enc_ir(ir):
    k = ir[0]
    if k == "literal":
        v = ir[1]
        return ["literal", ["i", v] if type(v) is int else ["r", fbits(v)]]
    if k == "var":
        return ["var", cps(ir[1])]
    if k in ("binop", "cmp"):
        return [k, cps(ir[1]), enc_ir(ir[2]), enc_ir(ir[3])]
    if k == "negate":
        return ["negate", enc_ir(ir[1])]
    if k in ("reduce", "scan"):
        return [k, cps(ir[1]), enc_ir(ir[2])]
    return ["unknown", k]


def _safe(f):
    try:
        return ["ok", canon5(f())]
    except Exception as e:  # noqa
        return ["exc", type(e).__name__]


def worker_corr(cases, want_torch):
    """(i): real _ast_to_ir / _collect_params / _ir_to_source / compiled fn / stubbed interpreter per case"""
    import klongpy.interpreter as I
    import klongpy.compiler as C
    from klongpy import KlongInterpreter
    from klongpy.core import KGSym
    real_compile = I.compile_expr
    tb = None
    if want_torch:
        try:
            tb = KlongInterpreter(backend="torch", device="cpu")._backend
        except Exception as e:  # noqa
            tb = None
    out = []
    for case in cases:
        text, env0, env1, names = case["text"], case["env0"], case["env1"], case["names"]
        k = KlongInterpreter()
        I.compile_expr = lambda a, b: None
        try:
            for s in env0:
                k(s)
        finally:
            I.compile_expr = real_compile
        node = k.prog(text)[1]
        node = node[0] if len(node) == 1 else node
        rec = {"expr": enc_expr(node), "env0": [[cps(n), enc_val(k._context[KGSym(n)])] for n in names if _has(k, n)]}
        var_refs = {}
        ir = C._ast_to_ir(node, k, var_refs)
        comp = C.compile_expr(node, k)
        if comp is None:
            rec["np"] = ["none"]
            rec["ir_only"] = None if ir is None else enc_ir(ir)
        else:
            fn, syms = comp
            nparams = fn.__code__.co_argcount
            rec["np"] = ["some", enc_ir(ir), ["params"] + [cps(p) for p in fn.__code__.co_varnames[:nparams]],
                         ["syms"] + [cps(str(s)) for s in syms],
                         ["src"] + cps("def _expr(%s): return %s" % (", ".join(k._backend._collect_params(ir)), k._backend._ir_to_source(ir)))]
            rec["collect"] = [cps(p) for p in k._backend._collect_params(ir)]
        if tb is not None and ir is not None and var_refs:
            ts = tb._ir_to_source(ir)
            rec["torch_src"] = None if ts is None else cps("def _expr(%s): return %s" % (", ".join(tb._collect_params(ir)), ts))
        elif tb is not None:
            rec["torch_src"] = None
        # rebind, then run the compiled function and the stubbed interpreter on the same syntax tree
        I.compile_expr = lambda a, b: None
        try:
            for s in env1:
                k(s)
            rec["env1"] = [[cps(n), enc_val(k._context[KGSym(n)])] for n in names if _has(k, n)]
            rec["interp"] = _safe(lambda: k.eval(node))
        finally:
            I.compile_expr = real_compile
        if comp is not None:
            fn, syms = comp
            if hasattr(k, "_compiled_args"):
                r = _run_fn(lambda: fn(*k._compiled_args(syms)))
            else:
                r = _run_fn(lambda: fn(*[k._context[s] for s in syms]))
            rec["run"] = r
        # the site as the interpreter does it: fresh tree, compiled under env0 at first evaluation, then rebound
        k2 = KlongInterpreter()
        I.compile_expr = lambda a, b: None
        try:
            for s in env0:
                k2(s)
        finally:
            I.compile_expr = real_compile
        wrapped = "1,,(" + text + ")" if False else text
        node2 = k2.prog(wrapped)[1][0]
        _safe(lambda: k2.eval(node2))
        I.compile_expr = lambda a, b: None
        try:
            for s in env1:
                k2(s)
        finally:
            I.compile_expr = real_compile
        rec["site"] = _safe(lambda: k2.eval(node2))
        out.append(rec)
    return out


def _has(k, n):
    from klongpy.core import KGSym
    try:
        k._context[KGSym(n)]
        return True
    except KeyError:
        return False


def _run_fn(f):
    import numpy as np
    try:
        v = f()
    except Exception as e:  # noqa
        return ["exc", type(e).__name__]
    return ["ok", canon5(v), 1 if isinstance(v, (np.integer, np.floating, np.bool_)) else 0]


def worker_diff(job):
    """(ii): run programs (lists of statements) in fresh interpreters; returns canon of the captured statements"""
    import klongpy.interpreter as I
    from klongpy import KlongInterpreter
    if job["stub"]:
        I.compile_expr = lambda a, b: None
    kw = {"backend": "torch", "device": "cpu"} if job["backend"] == "torch" else {}
    out = []
    for prog in job["programs"]:
        k = KlongInterpreter(**kw)
        res = []
        for stmt, cap in prog:
            try:
                v = k(stmt)
                if cap:
                    res.append(sx(canon5(v)))
            except Exception as e:  # noqa
                if cap:
                    res.append("EXC")
        out.append(res)
    return out


def _worker_main():
    mode = sys.argv[1]
    job = json.load(sys.stdin)
    if mode == "corr":
        res = worker_corr(job["cases"], job["torch"])
    else:
        res = worker_diff(job)
    sys.stdout.write("RESULT " + json.dumps(res) + "\n")
    sys.stdout.flush()
    os._exit(0)


def call_worker(mode, job, timeout=1500):
    env = dict(os.environ, PYTHONPATH=REPO + ":" + VERIF, PYTHONHASHSEED="0", PYTHONWARNINGS="ignore")
    p = subprocess.run([PY, "-W", "ignore", "-m", "harness.c05", mode], input=json.dumps(job).encode(),
                       stdout=subprocess.PIPE, stderr=subprocess.PIPE, env=env, timeout=timeout, cwd=VERIF)
    for line in p.stdout.decode().split("\n"):
        if line.startswith("RESULT "):
            return json.loads(line[7:])
    raise RuntimeError("worker %s failed: %s" % (mode, p.stderr.decode()[-2000:]))


# ---------------------------------------------------------------- generators
UNARY = [("neg",)] + [("adv", o, a) for a in "/\\" for o in "+*|&"]
BINOPS = ["+", "-", "*", "%", "^", "<", ">", "="]
ATOMS = [("sym", "a"), ("sym", "b"), ("lit", "2"), ("lit", "0.5"), ("lit", "0"), ("lit", "3")]

VALS = {
    "int": ["3", "0", "7", "1"],
    "real": ["2.5", "0.5", "4.0"],
    "v1i": ["[1 2 3]", "[4 0 -2]", "[5]", "[2 2 2]"],
    "v1r": ["[1.5 2.0 -0.5]", "[0.5 2.5 4.0]"],
    "empty": ["[]"],
    "m2": ["[[1 2] [3 4]]", "[[1.5 2.5 0.5]]", "[[1 2 3] [4 5 6]]", "[[0.5 1.5] [2.5 3.5]]"],
    "nested": ["[1 [2 3]]", "[[1 2] [3]]", "[1.5 [2 [3]]]"],
    "npscalar": ["+/[1 2]", "+/[1 -1]", "+/[0.5 1.0]"],
    "text": ['"ab"', "0cx", ":foo", '"a"'],
    "odd": [":{[1 2]}", "1%0", "{x}", "[\"ab\" 1]"],
}
KINDS_NUMERIC = ["int", "real", "v1i", "v1r", "m2"]
KINDS_ALL = list(VALS)


def text_of(t, ren=None):
    k = t[0]
    if k == "sym":
        return (ren or {}).get(t[1], t[1])
    if k == "lit":
        return t[1]
    w = lambda x: text_of(x, ren) if x[0] in ("sym", "lit") else "(" + text_of(x, ren) + ")"
    if k == "neg":
        return "-" + w(t[1])
    if k == "adv":
        return t[1] + t[2] + w(t[3])
    return w(t[2]) + t[1] + w(t[3])


def subtrees(t):
    yield t
    if t[0] == "neg":
        yield from subtrees(t[1])
    elif t[0] == "adv":
        yield from subtrees(t[3])
    elif t[0] == "dy":
        yield from subtrees(t[2])
        yield from subtrees(t[3])


def has_var(t):
    return any(x[0] == "sym" for x in subtrees(t))


def _sync_grammar():
    """the differential's grammar follows the compiler's own op sets: an operator newly admitted by _ARITH_OPS /
    _CMP_OPS / _REDUCE_SCAN_OPS is exercised in every form the compiler handles it"""
    global UNARY, BINOPS
    try:
        sets, _, _, _, _ = read_tables()
    except Exception:
        sets = None
    if sets:
        ar, cm, rs = sets[0], sets[1], sets[2]
        red = [o for o in "+*|&"] + [o for o in rs if o not in "+*|&"]
        UNARY = [("neg",)] + [("adv", o, a) for a in "/\\" for o in red]
        BINOPS = ["+", "-", "*", "%", "^", "<", ">", "="] + [o for o in ar + cm if o not in ["+", "-", "*", "%", "^", "<", ">", "="]]


def all_depth1():
    _sync_grammar()
    out = []
    for u in UNARY:
        for a in ATOMS:
            out.append(("neg", a) if u[0] == "neg" else ("adv", u[1], u[2], a))
    for o in BINOPS:
        for a in ATOMS:
            for b in ATOMS:
                out.append(("dy", o, a, b))
    return [t for t in out if has_var(t)]


def rand_tree(rng, depth):
    if depth == 0 or rng.random() < 0.15:
        if rng.random() < 0.08:
            return ("sym", "c")                 # a third variable (bound once, to 2)
        return rng.choice(ATOMS[:4]) if rng.random() < 0.85 else rng.choice(ATOMS)
    if rng.random() < 0.4:
        u = rng.choice(UNARY)
        c = rand_tree(rng, depth - 1)
        return ("neg", c) if u[0] == "neg" else ("adv", u[1], u[2], c)
    o = rng.choice(BINOPS if rng.random() < 0.8 else ["+", "-", "*", "%"])
    return ("dy", o, rand_tree(rng, depth - 1), rand_tree(rng, depth - 1))


def rand_tree_var(rng, depth):
    for _ in range(50):
        t = rand_tree(rng, depth)
        if has_var(t) and t[0] != "sym":
            return t
    return ("dy", "+", ("sym", "a"), ("sym", "b"))


_FORCE_NUMERIC = [False]


def rand_val(rng, numeric_bias=0.8):
    # torch has no object dtype: under the torch backend nested / text / odd bindings are numpy object arrays mixed
    # with tensors, where the torch interpreter path itself is fragile; the torch shard binds numeric values only
    kinds = KINDS_NUMERIC + ["empty"] if _FORCE_NUMERIC[0] else (KINDS_NUMERIC if rng.random() < numeric_bias else KINDS_ALL)
    return rng.choice(VALS[rng.choice(kinds)])


POSITIONS = ["top", "body", "params", "lambda", "operand", "operand2"]


def program(tree, pos, history):
    """-> list of (statement, capture?) — history = [(a_text, b_text), ...]; the same statement text is
    re-evaluated after each rebinding (same parsed tree, hence the same memoised compilations)"""
    e = text_of(tree)
    pre = []
    if pos == "top":
        stmt = e
    elif pos == "body":
        pre = [("f::{" + e + "}", False)]
        stmt = "f()"
    elif pos == "params":
        pre = [("g::{" + text_of(tree, {"a": "x", "b": "y"}) + "}", False)]
        stmt = "g(a;b)"
    elif pos == "lambda":
        stmt = "{x}(" + e + ")"
    elif pos == "operand":
        stmt = "1,(" + e + ")"
    else:
        stmt = "(" + e + "),," + e if False else "(" + e + "),(" + e + ")"
    prog = [("c::2", False)] + list(pre)
    for a, b in history:
        if a is not None:
            prog.append(("a::" + a, False))
        if b is not None:
            prog.append(("b::" + b, False))
        prog.append((stmt, True))
    return prog


def rand_history(rng, n):
    h = []
    for i in range(n):
        if i == 0:
            h.append((rand_val(rng), rand_val(rng)))
        else:
            r = rng.random()
            nb = 0.5 if rng.random() < 0.5 else 0.9
            h.append((rand_val(rng, nb) if r < 0.8 else None, rand_val(rng, nb) if r > 0.4 else None))
    return h


def diff_cases(rng, tier, scale=1):
    """[(tree, pos, history)]"""
    cases = []
    d1 = all_depth1()
    reps = (3 if tier == "quick" else 12) * scale
    for t in d1:
        for pos in POSITIONS:
            for _ in range(reps if pos in ("top", "body", "params") else max(1, reps // 3)):
                cases.append((t, pos, rand_history(rng, rng.choice([1, 2, 3, 3]))))
    n = (2500 if tier == "quick" else 40000) * scale
    for _ in range(n):
        t = rand_tree_var(rng, rng.choice([2, 2, 3]))
        cases.append((t, rng.choice(POSITIONS), rand_history(rng, rng.choice([1, 2, 3]))))
    return cases


def corr_cases(rng, tier):
    out = []
    d1 = all_depth1()
    reps = 6 if tier == "quick" else 40
    def envs():
        a0, b0 = rand_val(rng, 0.75), rand_val(rng, 0.75)
        if rng.random() < 0.5:
            a1, b1 = a0, b0
        else:
            a1, b1 = rand_val(rng, 0.8), rand_val(rng, 0.8)
        return ["a::" + a0, "b::" + b0], ["a::" + a1, "b::" + b1]
    for t in d1:
        for _ in range(reps):
            e0, e1 = envs()
            out.append({"text": text_of(t), "env0": e0, "env1": e1, "names": ["a", "b"]})
    n = 1500 if tier == "quick" else 20000
    for _ in range(n):
        t = rand_tree_var(rng, rng.choice([2, 3]))
        e0, e1 = envs()
        out.append({"text": text_of(t), "env0": e0, "env1": e1, "names": ["a", "b"]})
    # literal-kind twins one after the other in the same worker process, and literals that overflow to infinity
    for e in ["a*1.0", "a*1", "a+2", "a+2.0", "b-0", "b-0.0", "+/(b*2)", "+/(b*2.0)", "a=3.0", "a=3", "a+1e999", "b<1e999", "1e999-a"]:
        out.append({"text": e, "env0": ["a::3", "b::[1 2 3]"], "env1": ["a::3", "b::[1 2 3]"], "names": ["a", "b"]})
    # a variable that is not defined at compile time, and three variables
    out.append({"text": "a+c", "env0": ["a::1"], "env1": ["a::1"], "names": ["a", "c"]})
    out.append({"text": "(c*a)+(b*c)", "env0": ["a::1", "b::[1 2]", "c::2.5"], "env1": ["a::[1 2]", "b::3", "c::2"], "names": ["a", "b", "c"]})
    out.append({"text": "((c-b)-a)%(a+(b+c))", "env0": ["a::1", "b::[1 2]", "c::2.5"], "env1": ["a::1", "b::[1 2]", "c::2.5"], "names": ["a", "b", "c"]})
    return out


# ---------------------------------------------------------------- comparison
def _res_model(m):
    """model (ok v flag) | (err) | (unm) | (nocomp) -> ('ok', sx(v), flag) | ('err',) | ('unm',) | ('nocomp',)"""
    if m[0] == "ok":
        t = sx(m[1])
        if t in ("(other)", "(obj)", "(hi)"):      # an opaque value passed through: nothing to compare
            return ("unm",)
        return ("ok", t, m[2])
    return (m[0],)


def _res_impl(r):
    if r is None:
        return ("nocomp",)
    if r[0] == "ok":
        return ("ok", sx(r[1]), r[2] if len(r) > 2 else None)
    return ("err",)


_BIG = 2 ** 53


def _out_of_domain(t):
    """an integer at or beyond 2^53, or an infinite/NaN real: outside the magnitudes the model claims (no int64
    wrap-around, no float overflow of integer powers)"""
    import re
    for z in re.findall(r"\(i (-?\d+)\)", t):
        if abs(int(z)) >= _BIG:
            return True
    for z in re.findall(r"\(r (\d+)\)", t):
        if (int(z) >> 52) & 2047 == 2047:
            return True
    return False


def _beyond_magnitude(t, lim=2 ** 31):
    """integers are int64 (or unbounded Python ints) on both paths: judged up to 2^62; reals beyond 2^31 are
    where float32 spacing exceeds 1 and whole-number tests flip"""
    import re
    for z in re.findall(r"\(i (-?\d+)\)", t):
        if abs(int(z)) >= 2 ** 62:
            return True
    for z in re.findall(r"\(r (\d+)\)", t):
        z = int(z)
        if (z >> 52) & 2047 != 2047 and abs(struct.unpack(">d", struct.pack(">Q", z))[0]) >= lim:
            return True
    return False


def same_res(m, i, flag=False, power=False, big=False):
    if m[0] == "unm":
        return None
    if (power or big) and ((m[0] == "ok" and _out_of_domain(m[1])) or (i[0] == "ok" and _out_of_domain(i[1]))):
        return None
    if m[0] != i[0]:
        return False
    if m[0] == "ok":
        if m[1] != i[1] and power:
            # a real power is modelled by repeated multiplication: not bit exact when the products are inexact
            try:
                if _close(parse_sx(m[1]), parse_sx(i[1]), ulps=64):
                    return None
            except Exception:
                pass
        return m[1] == i[1] and (not flag or i[2] is None or m[2] == i[2])
    return True


def check_corr(chk, rng, tier):
    cases = corr_cases(rng, tier)
    recs = []
    n = max(1, min(4, len(cases) // 400))
    # split over a few worker processes
    import concurrent.futures as cf
    chunks = [cases[i::n] for i in range(n)]
    with cf.ThreadPoolExecutor(n) as ex:
        parts = list(ex.map(lambda c: call_worker("corr", {"cases": c, "torch": True}), chunks))
    recs = [None] * len(cases)
    for j, part in enumerate(parts):
        for i2, r in enumerate(part):
            recs[j + i2 * n] = r
    reqs = [sx(["case", r["expr"], r["env0"], r["env1"]]) for r in recs]
    outs = chk.run_model(reqs)
    bad_corr = None
    bad_prop = None
    seen = set()
    for case, rec, out in zip(cases, recs, outs):
        chk.count("evaluations")
        chk.count("corr_cases")
        if out[0] == "bad":
            if bad_corr is None:
                bad_corr = {"kind": "model-decode", "case": case, "model": repr(out)[:300]}
            continue
        m = {x[0]: x[1] for x in out}
        what = None
        pw = "^" in case["text"]
        big = pw or "*" in case["text"]
        # (i) plain data: IR tree, parameters, symbols, source text
        if sx(m["np"]) != sx(rec["np"]):
            what = "ast_to_ir/collect_params/ir_to_source (numpy)"
        elif rec["np"][0] == "some" and [sx(x) for x in rec["collect"]] != [sx(x) for x in m["np"][2][1:]]:
            what = "_collect_params"
        elif "torch_src" in rec:
            mt = m["torch"]
            msrc = None if mt[0] == "none" else sx(mt[4][1:])
            isrc = None if rec["torch_src"] is None else sx(rec["torch_src"])
            if msrc != isrc:
                what = "ir_to_source (torch)"
        if what is None:
            chk.count("corr_compile_agree")
            if "torch_src" in rec:
                chk.count("corr_torch_source_compared")
            if rec["np"][0] == "some":
                chk.count("corr_compiled")
                r = same_res(_res_model(m["run"]), _res_impl(rec.get("run")), flag=True, power=pw, big=big)
                if r is None:
                    chk.count("corr_run_unmodelled")
                elif not r:
                    what = "run of the emitted text (eval_ir)"
                else:
                    chk.count("corr_run_agree")
            if what is None:
                r = same_res(_res_model(m["interp"]), _res_impl(rec["interp"]), power=pw, big=big)
                if r is None:
                    chk.count("corr_interp_unmodelled")
                elif not r:
                    what = "tree-walking interpreter (interp)"
                else:
                    chk.count("corr_interp_agree")
            if what is None:
                # the model's site has no compiled sub-nodes: outside D5 a sub-node compiled on its own may
                # carry a known finding into the interpreter's fallback path, so compare on D5 only
                r = same_res(_res_model(m["site"]), _res_impl(rec["site"]), power=pw, big=big) if m["d5"] == 1 else None
                if r is None:
                    chk.count("corr_site_unmodelled")
                elif not r:
                    what = "evaluation site (compiled with fallback)"
                else:
                    chk.count("corr_site_agree")
                    if m["d5"] == 1 and rec["np"][0] == "some":
                        chk.count("corr_site_in_D5")
                        key = (case["text"], sx(rec["env1"]))
                        if key not in seen:
                            seen.add(key)
                            chk.count("distinct_nontrivial")
        if what is not None and bad_corr is None:
            bad_corr = {"kind": what, "case": case, "model": {k: sx(v)[:400] for k, v in m.items()},
                        "impl": {k: (sx(v)[:400] if v is not None else None) for k, v in rec.items() if k in ("np", "run", "interp", "site", "torch_src")}}
        # the property on the implementation, same data: the site equals the stubbed interpreter
        si, ii = _res_impl(rec["site"]), _res_impl(rec["interp"])
        if not (si[0] == ii[0] and (si[0] != "ok" or si[1] == ii[1])):
            chk.count("corr_site_differs_from_interp")
            if bad_prop is None:
                bad_prop = case
        chk.sample({"expr": case["text"], "env0": case["env0"], "env1": case["env1"],
                    "compiled": rec["np"][0], "site": sx(rec["site"])[:80]}, limit=5)
    return bad_corr, bad_prop


# ---------------------------------------------------------------- (ii) the differential and attribution of differences
FINDINGS = {}


def _intify(o):
    """integral reals -> integers (finding K4 changes nothing else)"""
    if isinstance(o, list):
        if len(o) == 2 and o[0] == "r" and isinstance(o[1], int):
            x = struct.unpack(">d", struct.pack(">Q", o[1]))[0]
            if x == x and not math.isinf(x) and x == math.floor(x):
                return ["i", int(x)]
            if math.isinf(x):
                return ["i", -2 ** 63]          # what ndarray.astype(int) makes of an infinite "whole" result
            return o
        return [_intify(x) for x in o]
    return o


def _close(a, b, ulps=2):
    """same structure and kinds; reals within a few units in the last place (libm pow vs NumPy's pow)"""
    if isinstance(a, list) and isinstance(b, list):
        if len(a) == 2 and len(b) == 2 and a[0] == "r" and b[0] == "r":
            return abs(a[1] - b[1]) <= ulps
        return len(a) == len(b) and all(_close(x, y, ulps) for x, y in zip(a, b))
    return a == b


def _is_infnan(s):
    try:
        o = parse_sx(s)
    except Exception:
        return False
    if isinstance(o, list) and len(o) == 2 and o[0] == "r":
        x = struct.unpack(">d", struct.pack(">Q", o[1]))[0]
        return x != x or math.isinf(x)
    return False


def _has_infnan(s):
    if s == "EXC":
        return False
    def walk(o):
        if isinstance(o, list):
            if len(o) == 2 and o[0] == "r" and isinstance(o[1], int):
                x = struct.unpack(">d", struct.pack(">Q", o[1]))[0]
                return x != x or math.isinf(x)
            return any(walk(x) for x in o)
        return False
    try:
        return walk(parse_sx(s))
    except Exception:
        return False


def classify_pair(op, normal, stub):
    """a differing pair of results of an innermost differing subexpression rooted at op, evaluated alone
    -> finding id or None.  The numpy-side classes (Power as **, Divide as /) were repaired in /repo
    (c833409, 51bfaf4): no difference is attributed to a known finding here any more."""
    return None


def run_diff(progs, backend, nproc=4):
    import concurrent.futures as cf
    n = max(1, min(nproc, len(progs) // 300))
    res = {}
    def one(args):
        stub, j = args
        return call_worker("diff", {"stub": stub, "backend": backend, "programs": progs[j::n]})
    jobs = [(stub, j) for stub in (False, True) for j in range(n)]
    with cf.ThreadPoolExecutor(2 * n) as ex:
        parts = list(ex.map(one, jobs))
    out = {False: [None] * len(progs), True: [None] * len(progs)}
    for (stub, j), part in zip(jobs, parts):
        for i2, r in enumerate(part):
            out[stub][j + i2 * n] = r
    return out[False], out[True]


def attribute_all(items, backend):
    """items = [(tree, binds)].  Evaluate every subexpression alone (fresh interpreter, the bindings in force) in
    both modes, one batch; a difference is a known finding iff every innermost differing subexpression is one.
    -> [(set of finding ids | None, reason)]"""
    progs, index = [], []
    for n, (tree, binds) in enumerate(items):
        for t in subtrees(tree):
            if t[0] in ("sym", "lit"):
                continue
            progs.append([(b, False) for b in binds] + [(text_of(t), True)])
            index.append((n, t))
    normal, stub = run_diff(progs, backend) if progs else ([], [])
    per = {}
    for (n, t), a, b in zip(index, normal, stub):
        per.setdefault(n, []).append((t, a[0], b[0]))
    out = []
    for n in range(len(items)):
        subs = per.get(n, [])
        differing = [t for t, a, b in subs if a != b]
        if not differing:
            out.append((None, "no subexpression differs on its own (history / position dependent)"))
            continue
        ids, why = set(), None
        for t, a, b in subs:
            if a == b:
                continue
            if any(u is not t and u in differing for u in subtrees(t)):
                continue
            op = t[1] if t[0] == "dy" else None
            fid = classify_pair(op, a, b)
            if fid is None and backend == "torch" and a != "EXC" and b != "EXC":
                try:
                    if _close(parse_sx(a), parse_sx(b), ulps=2 ** 31):      # a few units in the last place of binary32
                        fid = "C05-torch-single-precision"
                except Exception:
                    pass
            if fid is None and backend == "torch":
                und = {text_of(u2) for u2, a2, b2 in subs if b2 == "(u 1)"}
                if any(u is not t and text_of(u) in und for u in subtrees(t)):
                    fid = "C05-torch-undefined-operand"
            if fid is None:
                why = "subexpression %s: compiled %s, interpreter %s" % (text_of(t), a, b)
                break
            ids.add(fid)
        out.append((None, why) if why else (ids, None))
    return out


def check_diff(chk, rng, tier, backend, scale=1):
    _FORCE_NUMERIC[0] = backend == "torch"
    try:
        cases = diff_cases(rng, tier, scale)
    finally:
        _FORCE_NUMERIC[0] = False
    if backend == "torch":
        cases = cases[:: (3 if tier == "thorough" else 6)]
    progs = [program(t, pos, h) for t, pos, h in cases]
    normal, stub = run_diff(progs, backend)
    seen = set()
    differing = []
    for (t, pos, h), prog, a, b in zip(cases, progs, normal, stub):
        chk.count("evaluations", len(a))
        chk.count("diff_programs_" + backend)
        chk.count("diff_pos_" + pos)
        if any(x != "EXC" for x in a):
            key = (text_of(t), pos)
            if key not in seen:
                seen.add(key)
                chk.count("distinct_nontrivial")
        if a == b:
            continue
        if any(_beyond_magnitude(x) for x in a + b):
            # magnitudes at or beyond 2^31: int64 wrap-around / float overflow to inf converted to integers /
            # float32 spacing > 1 are outside the stated domain (DESIGN section 2: operands below 2^31)
            chk.count("diff_outside_magnitude_" + backend)
            continue
        chk.count("diff_differing_" + backend)
        steps = [i for i, (x, y) in enumerate(zip(a, b)) if x != y]
        if backend == "torch":
            # float64 (Python scalars, compiled) against float32 tensors (interpreted): same structure and kinds,
            # reals equal to single precision -> the torch precision finding, wherever it surfaces
            def prec(x, y):
                try:
                    return x != "EXC" and y != "EXC" and _close(parse_sx(x), parse_sx(y), ulps=2 ** 31)
                except Exception:
                    return False
            rest = [i for i in steps if not prec(a[i], b[i])]
            if len(rest) < len(steps):
                chk.count("diff_known_C05-torch-single-precision")
                chk.finding("C05-torch-single-precision", "single precision", {"program": [s for s, _ in prog], "with_compiler": a, "compile_expr_stubbed": b})
            steps = rest
            if not steps:
                continue
        # the bindings in force at the first (remaining) differing step
        step = steps[0]
        cur, k = {}, -1
        for stmt, cap in prog:
            if cap:
                k += 1
                if k == step:
                    break
            elif stmt.startswith("a::") or stmt.startswith("b::"):
                cur[stmt[0]] = stmt
        differing.append((t, pos, prog, a, b, ["c::2"] + [cur[x] for x in sorted(cur)]))
    bad = None
    verdicts = attribute_all([(d[0], d[5]) for d in differing], backend)
    for (t, pos, prog, a, b, binds), (ids, why) in zip(differing, verdicts):
        if ids:
            for fid in sorted(ids):
                chk.count("diff_known_" + fid)
                chk.finding(fid, "compiled != interpreted: %s" % text_of(t), {"program": [s for s, _ in prog], "with_compiler": a, "compile_expr_stubbed": b})
            continue
        if bad is None:
            bad = {"kind": "compiled != interpreted", "backend": backend, "position": pos, "expression": text_of(t),
                   "program": [s for s, _ in prog], "with_compiler": a, "compile_expr_stubbed": b, "why_not_known": why}
    chk.sample({"backend": backend, "programs": len(progs), "differing": len(differing)}, limit=8)
    return bad


# ---------------------------------------------------------------- targeted families (no ^ and no %: any difference is a violation)
TWIN_LITS = [("1", "1.0"), ("0", "0.0"), ("2", "2.0"), ("10", "10.0")]


def twin_programs():
    """expressions that differ ONLY in a numeric literal written as integer or as real, evaluated one after the
    other in the same interpreter and process, both orders: a compilation must not leak from one to the other"""
    progs = []
    for op in ["+", "-", "*", "<", ">", "="]:
        for li, lr in TWIN_LITS:
            forms = [("a%s%s" % (op, li), "a%s%s" % (op, lr)), ("%s%sa" % (li, op), "%s%sa" % (lr, op)),
                     ("+/(a%s%s)" % (op, li), "+/(a%s%s)" % (op, lr))]
            for v in ["3", "[1 2 3]", "2.5"]:
                for e1, e2 in forms:
                    for x, y in ((e1, e2), (e2, e1)):
                        progs.append([("a::" + v, False), (x, True), (y, True)])
                for x, y in ((li, lr), (lr, li)):
                    progs.append([("f::{,x%s%s}" % (op, x), False), ("g::{,x%s%s}" % (op, y), False),
                                  ("f(%s)" % v, True), ("g(%s)" % v, True), ("f(%s)" % v, True)])
    return progs


def atom_programs():
    """reduce / scan over a variable that is, or becomes, an atom (a function argument, a rebinding)"""
    progs = []
    for op in "+*|&":
        for adv in "/\\":
            r = op + adv
            for atom in ["3", "2.5"]:
                for e in [r + "a", "1+" + r + "a", "," + r + "a", r + "a*2"]:
                    progs.append([("a::" + atom, False), (e, True)])
                progs.append([("f::{,%sx}" % r, False), ("f([1 2 3])", True), ("f(%s)" % atom, True), ("f([4 5])", True)])
                progs.append([("g::{1+%sx*2}" % r, False), ("g([1 5 2])", True), ("g(%s)" % atom, True)])
                progs.append([("a::[1 2 3]", False), ("b::2", False), ("s::{%sa*b}" % r, False), ("s()", True),
                              ("a::" + atom, False), ("s()", True), ("b::[1 2]", False), ("s()", True), ("a::[3 4]", False), ("s()", True)])
    return progs


def huge_literal_programs():
    """real literals that overflow to infinity: repr() of them is not a Python literal"""
    progs = []
    for v in ["1", "2.5", "[1 2 3]"]:
        for e in ["a+1e999", "a<1e999", "a*1e999", "1e999-a", "a>-1e999", "a-(1e308*10)", "+/a+1e999", "a=1e999", "-1e999+a"]:
            progs.append([("a::" + v, False), (e, True)])
        progs.append([("h::{x+1e999}", False), ("h(%s)" % v, True)])
        # literals whose text needs every digit (the emitted source must reproduce the value exactly)
        for e in ["a+0.123456789", "a*1234567.5", "a+100000001", "a-0.1", "a*1.0e-7", "a+123456789012", "a<0.30000000000000004"]:
            progs.append([("a::" + v, False), (e, True)])
    return progs


def cond_programs():
    """a compilable monad applied DIRECTLY to a conditional whose condition and branches are compilable:
    -:[c;t;e] and -(:[c;t;e]) at top level, in function bodies (globals and parameters) and as operand of other verbs"""
    progs = []
    conds = ["a>3", "a<b", "a=b", "(a+b)>4", "b>a*2"]
    branches = [("b", "c"), ("a*2", "b-1"), ("a+b", "a-b")]
    binds = [("5", "7"), ("2", "7"), ("7", "2"), ("2.5", "2.5"), ("0", "1")]
    for cnd in conds:
        for t, e in branches:
            cx = ":[%s;%s;%s]" % (cnd, t, e)
            forms = ["-" + cx, "-(" + cx + ")", "1+-" + cx, "(-" + cx + ")*2", "1,-" + cx, "-" + cx + ",1", "--" + cx]
            for a, b in binds[:3]:
                progs.append([("a::" + a, False), ("b::" + b, False), ("c::9", False)] + [(f, True) for f in forms])
            progs.append([("f::{-" + cx + "}", False), ("h::{1+-(" + cx + ")}", False), ("c::9", False)] +
                         sum([[("a::" + a, False), ("b::" + b, False), ("f()", True), ("h()", True)] for a, b in binds], []))
        gx = ":[%s;x;y]" % cnd.replace("a", "x").replace("b", "y")
        progs.append([("g::{-" + gx + "}", False), ("k::{(-" + gx + ")+x}", False)] +
                     sum([[("g(%s;%s)" % (a, b), True), ("k(%s;%s)" % (a, b), True)] for a, b in binds], []))
    return progs


def cmp_arith_programs():
    """arithmetic whose operands are comparisons (truth values are 0/1 INTEGERS: a sum of two counts to 2), over
    tensors/arrays, scalars, and a memoised body rebound from scalars to vectors"""
    progs = []
    exprs = ["(a>b)+(a>c)", "(a>b)*(a>c)", "((a>b)+(a>c))+(b<c)", "((a>b)+(a>c))*2", "+/((a>b)+(a>c))", "(a>b)-(a<c)",
             "(a=b)+(a=c)", "(a>b)+((a>c)*(a>b))", "-((a>b)+(a>c))", "(a>0)+(a>1)", "((a>b)+(a>c))=2"]
    binds = [("[3 1 2 5]", "[1 1 1 1]", "[0 2 0 0]"), ("3", "1", "0"), ("[[3 1] [2 5]]", "1", "[0 2]"), ("2.5", "[1.5 3.5]", "0")]
    for e in exprs:
        for a, b, c in binds:
            progs.append([("a::" + a, False), ("b::" + b, False), ("c::" + c, False), (e, True), ("1," + e, True)])
        ex = e.replace("a", "x").replace("b", "y").replace("c", "z")
        progs.append([("f::{" + ex + "}", False), ("f(3;1;0)", True), ("f([3 1 2 5];[1 1 1 1];[0 2 0 0])", True), ("f(3;1;0)", True)])
        progs.append([("s::{" + e + "}", False), ("a::3", False), ("b::1", False), ("c::0", False), ("s()", True),
                      ("a::[3 1 2 5]", False), ("s()", True), ("c::[0 2 0 0]", False), ("s()", True)])
    return progs


# one witness per REPAIRED finding, replayed first at every run: a regression gives a concrete replay at once
FIXED_CORPUS = [
    ("C05-scan-flatten", "numpy", ["a::[[1 2] [3 4]]", "+\\a", "*\\a", "a::5", "+\\a"]),
    ("C05-memo-type-change", "numpy", ["f::{1,x*y}", "f(2;3)", 'f("ab";3)']),
    ("C05-memo-type-change", "numpy", ["a::[1 2 3]", "+/a", "a::[]", "+/a", "*/a"]),
    ("C05-nested-list-operands", "numpy", ["a::[1.5 [2 [3]]]", "(*/a)<0.5", "a::[1 [2 3]]", "b::0", "(-a)%(b%2)"]),
    ("C05-power-kind", "numpy", ["a::4", "a^0.5", "a::4.0", "a^2", "a::1", "a^-1", "a::2.5", "a^a"]),
    ("C05-divide-numpy-zero", "numpy", ["a::[1 2 3]", "(+/a)%0", "v::[3 -1 -2]", "1%+/v", "f::{(+/x)%y}", "f([1 2];0)"]),
    ("C05-negate-conditional", "numpy", ["a::5", "b::7", "c::9", "-:[a>3;b;c]", "-(:[a>3;b;c])", "g::{-:[x>y;x;y]}", "g(2;7)", "g(7;2)"]),
    ("C05-torch-scan-0d", "torch", ["a::[1 2 3]", "*\\(+/a)", "f::{&\\(|/x)}", "f([1 5 2])"]),
    ("C05-torch-equal-operand", "torch", ["a::4.0", "(a=2)>0", "(&/(2=a))<3"]),
    ("C05-torch-reduce-axis", "torch", ["a::[[1 2] [3 4]]", "f::{+/a}", "f()", "*/a"]),
    ("C05-negate-conditional", "torch", ["g::{-:[x>y;x;y]}", "g(2;7)", "g(7;2)"]),
]


def check_fixed_corpus(chk):
    bad = []
    for backend in ("numpy", "torch"):
        items = [(fid, st) for fid, be, st in FIXED_CORPUS if be == backend]
        progs = [[(s, True) for s in st] for _, st in items]
        normal, stub = run_diff(progs, backend, nproc=1)
        for (fid, st), a, b in zip(items, normal, stub):
            chk.count("evaluations", len(a))
            chk.count("fixed_corpus_witnesses")
            if a != b:
                bad.append({"kind": "regression of repaired finding " + fid, "backend": backend, "position": "fixed corpus", "expression": fid,
                            "program": st, "with_compiler": a, "compile_expr_stubbed": b})
    return bad


def check_targeted(chk, backend, progs, label):
    normal, stub = run_diff(progs, backend, nproc=2)
    bad = None
    for prog, a, b in zip(progs, normal, stub):
        chk.count("evaluations", len(a))
        chk.count("targeted_%s_%s" % (label, backend))
        if a != b and bad is None:
            bad = {"kind": "compiled != interpreted", "backend": backend, "position": label, "expression": prog[-1][0],
                   "program": [s for s, _ in prog], "with_compiler": a, "compile_expr_stubbed": b}
    return bad


def replay_findings(chk):
    """step 2: the witnesses of the known findings still fail as the model predicts"""
    gone = []
    for fid, w in FINDINGS.items():
        prog = [[(s, i == len(w["prog"]) - 1) for i, s in enumerate(w["prog"])]]
        normal, stub = run_diff(prog, "numpy", nproc=1)
        a, b = normal[0][0], stub[0][0]
        chk.count("evaluations", 2)
        if a != b and classify_pair(w["tree"][1], a, b) == fid:
            chk.finding(fid, "witness %r: compiled %s, interpreter %s" % (w["prog"], a, b), {"program": w["prog"]})
        else:
            gone.append({"finding": fid, "program": w["prog"], "with_compiler": a, "compile_expr_stubbed": b})
    return gone


def run(tier, replay=None):
    chk = Check("C05", tier)
    rng = random.Random(chk.seed)
    chk.generate(generate())
    chk.build_model()
    hits = forbidden_scan("C05")
    proof = chk.build_proofs()
    if hits:
        proof["ok"] = False
        proof["error"] = "forbidden declarations: %r" % hits
        proof["broken"] = hits[0]
    gone = replay_findings(chk)
    regress = check_fixed_corpus(chk)
    bad_corr, bad_prop_i = check_corr(chk, rng, tier)
    bad = check_diff(chk, rng, tier, "numpy")
    bad_t = check_diff(chk, rng, tier, "torch") if tier == "thorough" else None
    targeted = []
    # one process per mode for the twins: a process-wide compilation cache would be shared inside it
    for backend, progs, label in (("numpy", twin_programs(), "literal_kind_twins"), ("numpy", atom_programs(), "atom_operand"),
                                  ("numpy", huge_literal_programs(), "huge_literal"), ("numpy", cond_programs(), "monad_of_conditional"),
                                  ("numpy", cmp_arith_programs(), "arithmetic_of_comparisons"),
                                  ("torch", atom_programs() + twin_programs()[::7] + cond_programs()[::3], "atom_operand"),
                                  ("torch", cmp_arith_programs(), "arithmetic_of_comparisons")):
        targeted.append(check_targeted(chk, backend, progs, label))
    for bp in regress + [bad, bad_t] + targeted:
        if bp is not None:
            chk.violation("the value of an expression depends on whether the expression compiler handled it (%s backend, %s position): %s"
                          % (bp["backend"], bp["position"], bp["expression"]), bp)
    if not chk.violations and (bad_corr is not None or gone or not proof["ok"]):
        # something no longer checks: search wider for a failing input of the property itself
        print("C05: %s; searching for a failing input" % (
            ("model and implementation disagree on " + bad_corr["kind"]) if bad_corr is not None else
            ("known finding gone: " + gone[0]["finding"]) if gone else ("proof obligation broken: %s" % proof["broken"])), flush=True)
        wide = check_diff(chk, random.Random(chk.seed + 1), tier, "numpy", scale=3)
        if wide is not None:
            chk.violation("the value of an expression depends on whether the expression compiler handled it (%s position): %s"
                          % (wide["position"], wide["expression"]), wide)
        else:
            n = chk.counters.get("evaluations", 0)
            if bad_corr is not None:
                chk.violation("correspondence between klongpy and the Coq model broke (%s); no failing input of the property found in %d evaluations"
                              % (bad_corr["kind"], n), {"broken": "correspondence C05/Model.v", "detail": bad_corr}, no_input=True)
            elif gone:
                chk.violation("a known finding no longer reproduces as the model predicts (%s); no other failing input found in %d evaluations"
                              % (gone[0]["finding"], n), {"broken": "known-finding witness", "detail": gone}, no_input=True)
            else:
                chk.violation("proof obligation no longer checks: %s" % proof["broken"],
                              {"broken_obligation": proof["broken"], "coq_error": proof["error"], "generated": chk.generated_text}, no_input=True)
    return chk.finish(
        rule="(i) every compilable-grammar expression of depth <= 1 x seeded (compile-time, run-time) binding pairs + seeded depth 2-3 expressions: real "
             "_ast_to_ir/_collect_params/_ir_to_source(np, torch)/compiled fn/stubbed interpreter vs extracted model; (ii) expressions x 6 evaluation "
             "positions x rebinding histories of length <= 3 over {int, real, rank-1 int/real, empty, rank-2, nested, NumPy scalar, text, odd}: "
             "interpreter vs interpreter with compile_expr stubbed. distinct = distinct (expression, run-time bindings) in D5 / (expression, position)",
        trusted_base=TRUSTED, assumptions=ASSUME)


if __name__ == "__main__":
    _worker_main()
