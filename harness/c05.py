"""C05 — compiled and interpreted execution of an expression are indistinguishable.

Link 1 (Coq): coq/C05/Properties.v — T5.src, T5.equiv (site = interpreter on D5, any nesting, any
rebinding history), T5.fallback, refuted witnesses for the finding classes.
Link 2 (here):
  (i)  the real _ast_to_ir tuple tree, _collect_params list and _ir_to_source / exec'd source text,
       against the extracted model (plain data / string equality), and the value of the compiled
       function and of the stubbed interpreter against the model's eval_ir / interp;
  (ii) the property's own differential: the same program in two interpreters, one of them with
       klongpy.interpreter.compile_expr replaced by a stub returning None.
"""
import ast
import itertools
import json
import math
import os
import random
import struct
import subprocess
import sys

from . import astlib
from .astlib import ShapeError
from .common import Check, sx, parse_sx, forbidden_scan, PY, VERIF, REPO

TRUSTED = [
    "Coq 8.16.1 kernel (coqc); vm_compute in the closed checks over the regenerated tables and in the refuted witnesses / Examples",
    "Print Assumptions: every C05 theorem closed under the global context (no axioms); reals are Coq.Floats.SpecFloat binary64",
    "translator harness/c05.py:generate (Python ast): _ARITH_OPS/_CMP_OPS/_REDUCE_SCAN_OPS, the op->text dictionaries and f-string templates of both backends' _ir_to_source, shape of KlongInterpreter._compiled_args and of the three call sites",
    "extraction: ExtrOcamlBasic only; Z, positive, spec_float kept as extracted inductives; ocaml/driver.ml",
    "correspondence harness: expression/binding enumerators, encoding of klongpy syntax trees and values (harness/c05.py), Python/NumPy themselves as the meaning of the emitted text",
]
ASSUME = [
    "Python/NumPy operator semantics on ints, binary64 reals, rank-1 and rank-2 ndarrays are as modelled in coq/C05/Model.v (np_lift2, ufunc_reduce, ufunc_accumulate, Python scalar arithmetic, ZeroDivisionError); sampled exactly by link 2 on every run",
    "integers stay below 2^53 in magnitude: int64 wrap-around, exact int/float comparison of huge ints and correctly rounded int/int division are not modelled (theorems are over unbounded Z)",
    "np.add.reduce on >= 8 contiguous floats uses pairwise summation; both execution paths call the same ufunc, the model folds left (generated real arrays have < 8 elements)",
    "repr(float) is passed through from Python as the text of a real literal; exec of a well-formed `def _expr(...)` does not fail",
    "a^b is modelled only for a non-negative integer exponent (repeated multiplication); other exponents are compared on the implementation only",
    "under the torch backend the run-time meaning of the emitted text is validated differentially, not proved (T5.src and T8.accept hold at the string/table level)",
]

HOLES = {"binop": ["l", "py_op", "r"], "cmp": ["l", "py_cmp", "r"], "negate": ["child"],
         "reduce": ["method", "arg_src"], "scan": ["method", "arg_src"]}


# ---------------------------------------------------------------- translator
def _set_of_consts(node, what):
    if not isinstance(node, ast.Set):
        raise ShapeError("%s is not a set literal" % what)
    return sorted(astlib.const(e) for e in node.elts)


def _branches(fn):
    """{'binop': body, ...} for the `if node_type == '<k>':` blocks of _ir_to_source"""
    out = {}
    for st in fn.body:
        if isinstance(st, ast.If) and isinstance(st.test, ast.Compare) and len(st.test.ops) == 1 \
                and isinstance(st.test.ops[0], ast.Eq) and isinstance(st.test.left, ast.Name) \
                and st.test.left.id == "node_type" and isinstance(st.test.comparators[0], ast.Constant):
            out[st.test.comparators[0].value] = st
    return out


def _table_and_template(branch, kind):
    dicts = [n for n in ast.walk(branch) if isinstance(n, ast.Dict)]
    if len(dicts) != 1:
        raise ShapeError("%s: expected exactly one dict literal" % kind)
    tbl = [(astlib.const(k), astlib.const(v)) for k, v in zip(dicts[0].keys, dicts[0].values)]
    tpl = _template(branch, kind)
    return tbl, tpl


def _template(branch, kind):
    rets = [n for n in branch.body if isinstance(n, ast.Return)]
    if len(rets) != 1 or not isinstance(rets[0].value, ast.JoinedStr):
        raise ShapeError("%s: last statement is not `return f'...'`" % kind)
    parts = []
    for v in rets[0].value.values:
        if isinstance(v, ast.Constant):
            parts.append(("L", v.value))
        elif isinstance(v, ast.FormattedValue) and isinstance(v.value, ast.Name) and v.conversion == -1 and v.format_spec is None:
            parts.append(("H", v.value.id))
        else:
            raise ShapeError("%s: f-string part not understood" % kind)
    holes = [p[1] for p in parts if p[0] == "H"]
    if sorted(holes) != sorted(HOLES[kind]):
        raise ShapeError("%s: holes %r" % (kind, holes))
    return parts


def backend_tables(relpath, cls):
    m = astlib.module(relpath)
    fn = astlib.find_func(astlib.find_class(m, cls), "_ir_to_source")
    br = _branches(fn)
    for k in ("literal", "var", "binop", "cmp", "negate", "reduce", "scan"):
        if k not in br:
            raise ShapeError("_ir_to_source: no branch for %s" % k)
    # literal -> repr(ir[1]); var -> ir[1]
    lit = br["literal"].body
    if not (len(lit) == 1 and isinstance(lit[0], ast.Return) and ast.unparse(lit[0].value) == "repr(ir[1])"):
        raise ShapeError("literal branch is not `return repr(ir[1])`")
    var = br["var"].body
    if not (len(var) == 1 and isinstance(var[0], ast.Return) and ast.unparse(var[0].value) == "ir[1]"):
        raise ShapeError("var branch is not `return ir[1]`")
    out = {}
    for k in ("binop", "cmp", "reduce", "scan"):
        out[k] = _table_and_template(br[k], k)
    out["negate"] = ([], _template(br["negate"], "negate"))
    return out


GUARD_TEST = "not(tvisintortvisfloator(isinstance(v,ndarray)andself._backend.array_size(v)>0))"


def guard_flag():
    """all three compiled call sites fetch operands through _compiled_args, which repeats the admission test"""
    m = astlib.module("klongpy/interpreter.py")
    cls = astlib.find_class(m, "KlongInterpreter")
    if not astlib.has_method(cls, "_compiled_args"):
        return False
    g = astlib.find_func(cls, "_compiled_args")
    ok_test = False
    for n in ast.walk(g):
        if isinstance(n, ast.If) and any(isinstance(b, ast.Raise) for b in n.body):
            if ast.unparse(n.test).replace(" ", "") == GUARD_TEST:
                ok_test = True
    if not ok_test:
        return False
    # ndarray must be the backend's array class, v the context value of the symbol
    src = ast.unparse(g).replace(" ", "")
    if "ndarray=self._backend.np.ndarray" not in src or "v=self._context[s]" not in src or "tv=type(v)" not in src:
        return False
    n_sites = 0
    for name in ("eval", "__call__"):
        f = astlib.find_func(cls, name)
        for c in ast.walk(f):
            if isinstance(c, ast.Call) and isinstance(c.func, ast.Name) and c.func.id == "fn":
                if not (len(c.args) == 1 and isinstance(c.args[0], ast.Starred)
                        and ast.unparse(c.args[0].value) == "self._compiled_args(var_syms)"):
                    return False
                n_sites += 1
    return n_sites == 3


def _coq_tbl(tbl):
    return astlib.coq_list(["(%s, %s)" % (astlib.coq_string(k), astlib.coq_string(v)) for k, v in tbl])


def _coq_tpl(parts):
    return astlib.coq_list([("TL %s" if k == "L" else "TH %s") % astlib.coq_string(v) for k, v in parts])


def _coq_tables(name, sets, bt):
    if bt is None:
        body = ("arith_ops := []; cmp_ops := []; redscan_ops := []; t_bin := []; t_cmp := []; t_red := []; t_scan := [];\n"
                "  f_bin := []; f_cmp := []; f_neg := []; f_red := []; f_scan := []")
    else:
        ar, cm, rs = sets
        body = ("arith_ops := %s; cmp_ops := %s; redscan_ops := %s;\n  t_bin := %s;\n  t_cmp := %s;\n  t_red := %s;\n  t_scan := %s;\n"
                "  f_bin := %s;\n  f_cmp := %s;\n  f_neg := %s;\n  f_red := %s;\n  f_scan := %s") % (
            astlib.coq_list([astlib.coq_string(x) for x in ar]), astlib.coq_list([astlib.coq_string(x) for x in cm]),
            astlib.coq_list([astlib.coq_string(x) for x in rs]),
            _coq_tbl(bt["binop"][0]), _coq_tbl(bt["cmp"][0]), _coq_tbl(bt["reduce"][0]), _coq_tbl(bt["scan"][0]),
            _coq_tpl(bt["binop"][1]), _coq_tpl(bt["cmp"][1]), _coq_tpl(bt["negate"][1]), _coq_tpl(bt["reduce"][1]), _coq_tpl(bt["scan"][1]))
    return "Definition %s : tables := {|\n  %s |}." % (name, body)


def read_tables():
    def sets():
        m = astlib.module("klongpy/compiler.py")
        return (_set_of_consts(astlib.module_assign(m, "_ARITH_OPS"), "_ARITH_OPS"),
                _set_of_consts(astlib.module_assign(m, "_CMP_OPS"), "_CMP_OPS"),
                _set_of_consts(astlib.module_assign(m, "_REDUCE_SCAN_OPS"), "_REDUCE_SCAN_OPS"))
    s, why_s = astlib.try_flag(sets)
    npt, why_n = astlib.try_flag(lambda: backend_tables("klongpy/backends/numpy_backend.py", "NumpyBackendProvider"))
    tot, why_t = astlib.try_flag(lambda: backend_tables("klongpy/backends/torch_backend.py", "TorchBackendProvider"))
    try:
        g, why_g = astlib.try_flag(guard_flag)
    except Exception as e:  # any unexpected shape: fail closed
        g, why_g = False, repr(e)
    return s, npt, tot, bool(g), [w for w in (why_s, why_n, why_t, why_g) if w]


def generate(prop="C05"):
    s, npt, tot, g, why = read_tables()
    out = ["From Coq Require Import List String.", "From %s Require Import Model." % prop, "Import ListNotations.",
           "Open Scope string_scope."]
    for w in why:
        out.append("(* shape not recognised: %s *)" % w.replace("*)", "* )"))
    out.append(_coq_tables("np_tables", s, npt if s is not None else None))
    out.append(_coq_tables("torch_tables", s, tot if s is not None else None))
    out.append("Definition call_guard : bool := %s." % astlib.coq_bool(g))
    return "\n".join(out) + "\n"
