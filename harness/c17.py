"""C17 — a completed key-value set survives a crash; an interrupted one harms no other key.

Link 1 (Coq): coq/C17/Properties.v — verified checker check_crash (soundness), isolation for all flags/variants,
              durability of every sequence of sets for the code's regenerated flags (journalled variant), strict variant
              for keys with a durable directory entry, refutations (no flush / new key under strict / no fsync).
Link 2 (here): (a) the real KeyValueStorage.set sequence runs in a child under strace; its file-system calls are compared
              call by call with the model's trace and fed to the extracted verified checker;
              (b) crash images computed by the extracted model are materialised as directories and read by a fresh real
              KeyValueStorage;  (c) a real child is SIGKILLed at every operation boundary of a set (open / write /
              fsync / close / makedirs interposed in klongpy.db.file_cache) and the directory is re-opened.
"""
import ast
import json
import os
import pickle
import random
import re
import shutil
import signal
import subprocess
import sys

from . import astlib
from .astlib import ShapeError
from .common import Check, sx, forbidden_scan, VERIF, REPO, PY

TRUSTED = [
    "Coq 8.16.1 kernel (coqc); vm_compute only in Examples and _refuted witnesses",
    "Print Assumptions: all C17 theorems closed under the global context (no axioms)",
    "translator harness/c17.py:generate (Python ast): statement order inside _write_file (probe for the topmost created component, makedirs, open 'wb', write, [flush], fsync inside the with, _fsync_dirs after it) and the body of _fsync_dirs, use_fsync=True at KeyValueStorage.set",
    "extraction: ExtrOcamlBasic only; ocaml/driver.ml",
    "strace 6.1 (-f -y) and the trace parser; payloads are replaced by short unique tokens before the recorded trace is given to check_crash "
    "(sound as long as no payload is a byte prefix of another; the generator guarantees it)",
    "the persistence model itself (POSIX-style, journalled / strict variants) is an assumption about the kernel and file system, not a fact about ext4",
]
ASSUME = [
    "persistence model: fsync(fd) makes the file's current content durable; fsync of a directory makes the names in it durable; a crash leaves per file nothing (name not durable), "
    "its durable content, a byte prefix of its volatile content, or such a prefix over the old content (torn overwrite); "
    "journalled variant: the fsync of a file also persists its name and its ancestors' names (ext4/xfs behaviour); strict variant: only fsync of the directory does",
    "BufferedWriter: a payload longer than the buffer (st_blksize) is written by f.write, a shorter one at flush/close (sampled by link 2 at sizes around the buffer size)",
    "reading a key depends only on that key's file (keys are prefix-free paths, C16)",
    "SIGKILL of the writer does not lose page-cache data: the kill runs support isolation only",
]


# ---------------------------------------------------------------- translator
def generate():
    out = ["From Coq Require Import ZArith List.", "Import ListNotations."]
    kvs = astlib.module("klongpy/db/sys_fn_kvs.py")

    def set_fsync():
        cls = astlib.find_class(kvs, "KeyValueStorage")
        fn = astlib.find_func(cls, "set")
        calls = astlib.calls_in(fn, "update_file")
        if len(calls) != 1:
            raise ShapeError("KeyValueStorage.set: one update_file call expected")
        kw = {k.arg: k.value for k in calls[0].keywords}
        return "use_fsync" in kw and astlib.const(kw["use_fsync"]) is True
    v, why = astlib.try_flag(set_fsync)
    out.append("Definition kvs_use_fsync : bool := %s.%s" % (astlib.coq_bool(bool(v)), "" if why is None else " (* %s *)" % why))

    def every_path():
        """every call path from KeyValueStorage.set to _write_file carries use_fsync: the submit of _write_file and every
        call of update_file from inside update_file (the wait-then-retry) pass the parameter on"""
        m = astlib.module("klongpy/db/file_cache.py")
        cls = astlib.find_class(m, "FileCache")
        uf = astlib.find_func(cls, "update_file")
        params = [a.arg for a in uf.args.args] + [a.arg for a in uf.args.kwonlyargs]
        if "use_fsync" not in params:
            raise ShapeError("update_file has no use_fsync parameter")
        subs = astlib.calls_in(uf, "submit")
        if not subs:
            raise ShapeError("update_file does not submit a task")
        for c in subs:
            args = [ast.unparse(a) for a in c.args]
            if args[:1] == ["self._run_task"]:
                # _run_task(task, file_name, *args) calls task(file_name, *args): the arguments pass through unchanged
                rt = astlib.find_func(cls, "_run_task")
                if [a.arg for a in rt.args.args] != ["self", "task", "file_name"] or rt.args.vararg is None or \
                        "return task(file_name, *%s)" % rt.args.vararg.arg not in ast.unparse(rt):
                    raise ShapeError("_run_task does not pass its arguments through to the task")
                args = args[1:]
            if args[:1] != ["self._write_file"]:
                raise ShapeError("update_file submits something other than self._write_file")
            kw = {k.arg: ast.unparse(k.value) for k in c.keywords}
            if not ((len(args) == 4 and args[3] == "use_fsync") or kw.get("use_fsync") == "use_fsync"):
                return False
        for c in astlib.calls_in(uf, "update_file"):
            kw = {k.arg: ast.unparse(k.value) for k in c.keywords}
            positional = len(c.args) >= 3 and ast.unparse(c.args[2]) == "use_fsync" and "use_fsync" in [a.arg for a in uf.args.args]
            if not (positional or kw.get("use_fsync") == "use_fsync"):
                return False
        # anything else in the class that writes through _write_file must be update_file
        for fn in cls.body:
            if isinstance(fn, ast.FunctionDef) and fn.name != "update_file" and astlib.calls_in(fn, "_write_file"):
                raise ShapeError("%s calls _write_file" % fn.name)
            if isinstance(fn, ast.FunctionDef) and fn.name != "update_file":
                for c in astlib.calls_in(fn, "submit"):
                    if c.args and ast.unparse(c.args[0]) == "self._write_file":
                        raise ShapeError("%s submits _write_file" % fn.name)
        # the wrapper passes the flag by keyword or as third positional argument, both accepted by the signature
        return True
    v, why = astlib.try_flag(every_path)
    out.append("Definition use_fsync_on_every_write_path : bool := %s.%s" % (astlib.coq_bool(bool(v)), "" if why is None else " (* %s *)" % why))

    def always_writes():
        """every update_file call on an entry that is not busy reaches executor.submit(... _write_file ...): the branch that
        submits starts with _unload_file and there is no return inside the locked block"""
        m = astlib.module("klongpy/db/file_cache.py")
        uf = astlib.find_func(astlib.find_class(m, "FileCache"), "update_file")
        withs = [n for n in uf.body if isinstance(n, ast.With) and ast.unparse(n.items[0].context_expr) == "self.file_futures_lock"]
        if len(withs) != 1:
            raise ShapeError("update_file: one locked block expected")
        if any(isinstance(n, (ast.Return, ast.Raise)) for n in ast.walk(withs[0]) if not isinstance(n, ast.Assert)):
            return False
        branch = None
        for n in ast.walk(withs[0]):
            if isinstance(n, ast.If) and any(astlib.calls_in(x, "submit") for x in n.body):
                branch = n
        if branch is None:
            raise ShapeError("update_file: no branch that submits the write")
        if ast.unparse(branch.test) != "info is None or not info[0]":
            raise ShapeError("update_file: test of the writing branch: %s" % ast.unparse(branch.test))
        body = [ast.unparse(x) for x in branch.body]
        if len(body) != 4 or body[0] != "self._unload_file(file_name)" or "self.executor.submit(" not in body[1] or \
                not body[2].startswith("self.file_futures[file_name] = (True, claim, future)") or body[3] != "write_applied = True":
            return False
        return True
    v, why = astlib.try_flag(always_writes)
    out.append("Definition update_always_writes : bool := %s.%s" % (astlib.coq_bool(bool(v)), "" if why is None else " (* %s *)" % why))

    def process_independent():
        h = astlib.module("klongpy/db/helpers.py")
        fn = astlib.find_func(h, "key_to_file_path")
        called = set()
        todo, seen = [fn], set()
        while todo:                       # follow helpers defined in the same module
            f = todo.pop()
            if f.name in seen:
                continue
            seen.add(f.name)
            for n in ast.walk(f):
                if isinstance(n, ast.Call):
                    nm = n.func.id if isinstance(n.func, ast.Name) else (n.func.attr if isinstance(n.func, ast.Attribute) else None)
                    called.add(nm)
                    try:
                        todo.append(astlib.find_func(h, nm))
                    except Exception:
                        pass
        bad = called & {"hash", "id", "random", "randint", "randrange", "choice", "uuid1", "uuid4", "getpid", "time", "time_ns",
                        "monotonic", "urandom", "getrandbits", "token_hex", "gettempdir", "mkstemp", "mkdtemp", "gethostname", "getcwd"}
        if bad:
            return False
        return True
    v, why = astlib.try_flag(process_independent)
    out.append("Definition key_path_is_process_independent : bool := %s.%s" % (astlib.coq_bool(bool(v)), "" if why is None else " (* %s *)" % why))

    def write_targets_only():
        m = astlib.module("klongpy/db/file_cache.py")
        fn = astlib.find_func(astlib.find_class(m, "FileCache"), "_write_file")
        opens = [c for c in astlib.calls_in(fn, "open") if isinstance(c.func, ast.Name)]
        if len(opens) != 1:
            raise ShapeError("_write_file: exactly one open(...) expected")
        target = ast.unparse(opens[0].args[0])
        if target not in ("os.path.join(self.root_path, file_name)", "write_fname"):
            raise ShapeError("_write_file opens %s, not the file of the key" % target)
        for bad in ("replace", "rename", "renames", "remove", "unlink", "rmtree", "move", "copy", "copyfile", "link", "symlink", "truncate"):
            if astlib.calls_in(fn, bad):
                return False
        return True
    v, why = astlib.try_flag(write_targets_only)
    out.append("Definition write_file_opens_target_only : bool := %s.%s" % (astlib.coq_bool(bool(v)), "" if why is None else " (* %s *)" % why))

    def write_file():
        m = astlib.module("klongpy/db/file_cache.py")
        cls = astlib.find_class(m, "FileCache")
        fn = astlib.find_func(cls, "_write_file")
        body = astlib.body_no_doc(fn)
        # use_fsync must reach os.fsync unchanged: update_file passes it through
        uf = astlib.find_func(cls, "update_file")
        sub = astlib.calls_in(uf, "submit")
        sargs = [ast.unparse(a) for a in sub[0].args] if len(sub) == 1 else []
        if sargs[:1] == ["self._run_task"]:
            sargs = sargs[1:]
        if len(sub) != 1 or sargs != ["self._write_file", "file_name", "new_file_contents", "use_fsync"]:
            raise ShapeError("update_file does not submit _write_file(file_name, new_file_contents, use_fsync)")
        idx_mk = [i for i, s in enumerate(body) if isinstance(s, ast.Expr) and isinstance(s.value, ast.Call) and ast.unparse(s.value.func) == "os.makedirs"]
        idx_with = [i for i, s in enumerate(body) if isinstance(s, ast.With)]
        if len(idx_mk) != 1 or len(idx_with) != 1 or idx_mk[0] > idx_with[0]:
            raise ShapeError("_write_file: expected os.makedirs(...) before one with-open block")
        mk = body[idx_mk[0]].value
        kw = {k.arg: k.value for k in mk.keywords}
        if astlib.const(kw.get("exist_ok", ast.Constant(False))) is not True:
            raise ShapeError("os.makedirs without exist_ok=True")
        w = body[idx_with[0]]
        if len(w.items) != 1:
            raise ShapeError("with: one item expected")
        call = w.items[0].context_expr
        if not (isinstance(call, ast.Call) and ast.unparse(call.func) == "open" and len(call.args) == 2 and astlib.const(call.args[1]) == "wb"):
            raise ShapeError("with open(..., 'wb') expected")
        if call.keywords:
            raise ShapeError("open has keyword arguments (buffering?)")
        fvar = w.items[0].optional_vars.id
        stmts = [ast.unparse(s) for s in w.body]
        if not stmts or stmts[0] != "%s.write(new_file_contents)" % fvar:
            raise ShapeError("first statement in the with block is not f.write(new_file_contents): %r" % stmts[:1])
        if len(w.body) != 2 or not isinstance(w.body[1], ast.If) or ast.unparse(w.body[1].test) != "use_fsync" or w.body[1].orelse:
            raise ShapeError("second statement in the with block is not `if use_fsync:`")
        inner = [ast.unparse(s) for s in w.body[1].body]
        if inner == ["os.fsync(%s.fileno())" % fvar]:
            flush = False
        elif inner == ["%s.flush()" % fvar, "os.fsync(%s.fileno())" % fvar]:
            flush = True
        else:
            raise ShapeError("if use_fsync: body not recognised: %r" % inner)
        # directory syncs: `created` = topmost missing path component, found BEFORE makedirs; after the with block
        # every directory from write_path up to dirname(created) is fsynced
        src = [ast.unparse(s) for s in body]
        after = src[idx_with[0] + 1:]
        before = src[:idx_mk[0]]
        call = "if created is not None:\n    self._fsync_dirs(write_path, os.path.dirname(created))"
        probe = ("if use_fsync:\n    p = write_fname\n    while p and (not os.path.exists(p)):\n        created, p = (p, os.path.dirname(p))")
        has_call = any("_fsync_dirs" in x or "created" in x for x in after)
        has_probe = any("created" in x for x in before)
        if not has_call and not has_probe:
            sync = False
        else:
            if after[:1] != [call]:
                raise ShapeError("directory sync after the with block not recognised: %r" % after[:1])
            if "created = None" not in before or probe not in before:
                raise ShapeError("search for the topmost created path component not recognised: %r" % before)
            fd = astlib.find_func(cls, "_fsync_dirs")
            fsrc = ast.unparse(fd)
            need = ["d = first", "fd = os.open(d or '.', os.O_RDONLY)", "os.fsync(fd)", "os.close(fd)", "d = os.path.dirname(d)", "if d == last"]
            if not all(x in fsrc for x in need) or not any(isinstance(x, ast.While) for x in ast.walk(fd)):
                raise ShapeError("_fsync_dirs body not recognised")
            sync = True
        return flush, sync
    v, why = astlib.try_flag(write_file)
    out.append("Definition flush_before_fsync : bool := %s." % astlib.coq_bool(bool(v and v[0])))
    out.append("Definition sync_new_dirs : bool := %s." % astlib.coq_bool(bool(v and v[1])))
    out.append("Definition write_file_shape_ok : bool := %s.%s" % (astlib.coq_bool(v is not None), "" if why is None else " (* %s *)" % why))
    return "\n".join(out) + "\n"


# ---------------------------------------------------------------- (a) the real system-call trace
CHILD = r'''
import os, sys, json, threading, time
import klongpy.db.file_cache as fcm
from klongpy.db.sys_fn_kvs import KeyValueStorage
jobs = json.loads(open(sys.argv[1]).read())
def mark(i):
    try: os.unlink("/nonexistent-c17-marker-%d" % i)
    except OSError: pass
n = 0
failed = []
def do_set(st, root, k, v):
    try:
        st.set(k, v)
    except BaseException as e:
        failed.append([root, k[:60], type(e).__name__ + ": " + str(e)[:80]])
for job in jobs:
    root, sets = job[0], job[1]
    mode = job[2] if len(job) > 2 else ""
    if len(job) > 3 and job[3]:
        root = os.path.join(root, job[3])       # the store directory (may not exist yet) below the traced base directory
    conc = mode == "set-during-load"
    torn = job[4] if len(job) > 4 else []
    st = None
    last = len(sets) - 1
    for i, (k, size, fill) in enumerate(sets):
        if i in torn:
            # another process wrote this value and was killed between write and fsync (the machine stays up):
            # the data is in the file, unsynced; the store object of that process is gone
            from klongpy.db.helpers import serialize_obj
            mark(n); n += 1
            if st is not None:
                st.cache.executor.shutdown(wait=True)
            st = None
            with open(os.path.join(root, k), "wb") as f:
                f.write(serialize_obj(bytes([fill]) * size))
            continue
        if st is None and not (conc and i == last):
            mark(n); n += 1
            st = KeyValueStorage(root)            # construction is part of the first set's segment
            if mode == "recovery":
                st.get(k) if os.path.exists(os.path.join(root, k)) else None
            do_set(st, root, k, bytes([fill]) * size)
            if mode == "hardlink" and not failed:
                os.link(os.path.join(root, k), os.path.join(job[0], "snapshot-of-" + k.replace("/", "_")))
            continue
        if conc and i == last:
            # the last set runs while a get of the same key is in flight on a FRESH store object: the load is held
            # inside an interposed open() of klongpy.db.file_cache until the set is parked in update_file
            st.cache.executor.shutdown(wait=True)
            st = KeyValueStorage(root)
            gate = {"armed": True, "entered": threading.Event(), "release": threading.Event()}
            real_open = open
            def hooked_open(path, mode="r", *a, **kw):
                if "r" in mode and "+" not in mode and gate["armed"]:
                    gate["armed"] = False
                    gate["entered"].set()
                    gate["release"].wait(60)
                return real_open(path, mode, *a, **kw)
            fcm.open = hooked_open
            g = threading.Thread(target=lambda: st.get(k))
            g.start()
            gate["entered"].wait(60)
            mark(n); n += 1
            t = threading.Thread(target=lambda: do_set(st, root, k, bytes([fill]) * size))
            t.start()
            def parked():
                fr = sys._current_frames().get(t.ident)
                names = []
                while fr is not None:
                    names.append(fr.f_code.co_name); fr = fr.f_back
                return "update_file" in names and any(x in names for x in ("exception", "result", "wait"))
            for _ in range(3000):
                if parked() or not t.is_alive():
                    break
                time.sleep(0.01)
            gate["release"].set()
            t.join(120); g.join(120)
            del fcm.__dict__["open"]
            continue
        mark(n); n += 1
        if mode == "recovery" and os.path.exists(os.path.join(root, k)):
            st.get(k)                             # the recovering process reads what is there and sets it again
        do_set(st, root, k, bytes([fill]) * size)
    mark(n); n += 1
    st.cache.executor.shutdown(wait=True)
open(sys.argv[1] + ".failed", "w").write(json.dumps(failed))
os._exit(0)
'''


_COMP = {}


def comp_id(c):
    """path component -> integer (injective within a run; single characters keep their code point)"""
    if len(c) == 1:
        return ord(c)
    if c not in _COMP:
        _COMP[c] = 1000000 + len(_COMP)
    return _COMP[c]


def key_to_name(k):
    return [comp_id(c) for c in k.split("/")]


def rel_name(root, path):
    rel = os.path.relpath(path, root)
    if rel == ".":
        return []
    if rel.startswith(".."):
        return None
    return [comp_id(p) for p in rel.split(os.sep)]


LAST_SET_FAILURES = []


def strace_jobs(jobs, workdir):
    """run the real set sequences [(root, sets)] in ONE child under strace; -> per job the list (one per set) of events"""
    trf = os.path.join(workdir, "strace.out")
    jf = os.path.join(workdir, "jobs.json")
    with open(jf, "w") as f:
        json.dump(jobs, f)
    env = dict(os.environ, PYTHONPATH=REPO + ":" + VERIF, PYTHONHASHSEED="0")
    p = subprocess.run(["strace", "-f", "-y", "-o", trf, "-e", "trace=openat,write,fsync,fdatasync,close,mkdir,mkdirat,rename,renameat,renameat2,unlink,unlinkat,ftruncate,sync,syncfs",
                        PY, "-W", "ignore", "-c", CHILD, jf], env=env, stdout=subprocess.PIPE, stderr=subprocess.PIPE, timeout=900)
    if p.returncode != 0:
        raise RuntimeError("strace child failed: %s" % p.stderr.decode()[-800:])
    global LAST_SET_FAILURES
    LAST_SET_FAILURES = json.load(open(jf + ".failed")) if os.path.exists(jf + ".failed") else []
    if os.path.exists(jf + ".failed"):
        os.unlink(jf + ".failed")
    segs = parse_strace(trf, [job[0] for job in jobs for _ in range(len(job[1]) + 1)])
    os.unlink(trf)
    os.unlink(jf)
    out, i = [], 0
    for job in jobs:
        sets = job[1]
        out.append(segs[i:i + len(sets)])
        i += len(sets) + 1
    return out


def strace_sets(root, sets):
    wd = root + ".wd"
    os.makedirs(wd, exist_ok=True)
    try:
        return strace_jobs([[root, sets]], wd)[0]
    finally:
        shutil.rmtree(wd, ignore_errors=True)


def parse_strace(trf, roots):
    """roots[i] = the store root that segment i (after marker i) belongs to"""
    per_set, cur, root = [], None, None
    pending = {}
    wfds = set()          # descriptors opened for writing (closes of read-only descriptors are not events)
    for line in open(trf, encoding="utf-8", errors="replace"):
        m = re.match(r"^(\d+)\s+(.*)$", line.rstrip("\n"))
        if not m:
            continue
        pid, rest = m.group(1), m.group(2)
        if rest.endswith("<unfinished ...>"):
            pending[pid] = rest[:-len("<unfinished ...>")]
            continue
        mm = re.match(r"<\.\.\. \w+ resumed>(.*)$", rest)
        if mm:
            rest = pending.pop(pid, "") + mm.group(1)
        mk = re.match(r'unlink\("/nonexistent-c17-marker-(\d+)"', rest)
        if mk:
            cur = []
            per_set.append(cur)
            root = roots[len(per_set) - 1] if len(per_set) <= len(roots) else None
            continue
        if cur is None or root is None or root not in rest:
            continue
        ok = re.search(r"\)\s+=\s+(-?\d+)", rest)
        ret = int(ok.group(1)) if ok else None
        m1 = re.match(r'(mkdir|mkdirat)\((?:AT_FDCWD[^,]*, )?"([^"]+)"', rest)
        if m1:
            if ret == 0:
                cur.append(["mkdir", rel_name(root, m1.group(2))])
            continue
        m1 = re.match(r'openat\([^,]+, "([^"]+)", ([A-Z_|]+)', rest)
        if m1:
            nm = rel_name(root, m1.group(1))
            flags = m1.group(2).split("|")
            if nm is not None and ret is not None and ret >= 0 and ("O_WRONLY" in flags or "O_RDWR" in flags):
                wfds.add(ret)
                cur.append(["open" if ("O_TRUNC" in flags and "O_CREAT" in flags) else "open-other:" + m1.group(2), nm])
            elif ret is not None and ret >= 0:
                wfds.discard(ret)
            continue
        m1 = re.match(r"(write|fsync|fdatasync|close|ftruncate)\((\d+)<([^>]+)>", rest)
        if m1:
            fdn = int(m1.group(2))
            m1 = (m1.group(1), m1.group(3))
            if m1[0] == "close" and fdn not in wfds and not os.path.isdir(m1[1]):
                continue
            if m1[0] == "close":
                wfds.discard(fdn)

            class _M:
                def __init__(self, a, b):
                    self.a, self.b = a, b

                def group(self, i):
                    return self.a if i == 1 else self.b
            m1 = _M(m1[0], m1[1])
            nm = rel_name(root, m1.group(2))
            if nm is None or nm == []:
                # fsync of the root directory or a sub directory would show here
                if m1.group(1) in ("fsync", "fdatasync") and nm == []:
                    cur.append(["fsyncdir", nm])
                continue
            if os.path.isdir(m1.group(2)) and m1.group(1) in ("fsync", "fdatasync"):
                cur.append(["fsyncdir", nm])
            elif m1.group(1) == "write":
                cur.append(["write", nm, ret])
            elif m1.group(1) == "fdatasync":
                cur.append(["fsync", nm])
            elif os.path.isdir(m1.group(2)):
                continue
            else:
                cur.append([m1.group(1), nm])
            continue
        m1 = re.match(r'(?:unlink\(|unlinkat\([^,]+, )"([^"]+)"', rest)
        if m1:
            if ret == 0:
                cur.append(["unlink", rel_name(root, m1.group(1))])
            continue
        m1 = re.match(r"(rename|renameat|renameat2|link|linkat|sync|syncfs)\(", rest)
        if m1:
            cur.append([m1.group(1), [-1]])
    return per_set


def payload_len(size):
    return len(pickle.dumps(b"x" * size, protocol=pickle.DEFAULT_PROTOCOL))


def serialize_len(size):
    from klongpy.db.helpers import serialize_obj
    return len(serialize_obj(b"x" * size))


def token(i):
    return [i + 1, 200, i + 1, 201]


def real_to_checker_sets(sets, per_set, prefix=""):
    """recorded trace -> the checker's input, payloads replaced by unique tokens"""
    out = []
    for i, ((k, size, fill), evs) in enumerate(zip(sets, per_set)):
        tok = token(i)
        writes = [e for e in evs if e[0] == "write"]
        pieces = []
        if len(writes) == 1:
            pieces = [tok]
        elif len(writes) == 2:
            pieces = [tok[:2], tok[2:]]
        elif len(writes) > 2:
            pieces = [tok[:1], tok[1:2], tok[2:3]] + [tok[3:]] * (len(writes) - 3)
        ev2 = []
        wi = 0
        for e in evs:
            if e[0] == "write":
                ev2.append(["write", e[1], pieces[wi]])
                wi += 1
            elif e[0] in ("mkdir", "open", "fsync", "close", "fsyncdir", "unlink"):
                ev2.append([e[0], e[1]])
            # anything else (rename, fsync-dir, ...) is outside the model: reported by the trace comparison
        out.append([key_to_name(prefix + k), tok, ev2])
    return out


def merge_torn(ck, torn):
    """the events of an interrupted foreign write (open, write, no fsync) are prepended to the next completed set of the
    sequence: the checker then requires that set to make the value durable whatever it found"""
    out, carry = [], []
    for i, (name, tok, evs) in enumerate(ck):
        if i in torn:
            # its write carried the token of entry i; the following set writes the same value under its own token,
            # so the carried write is given the next set's token below
            carry = carry + [e for e in evs if e[0] != "close"]
            continue
        if carry:
            evs = [([e[0], e[1], tok] if e[0] == "write" else e) for e in carry] + evs
            carry = []
        out.append([name, tok, evs])
    return out


KEYS = ["a", "b", "d/e", "d/f", "g/h/i"]


def gen_set_sequences(rng, tier, bufsize):
    over = serialize_len(0)
    sizes = [5, 100, 1000, bufsize - over - 1, bufsize - over, bufsize - over + 1, 3 * bufsize, 65536]
    seqs = []
    # systematic: every size as first write and as overwrite, flat and nested
    for s in sizes:
        seqs.append([["a", s, 65], ["a", 7, 66], ["d/e", s, 67], ["d/e", s, 68]])
    n = 40 if tier == "quick" else 400
    for j in range(n):
        m = rng.randint(2, 6)
        seq = []
        for i in range(m):
            big = rng.random() < 0.15
            seq.append([rng.choice(KEYS), rng.choice(sizes[5:] if big else sizes[:6]), 65 + (len(seq) % 26)])
        seqs.append(seq)
    return seqs


def check_traces(chk, rng, workdir, flags, bufsize):
    """(a) real trace == model trace, and the verified checker on the real trace."""
    fl, uf, sd = flags
    seqs = gen_set_sequences(rng, chk.tier, bufsize)
    bad_prop = bad_corr = None
    findings = {}
    reqs, meta = [], []
    jobs = []
    for j, seq in enumerate(seqs):
        root = os.path.join(workdir, "tr%d_r" % j)
        os.makedirs(root)
        jobs.append([root, seq, "", "", []])
    # special scenarios (deterministic):
    #  - a store opened on a directory that does not exist yet (flat and nested): traced from the construction on
    #  - an overwrite of a key whose file has a second hard link (a snapshot copy outside the store)
    #  - key components of 201..255 characters; the written stores are read back by ANOTHER process (other hash seed)
    #  - the last set runs while a get of the same key is in flight on a fresh store object
    special = [
        ("fresh_r", "store", "", [["a", 5, 65], ["d/e", 100, 66], ["a", 7, 67]]),
        ("freshn_r", "x/y", "", [["b", 9, 68], ["b", 5000, 69], ["g/h/i", 3, 70]]),
        ("hl_r", "st", "hardlink", [["k", 20, 71], ["k", 30, 72], ["d/e", 5, 73], ["d/e", 6, 74]]),
        ("long_r", "", "", [["L" * 201, 5, 75], ["d/" + "M" * 255, 6, 76], ["N" * 230 + "/" + "P" * 210, 7, 77], ["L" * 201, 8, 78]]),
        ("rec_r", "", "recovery", [["k", 20, 71], ["k", 30, 72], ["k", 30, 72], ["k", 30, 72], ["o", 5, 73], ["k", 30, 72]]),
        ("conc_r", "", "set-during-load", [["o", 9, 70], ["k", 20, 71], ["k", 30, 72]]),
    ]
    TORN = {"rec_r": [1]}       # entry 1 of the recovery scenario is written by a process killed between write and fsync
    for nm, rel, mode, seq in special:
        base = os.path.join(workdir, "tr" + nm)
        os.makedirs(base)
        jobs.append([base, seq, mode, rel, TORN.get(nm, [])])
    seqs = seqs + [x[3] for x in special]
    conc_seq = special[-1][3]
    try:
        all_sets = strace_jobs(jobs, workdir)
        bad_reader = cross_process_read(chk, [(os.path.join(j[0], j[3]) if j[3] else j[0], j[1]) for j in jobs[-len(special):]])
    finally:
        for job in jobs:
            shutil.rmtree(job[0], ignore_errors=True)
    chk.count("concurrent_set_during_load_scenarios")
    chk.count("fresh_root_and_hardlink_and_long_key_and_recovery_scenarios", 5)
    bad_img = recorded_final_images(chk, conc_seq, all_sets[-1], workdir)
    for j, seq in enumerate(seqs):
        per_set = all_sets[j]
        prefix = (jobs[j][3] + "/") if jobs[j][3] else ""
        if len(per_set) != len(seq):
            raise RuntimeError("strace markers: %d sets, %d segments" % (len(seq), len(per_set)))
        lens = [serialize_len(s) for _, s, _ in seq]
        model_sets = [[key_to_name(prefix + k), [0] * l] for (k, _, _), l in zip(seq, lens)]
        reqs.append(sx(["trace", 1 if fl else 0, 1 if uf else 0, 1 if sd else 0, bufsize, ["sets"] + model_sets]))
        ck = merge_torn(real_to_checker_sets(seq, per_set, prefix), jobs[j][4])
        keys = sorted(set(tuple(key_to_name(k)) for k in KEYS) | set(tuple(key_to_name(prefix + k)) for k, _, _ in seq))
        reqs.append(sx(["check", 1, ["keys"] + [list(k) for k in keys], ["sets"] + ck]))
        reqs.append(sx(["check", 0, ["keys"] + [list(k) for k in keys], ["sets"] + ck]))
        meta.append((seq, per_set, lens))
    outs = chk.run_model(reqs)
    for j, (seq, per_set, lens) in enumerate(meta):
        mtrace, jr_ok, strict_ok = outs[3 * j], outs[3 * j + 1], outs[3 * j + 2]
        chk.count("trace_sequences")
        chk.count("evaluations", sum(len(e) for e in per_set))
        chk.count("distinct_nontrivial")
        # call-by-call comparison
        mt = [[[e[0], list(e[1])] + ([e[2]] if e[0] == "write" else []) for e in evs] for evs in mtrace]
        rt = [[[e[0], list(e[1])] + ([e[2]] if e[0] == "write" else []) for e in evs] for evs in per_set]
        for ti in jobs[j][4]:
            # the interrupted foreign write is not a set of the store: compare nothing there
            if ti < len(mt) and ti < len(rt):
                mt[ti] = rt[ti] = []
        if mt != rt and bad_corr is None:
            i = next(i for i in range(len(seq)) if i >= len(mt) or mt[i] != rt[i])
            bad_corr = {"kind": "trace-correspondence", "sets": seq, "failing_set": i, "payload_len": lens[i], "bufsize": bufsize,
                        "impl_trace": rt[i], "model_trace": mt[i] if i < len(mt) else None}
        # the property on the observed trace, judged by the verified checker (journalled variant)
        if jr_ok != 1:
            # first failing prefix
            i_fail = None
            for i in range(1, len(seq) + 1):
                prefix = (jobs[j][3] + "/") if jobs[j][3] else ""
                ck = merge_torn(real_to_checker_sets(seq[:i], per_set[:i], prefix), jobs[j][4])
                keys = sorted(set(tuple(key_to_name(k)) for k in KEYS) | set(tuple(key_to_name(prefix + k)) for k, _, _ in seq))
                r = chk.run_model([sx(["check", 1, ["keys"] + [list(k) for k in keys], ["sets"] + ck])])[0]
                if r != 1:
                    i_fail = i - 1
                    break
            rep = {"kind": "crash-check", "variant": "journalled", "sets": seq, "failing_set": i_fail, "bufsize": bufsize,
                   "payload_len": lens[i_fail] if i_fail is not None else None,
                   "observed_trace_of_failing_set": rt[i_fail] if i_fail is not None else None,
                   "what": "check_crash rejects the recorded trace: after set #%s has returned (or during a later set) a crash that loses unsynced data leaves key %s with a value other than the last completed one"
                           % (i_fail, seq[i_fail][0] if i_fail is not None else "?")}
            if bad_prop is None:
                bad_prop = rep
        if strict_ok != 1 and jr_ok == 1:
            rep = {"kind": "crash-check", "variant": "strict", "sets": seq, "bufsize": bufsize, "observed_traces": rt,
                   "what": "check_crash (strict variant: a name is durable only after fsync of its directory) rejects the recorded trace: "
                           "a completed set of a first-time key or under a new directory can vanish in a crash"}
            if bad_prop is None:
                bad_prop = rep
        chk.sample({"sets": [[k, l] for (k, _, _), l in zip(seq, lens)], "trace": rt[0], "journalled_ok": jr_ok, "strict_ok": strict_ok}, limit=3)
    if bad_reader is not None:
        bad_prop = bad_reader
    if LAST_SET_FAILURES:
        root, k, why = LAST_SET_FAILURES[0]
        bad_prop = {"kind": "set-raised", "store": os.path.basename(root), "key": k, "error": why,
                    "what": "a key-value set of a legal key raised %s (key %s)" % (why, k)}
    if bad_prop is None and bad_img is not None:
        bad_prop = bad_img
    return bad_prop, bad_corr, findings


READER = r'''
import sys, json
from klongpy.core import KLONG_UNDEFINED
from klongpy.db.sys_fn_kvs import KeyValueStorage
out = []
for root, sets in json.loads(open(sys.argv[1]).read()):
    st = KeyValueStorage(root)
    exp = {}
    for k, size, fill in sets:
        exp[k] = bytes([fill]) * size
    for k, v in exp.items():
        try:
            got = st.get(k)
            ok = got is not KLONG_UNDEFINED and got == v
            how = "undefined" if got is KLONG_UNDEFINED else ("ok" if ok else "a different value")
        except BaseException as e:
            ok, how = False, type(e).__name__
        out.append([root, k[:40] + ("...(%d chars)" % len(k) if len(k) > 40 else ""), ok, how])
print("READ " + json.dumps(out))
'''


def cross_process_read(chk, stores):
    """the stores written by the traced child (PYTHONHASHSEED=0) are read back by ANOTHER process with another hash seed:
    every completed set must read its value (nothing was lost: this is the crash image 'none')"""
    jf = os.path.join(os.path.dirname(stores[0][0].rstrip("/")) if False else os.path.dirname(stores[0][0]), "reader-jobs.json")
    jf = os.path.join(VERIF, ".work", "C17-reader-%d.json" % os.getpid())
    with open(jf, "w") as f:
        json.dump(stores, f)
    env = dict(os.environ, PYTHONPATH=REPO + ":" + VERIF, PYTHONHASHSEED="12345")
    try:
        p = subprocess.run([PY, "-W", "ignore", "-c", READER, jf], env=env, stdout=subprocess.PIPE, stderr=subprocess.PIPE, timeout=300)
    finally:
        os.unlink(jf)
    lines = [l for l in p.stdout.decode().split("\n") if l.startswith("READ ")]
    if not lines:
        raise RuntimeError("reader child failed: %s" % p.stderr.decode()[-600:])
    for root, k, ok, how in json.loads(lines[0][5:]):
        chk.count("evaluations")
        chk.count("cross_process_reads")
        if not ok:
            return {"kind": "reopen-in-another-process", "store": os.path.basename(root), "key": k, "read": how,
                    "writer_PYTHONHASHSEED": "0", "reader_PYTHONHASHSEED": "12345",
                    "what": "a store written by one process and opened by another (nothing lost) reads key %s as %s instead of its completed value" % (k, how)}
    return None


def recorded_final_images(chk, seq, per_set, workdir):
    """crash images of the state after the RECORDED trace of a sequence (all sets returned), read by a fresh real store"""
    from klongpy.db.sys_fn_kvs import KeyValueStorage
    from klongpy.db.helpers import serialize_obj
    from klongpy.core import KLONG_UNDEFINED
    vals = [bytes([fill]) * size for _, size, fill in seq]
    pays = [list(serialize_obj(v)) for v in vals]
    evs = []
    for i, es in enumerate(per_set):
        off = 0
        for e in es:
            if e[0] == "write":
                evs.append(["write", list(e[1]), pays[i][off:off + e[2]]])
                off += e[2]
            elif e[0] in ("mkdir", "open", "fsync", "close", "fsyncdir"):
                evs.append([e[0], list(e[1])])
    expected = {}
    for (k, _, _), v in zip(seq, vals):
        expected[k] = v
    keys = sorted(expected)
    cands = chk.run_model([sx(["cands", 0, key_to_name(k), ["evs"] + evs]) for k in keys])
    cands = dict(zip(keys, cands))
    for k in keys:
        for c in cands[k][:40]:
            root = os.path.join(workdir, "imgc")
            shutil.rmtree(root, ignore_errors=True)
            os.makedirs(root)
            img = {kk: (c if kk == k else cands[kk][0]) for kk in keys}
            for kk, cc in img.items():
                if cc[0] == "some":
                    pth = os.path.join(root, kk)
                    os.makedirs(os.path.dirname(pth), exist_ok=True)
                    with open(pth, "wb") as f:
                        f.write(bytes(cc[1]))
            st = KeyValueStorage(root)
            try:
                for kk in keys:
                    chk.count("evaluations")
                    chk.count("image_reads")
                    try:
                        got = st.get(kk)
                        got = None if got is KLONG_UNDEFINED else got
                        err = None
                    except BaseException as e:  # noqa
                        got, err = None, type(e).__name__
                    if err is not None or got != expected[kk]:
                        return {"kind": "crash-image-of-recorded-trace", "sets": seq, "scenario": "the last set ran while a get of the same key was in flight on a freshly opened store",
                                "recorded_trace": [[e[0], e[1]] + ([len(e[2])] if e[0] == "write" else []) for e in evs],
                                "image": {a: (b[0], len(b[1]) if len(b) > 1 else 0) for a, b in img.items()}, "key": kk,
                                "read": repr(got)[:60], "error": err,
                                "what": "after every set had returned, a crash image allowed by the recorded trace reads key %s as %s (%s), last completed value %s"
                                        % (kk, repr(got)[:40], err, repr(expected[kk])[:40])}
            finally:
                st.cache.executor.shutdown(wait=False)
                shutil.rmtree(root, ignore_errors=True)
    return None


# ---------------------------------------------------------------- (b) materialised crash images read by the real store
def check_images(chk, rng, workdir, flags, bufsize):
    from klongpy.db.sys_fn_kvs import KeyValueStorage
    from klongpy.db.helpers import serialize_obj
    from klongpy.core import KLONG_UNDEFINED
    fl, uf, sd = flags
    nseq = 25 if chk.tier == "quick" else 250
    bad_prop = bad_corr = None
    for j in range(nseq):
        m = rng.randint(2, 4)
        keys = rng.sample(KEYS, 3)
        sets = [(rng.choice(keys), [rng.randint(0, 255) for _ in range(rng.choice([1, 3, 10]))] + [j, i]) for i in range(m)]
        vals = [bytes(v) for _, v in sets]
        pays = [list(serialize_obj(v)) for v in vals]
        tr = chk.run_model([sx(["trace", 1 if fl else 0, 1 if uf else 0, 1 if sd else 0, bufsize,
                                ["sets"] + [[key_to_name(k), p] for (k, _), p in zip(sets, pays)]])])[0]
        # rebuild events with the real payload bytes
        flat = []
        for i, evs in enumerate(tr):
            for e in evs:
                flat.append((i, [e[0], list(e[1])] + ([pays[i]] if e[0] == "write" else [])))
        done_at = {}
        for idx, (i, e) in enumerate(flat):
            done_at[i] = idx + 1
        reqs, points = [], []
        for cut in range(len(flat) + 1):
            evs = [e for _, e in flat[:cut]]
            for k in keys:
                reqs.append(sx(["cands", 0, key_to_name(k), ["evs"] + evs]))
            points.append(cut)
        outs = chk.run_model(reqs)
        oi = 0
        for cut in points:
            inflight = None
            if cut < len(flat):
                i_cur = flat[cut][0]
                started = cut > 0 and flat[cut - 1][0] == i_cur
                inflight = sets[i_cur][0] if started else None
            completed = [i for i in range(len(sets)) if done_at[i] <= cut]
            expected = {}
            for i in completed:
                expected[sets[i][0]] = vals[i]
            cands = {}
            for k in keys:
                cands[k] = outs[oi]
                oi += 1
            # images: vary one key at a time over a few of its candidates, others at their first candidate
            for k in keys:
                cl = cands[k]
                pick = cl if len(cl) <= 4 else [cl[0], cl[1], cl[len(cl) // 2], cl[-2], cl[-1]]
                for c in pick:
                    root = os.path.join(workdir, "img")
                    shutil.rmtree(root, ignore_errors=True)
                    os.makedirs(root)
                    img = {kk: (c if kk == k else cands[kk][0]) for kk in keys}
                    for kk, cc in img.items():
                        if cc[0] == "some":
                            pth = os.path.join(root, kk)
                            os.makedirs(os.path.dirname(pth), exist_ok=True)
                            with open(pth, "wb") as f:
                                f.write(bytes(cc[1]))
                    st = KeyValueStorage(root)
                    for kk in keys:
                        chk.count("evaluations")
                        chk.count("image_reads")
                        try:
                            got = st.get(kk)
                            got = None if got is KLONG_UNDEFINED else got
                            err = None
                        except BaseException as e:  # noqa
                            got, err = None, type(e).__name__
                        if kk == inflight:
                            continue
                        want = expected.get(kk)
                        if err is not None or got != want:
                            if bad_prop is None:
                                bad_prop = {"kind": "crash-image", "sets": [[k_, list(v_)] for k_, v_ in sets], "crash_after_events": cut,
                                            "events": [e for _, e in flat[:cut]], "image": {a: (b[0], len(b[1]) if len(b) > 1 else 0) for a, b in img.items()},
                                            "key": kk, "read": repr(got)[:60], "error": err, "last_completed_value": repr(want)[:60],
                                            "what": "a fresh store over a crash image reads key %s as %r (%s), last completed value %r" % (kk, got, err, want)}
                    st.cache.executor.shutdown(wait=False)
        shutil.rmtree(os.path.join(workdir, "img"), ignore_errors=True)
        chk.count("image_sequences")
    return bad_prop, bad_corr


# ---------------------------------------------------------------- (c) kill a real writer at every operation boundary
KILL_CHILD = r'''
import os, sys, json, signal, builtins
import klongpy.db.file_cache as fcm
from klongpy.db.sys_fn_kvs import KeyValueStorage
# fork server: one request per line {root, sets, kill_at, armed_from}; the forked child runs the real sets with
# open / os.fsync / os.makedirs of klongpy.db.file_cache interposed and SIGKILLs itself at the kill_at-th boundary
def child(root, sets, kill_at, armed_from):
    state = {"n": 0, "armed": False}
    log = open(root + ".ops", "w")
    def boundary(name):
        if not state["armed"]:
            return
        log.write(name + "\n"); log.flush()
        if state["n"] == kill_at:
            os.kill(os.getpid(), signal.SIGKILL)
        state["n"] += 1
    class F:
        def __init__(self, f): self.f = f
        def write(self, b): boundary("write"); return self.f.write(b)
        def flush(self): boundary("flush"); return self.f.flush()
        def fileno(self): return self.f.fileno()
        def read(self, *a): return self.f.read(*a)
        def __enter__(self): return self
        def __exit__(self, *a): boundary("close"); self.f.close(); boundary("closed"); return False
    real_open = builtins.open
    def my_open(path, mode="r", *a, **k):
        if "w" in mode: boundary("open")
        f = real_open(path, mode, *a, **k)
        return F(f) if "w" in mode else f
    class OS:
        def __getattr__(self, n): return getattr(os, n)
        def fsync(self, fd): boundary("fsync"); return os.fsync(fd)
        def makedirs(self, *a, **k): boundary("makedirs"); return os.makedirs(*a, **k)
    fcm.open = my_open
    fcm.os = OS()
    st = KeyValueStorage(root)
    for i, (k, size, fill) in enumerate(sets):
        state["armed"] = i >= armed_from
        st.set(k, bytes([fill]) * size)
    os._exit(0)
for line in sys.stdin:
    req = json.loads(line)
    pid = os.fork()
    if pid == 0:
        try:
            child(req["root"], req["sets"], req["kill_at"], req["armed_from"])
        finally:
            os._exit(3)
    _, status = os.waitpid(pid, 0)
    killed = os.WIFSIGNALED(status) and os.WTERMSIG(status) == signal.SIGKILL
    ok = os.WIFEXITED(status) and os.WEXITSTATUS(status) == 0
    print(json.dumps({"killed": killed, "ok": ok}), flush=True)
'''


def check_kill(chk, rng, workdir, bufsize):
    from klongpy.db.sys_fn_kvs import KeyValueStorage
    from klongpy.core import KLONG_UNDEFINED
    env = dict(os.environ, PYTHONPATH=REPO + ":" + VERIF, PYTHONHASHSEED="0")
    bad_prop = None
    cases = [([["a", 50, 65], ["d/e", 60, 66], ["a", 70, 67]], 2),
             ([["d/e", 5, 65], ["b", 9000, 66], ["d/f", 9, 67]], 2)]
    cases += [([["a", 50, 65], ["b", 60, 66], ["g/h/i", 20000, 67]], 2), ([["a", 5, 65], ["a", 6, 66]], 1),
              ([["d/e", 5, 65], ["d/f", 5, 66], ["d/e", 5000, 67]], 2)]
    if chk.tier == "thorough":
        for _ in range(40):
            m = rng.randint(2, 5)
            cases.append(([[rng.choice(KEYS), rng.choice([5, 300, 5000, 70000]), 65 + i] for i in range(m)], m - 1))
    srv = subprocess.Popen([PY, "-W", "ignore", "-c", KILL_CHILD], env=env, stdin=subprocess.PIPE, stdout=subprocess.PIPE,
                           stderr=subprocess.PIPE, text=True)
    try:
        bad_prop = _kill_cases(chk, cases, workdir, srv)
    finally:
        try:
            srv.stdin.close()
            srv.wait(timeout=30)
        except Exception:
            srv.kill()
    return bad_prop


def _kill_cases(chk, cases, workdir, srv):
    from klongpy.db.sys_fn_kvs import KeyValueStorage
    from klongpy.core import KLONG_UNDEFINED
    bad_prop = None
    for sets, last in cases:
        kill_at = 0
        while kill_at < 12:
            root = os.path.join(workdir, "kill")
            shutil.rmtree(root, ignore_errors=True)
            os.makedirs(root)
            srv.stdin.write(json.dumps({"root": root, "sets": sets, "kill_at": kill_at, "armed_from": last}) + "\n")
            srv.stdin.flush()
            line = srv.stdout.readline()
            if not line:
                raise RuntimeError("kill server died: %s" % srv.stderr.read()[-800:])
            st_ = json.loads(line)
            killed = st_["killed"]
            if not killed and not st_["ok"]:
                raise RuntimeError("kill child failed: %r" % st_)
            ops = open(root + ".ops").read().split() if os.path.exists(root + ".ops") else []
            # last completed values: all sets before `last`; the in-flight key is sets[last][0]
            expected = {}
            for k, size, fill in sets[:last] + ([] if killed else [sets[last]]):
                expected[k] = bytes([fill]) * size
            inflight = sets[last][0] if killed else None
            st = KeyValueStorage(root)
            for k in sorted(set(x[0] for x in sets) | {"b", "zz"}):
                chk.count("evaluations")
                chk.count("kill_reads")
                if k == inflight:
                    continue
                try:
                    got = st.get(k)
                    got = None if got is KLONG_UNDEFINED else got
                    err = None
                except BaseException as e:  # noqa
                    got, err = None, type(e).__name__
                if err is not None or got != expected.get(k):
                    if bad_prop is None:
                        bad_prop = {"kind": "kill", "sets": sets, "killed_before_operation": kill_at, "operations_seen": ops, "key": k,
                                    "read": repr(got)[:60], "error": err,
                                    "what": "after SIGKILL at operation boundary %d (%s) of set #%d, key %s reads %r (%s) instead of its last completed value"
                                            % (kill_at, ops[-1] if ops else "?", last, k, repr(got)[:40], err)}
            st.cache.executor.shutdown(wait=False)
            shutil.rmtree(root, ignore_errors=True)
            if os.path.exists(root + ".ops"):
                os.unlink(root + ".ops")
            chk.count("kill_runs")
            if not killed:
                break
            kill_at += 1
    return bad_prop


# ---------------------------------------------------------------- run
def run(tier, replay=None):
    chk = Check("C17", tier)
    rng = random.Random(chk.seed * 104729 + 17)
    gen = chk.generate(generate())
    chk.build_model()
    hits = forbidden_scan("C17")
    proof = chk.build_proofs()
    if hits:
        proof["ok"] = False
        proof["error"] = "forbidden declarations: %r" % hits
        proof["broken"] = hits[0]
    fl = "flush_before_fsync : bool := true" in gen
    uf = "kvs_use_fsync : bool := true" in gen and "use_fsync_on_every_write_path : bool := true" in gen and "update_always_writes : bool := true" in gen
    sd = "sync_new_dirs : bool := true" in gen
    workdir = os.path.join(VERIF, ".work", "C17-%d" % os.getpid())
    shutil.rmtree(workdir, ignore_errors=True)
    os.makedirs(workdir)
    bs = os.stat(workdir).st_blksize
    bufsize = bs if bs > 1 else 8192
    bad_props, bad_corrs = [], []
    try:
        bp, bc, findings = check_traces(chk, rng, workdir, (fl, uf, sd), bufsize)
        if bp:
            bad_props.append(bp)
        if bc:
            bad_corrs.append(bc)
        for fid, rep in findings.items():
            chk.finding(fid, rep["what"], rep)
        bp, bc = check_images(chk, rng, workdir, (fl, uf, sd), bufsize)
        if bp:
            bad_props.append(bp)
        bp = check_kill(chk, rng, workdir, bufsize)
        if bp:
            bad_props.append(bp)
    finally:
        shutil.rmtree(workdir, ignore_errors=True)
    for bp in bad_props:
        chk.violation("crash safety fails on the implementation: %s" % bp.get("what", bp["kind"]), bp)
    if not chk.violations:
        for bc in bad_corrs:
            chk.violation("correspondence between klongpy's system-call trace and the Coq model broke (%s); the verified checker accepted every recorded trace (%d events)"
                          % (bc.get("kind"), chk.counters.get("evaluations", 0)),
                          {"broken": "correspondence C17/Model.v", "detail": bc}, no_input=True)
        if not proof["ok"] and not chk.violations:
            chk.violation("proof obligation no longer checks: %s" % proof["broken"],
                          {"broken_obligation": proof["broken"], "coq_error": proof["error"], "generated": chk.generated_text}, no_input=True)
    return chk.finish(
        rule="(a) strace of real set sequences: payload sizes 5 B .. 64 KiB incl. buffer size -1/0/+1, first write and overwrite, flat and nested keys, "
             "compared call by call with the model trace and judged by the extracted check_crash (every prefix x every loss); "
             "(b) model crash images (every event prefix x per-key candidates) materialised and read by a fresh real KeyValueStorage; "
             "(c) SIGKILL of a real writer at every interposed operation boundary. evaluations = traced calls + reads of images / killed directories",
        trusted_base=TRUSTED, assumptions=ASSUME)


def replay(path):
    body = json.load(open(path))
    print(json.dumps(body, indent=1)[:6000])
    rep = body.get("replay", {})
    if rep.get("kind") == "crash-check":
        workdir = os.path.join(VERIF, ".work", "C17-replay-%d" % os.getpid())
        root = os.path.join(workdir, "r")
        os.makedirs(root)
        try:
            per_set = strace_sets(root, rep["sets"])
            for s, evs in zip(rep["sets"], per_set):
                print("set", s, "->", evs)
        finally:
            shutil.rmtree(workdir, ignore_errors=True)
    return 0
