"""C15 — timers tick once per interval until stopped, and stop for good.

Link 1 (Coq): coq/C15/Properties.v — every history of the model (any number of timers, any callback
        scripts, any dispatch latencies, external and in-callback cancellations / redefinitions) is accepted by
        the checker Spec.mon_run; the checker's meaning is spelled out by separate theorems.
Link 2 (here): the real _call_periodic / eval_sys_fn_timer / eval_sys_fn_cancel_timer / KGFnWrapper are driven
        by VLoop, a virtual-time stand-in for asyncio's loop (time, call_soon, call_at, call_later, _run_once),
        on dyadic clock values; the observed history is compared with the extracted model's (model equality)
        and judged by the extracted checker (property oracle).  No sleeping, no wall clock.
"""
import ast
import itertools
import json
import os
import random
import sys
from fractions import Fraction

from . import astlib
from .astlib import ShapeError
from .common import Check, sx, forbidden_scan, VERIF, REPO

U = 1 << 20           # clock units per second
INTERVALS = (0, 1, 2, 5)

TRUSTED = [
    "Coq 8.16.1 kernel (coqc); vm_compute only in the _refuted witnesses and the non-vacuity Examples",
    "Print Assumptions: all C15 theorems closed under the global context (no axioms)",
    "translator harness/c15.py:generate (Python ast, alpha-normalised comparison with the accepted shapes of _call_periodic, "
    "KGTimerHandler.cancel, eval_sys_fn_timer, eval_sys_fn_cancel_timer, KGFnWrapper) for the flags guard / clear-on-raise / monotone re-arm / re-resolve",
    "extraction: ExtrOcamlBasic only; Z kept as inductive; ocaml/driver.ml",
    "Coq Model.loop_once models BaseEventLoop._run_once (dispatch rule `when < time() + clock_resolution`, cancelled handles skipped); "
    "it is compared on every run with harness VLoop and with asyncio's own SelectorEventLoop run on a virtual clock (RLoop: time() overridden, "
    "selector advances the clock instead of sleeping); under asyncio's heap, experiments with equal deadlines are judged by the checker only",
    "clock values are multiples of 2^-20 s below 2^32 s, so binary64 arithmetic on them is exact; rounding of other clock values is not modelled",
]
ASSUME = [
    "the event loop runs callbacks one at a time on one thread and never runs a cancelled handle (asyncio semantics, reproduced by VLoop)",
    "order of handles with equal deadlines is first-armed-first or its reverse (both are exercised); the theorems do not depend on the order",
    "callbacks are the scripted ones: advance the clock, optionally .timerc / redefine or unbind a callback name / raise / create the next timer of a pool, return a value of one of 14 kinds",
    "a callback name is unbound only while its timer exists (calling .timer with an unbound name is a Klong error, not a timer)",
    "binary64 rounding of non-dyadic clock values is not modelled",
]


# =============================================================================== translator
_PERIODIC_TMPL = '''
def _call_periodic(loop, name, interval, callback):
    start = loop.time()
%(ninit)s
    def run(handle, fn=callback):
%(nonlocal)s
%(call)s
%(guard)s
        if r:
            if interval == 0:
                handle.delegate = loop.call_soon(run, handle)
            else:
%(rearm)s
        else:
            handle.cancel()

    periodic = KGTimerHandler(name, interval)
    if interval == 0:
        periodic.delegate = loop.call_soon(run, periodic)
    else:
        periodic.delegate = loop.call_at(start + interval, run, periodic)

    return periodic
'''
_CALL_PLAIN = "        r = %sfn()%s"
_CALL_TRY = '''        try:
            r = %sfn()%s
        except%s:
            handle.delegate = None
            raise'''
_GUARD = '''        if handle.delegate is None:
            return'''
_REARM_LATER = "                handle.delegate = loop.call_later(interval - ((loop.time() - start) %% interval), run, handle)"
_REARM_MONO = '''                n = max(n + 1, int((loop.time() - start) // interval) + 1)
                handle.delegate = loop.call_at(start + n * interval, run, handle)'''

_IS_TRUE_SRC = '''
def _is_true(r):
    if is_empty(r):
        return False
    if getattr(r, "ndim", 0) > 0:
        return True
    return bool(r != 0)
'''
_CANCEL_SRC = '''
def cancel(self):
    if self.delegate is None:
        return 0
    self.delegate.cancel()
    self.delegate = None
    return 1
'''
_TIMERC_SRC = '''
def eval_sys_fn_cancel_timer(x):
    if not isinstance(x, KGTimerHandler):
        return 0
    return x.cancel()
'''
_TIMER_SRC = '''
def eval_sys_fn_timer(klong, x, y, z):
    y = int(y)
    if y < 0:
        return "x must be a non-negative integer"
    if isinstance(z, KGCall):
        return "z must be a function (not a function call)"
    if isinstance(z, KGFn):
        callback = KGFnWrapper(klong, z)
    elif callable(z):
        callback = z
    else:
        return "z must be a function"
    system = klong['.system']
    klongloop = system['klongloop']
    return _call_periodic(klongloop, x, y, callback)
'''
_HANDLER_INIT_SRC = '''
def __init__(self, name, interval):
    self.name = name
    self.interval = interval
    self.delegate = None
'''
_WRAP_INIT_SRC = '''
def __init__(self, klong, fn, sym=None):
    self.klong = klong
    self.fn = fn
    self._sym = sym if sym is not None else self._find_symbol(fn)
'''
_WRAP_FIND_SRC = '''
def _find_symbol(self, fn):
    if not isinstance(fn, KGFn) or isinstance(fn, KGCall):
        return None
    for sym, value in self.klong._context:
        if sym in reserved_fn_symbols or sym == reserved_dot_f_symbol:
            continue
        if value is fn:
            return sym
    return None
'''
_WRAP_CALL_SRC = '''
def __call__(self, *args, **kwargs):
    if self._sym is not None:
        try:
            current = self.klong._context[self._sym]
            if isinstance(current, KGFn) and not isinstance(current, KGCall):
                if len(args) != current.arity:
                    raise RuntimeError(f"Klong function called with {len(args)} but expected {current.arity}")
                fn_args = [np.asarray(x) if isinstance(x, list) else x for x in args]
                return self.klong.call(KGCall(current.a, [*fn_args], current.arity))
        except KeyError:
            pass
    if len(args) != self.fn.arity:
        raise RuntimeError(f"Klong function called with {len(args)} but expected {self.fn.arity}")
    fn_args = [np.asarray(x) if isinstance(x, list) else x for x in args]
    return self.klong.call(KGCall(self.fn.a, [*fn_args], self.fn.arity))
'''


# after 067b203 (a KeyError raised by the handler itself is no longer taken for a deleted symbol)
_WRAP_CALL_SRC2 = '''
def __call__(self, *args, **kwargs):
    if self._sym is not None:
        try:
            current = self.klong._context[self._sym]
        except KeyError:
            current = None
        if isinstance(current, KGFn) and not isinstance(current, KGCall):
            if len(args) != current.arity:
                raise RuntimeError(f"Klong function called with {len(args)} but expected {current.arity}")
            fn_args = [np.asarray(x) if isinstance(x, list) else x for x in args]
            return self.klong.call(KGCall(current.a, [*fn_args], current.arity))
    if len(args) != self.fn.arity:
        raise RuntimeError(f"Klong function called with {len(args)} but expected {self.fn.arity}")
    fn_args = [np.asarray(x) if isinstance(x, list) else x for x in args]
    return self.klong.call(KGCall(self.fn.a, [*fn_args], self.fn.arity))
'''


class _Alpha(ast.NodeTransformer):
    """rename every locally bound name (parameters, assigned names, inner defs, loop targets) to v0, v1, ... in source order"""

    def __init__(self, bound):
        self.bound = bound
        self.map = {}

    def _nm(self, s):
        if s not in self.bound:
            return s
        if s not in self.map:
            self.map[s] = "v%d" % len(self.map)
        return self.map[s]

    def visit_FunctionDef(self, node):
        node.name = self._nm(node.name)
        self.generic_visit(node)
        return node

    def visit_arg(self, node):
        node.arg = self._nm(node.arg)
        node.annotation = None
        return node

    def visit_Name(self, node):
        node.id = self._nm(node.id)
        return node

    def visit_Nonlocal(self, node):
        node.names = [self._nm(n) for n in node.names]
        return node


def _strip_doc(fn):
    for n in ast.walk(fn):
        if isinstance(n, (ast.FunctionDef, ast.AsyncFunctionDef)):
            b = n.body
            if b and isinstance(b[0], ast.Expr) and isinstance(b[0].value, ast.Constant) and isinstance(b[0].value.value, str):
                n.body = b[1:] or [ast.Pass()]
            n.returns = None
            # `pass` statements carry no behaviour
            n.body = [s for s in n.body if not isinstance(s, ast.Pass)] or [ast.Pass()]
    return fn


def norm(fn, keep_name=True):
    """alpha-normalised text of a function definition (docstrings, annotations, formatting, comments, local names ignored)"""
    fn = ast.parse(ast.unparse(fn)).body[0]          # private copy
    _strip_doc(fn)
    bound = set()
    for n in ast.walk(fn):
        if isinstance(n, ast.arg):
            bound.add(n.arg)
        elif isinstance(n, ast.Name) and isinstance(n.ctx, ast.Store):
            bound.add(n.id)
        elif isinstance(n, (ast.FunctionDef, ast.AsyncFunctionDef)) and n is not fn:
            bound.add(n.name)
    bound.discard("self")
    outer = fn.name
    fn = _Alpha(bound).visit(fn)
    fn.name = outer if keep_name else "f"
    return ast.unparse(fn)


def _norm_src(src):
    return norm(ast.parse(src).body[0])


def _periodic_variants():
    out = {}
    for guard, mono, truth in itertools.product((False, True), repeat=3):
        wrap = ("_is_true(", ")") if truth else ("", "")
        for clear, exc, base in ((False, None, False), (True, "", True), (True, " BaseException", True), (True, " Exception", False)):
            src = _PERIODIC_TMPL % {
                "ninit": "    n = 1" if mono else "",
                "nonlocal": "        nonlocal n" if mono else "",
                "call": (_CALL_TRY % (wrap + (exc,))) if clear else (_CALL_PLAIN % wrap),
                "guard": _GUARD if guard else "",
                "rearm": _REARM_MONO if mono else (_REARM_LATER % ()),
            }
            out[_norm_src(src)] = (guard, clear, base, mono, truth)
    return out


def read_flags():
    """-> dict(shape_ok, guard, clear, mono, resolve, why)"""
    res = {"shape_ok": False, "guard": False, "clear": False, "clear_base": False, "mono": False, "truth": False, "resolve": False, "why": []}

    def timer_side():
        m = astlib.module("klongpy/sys_fn_timer.py")
        per = astlib.find_func(m, "_call_periodic")
        got = _periodic_variants().get(norm(per))
        if got is None:
            raise ShapeError("_call_periodic / run is none of the accepted shapes")
        if got[4]:
            # the truth test is applied inside the try, so a failure of the test itself also clears the delegate
            if norm(astlib.find_func(m, "_is_true")) != _norm_src(_IS_TRUE_SRC):
                raise ShapeError("_is_true changed")
        cls = astlib.find_class(m, "KGTimerHandler")
        if norm(astlib.find_func(cls, "cancel")) != _norm_src(_CANCEL_SRC):
            raise ShapeError("KGTimerHandler.cancel changed")
        if norm(astlib.find_func(cls, "__init__")) != _norm_src(_HANDLER_INIT_SRC):
            raise ShapeError("KGTimerHandler.__init__ changed")
        if norm(astlib.find_func(m, "eval_sys_fn_cancel_timer")) != _norm_src(_TIMERC_SRC):
            raise ShapeError("eval_sys_fn_cancel_timer changed")
        if norm(astlib.find_func(m, "eval_sys_fn_timer")) != _norm_src(_TIMER_SRC):
            raise ShapeError("eval_sys_fn_timer changed")
        return got

    def wrapper_side():
        m = astlib.module("klongpy/types.py")
        cls = astlib.find_class(m, "KGFnWrapper")
        for name, srcs in (("__init__", (_WRAP_INIT_SRC,)), ("_find_symbol", (_WRAP_FIND_SRC,))):
            if norm(astlib.find_func(cls, name)) not in [_norm_src(src) for src in srcs]:
                raise ShapeError("KGFnWrapper.%s changed" % name)
        # __call__ is edited by other repairs (argument conversion, KeyError handling); what the property needs from it,
        # read as features: the symbol is looked up in the context on EVERY call (nothing cached on self), under
        # `if self._sym is not None`, and the looked-up function's body is what gets called
        call = astlib.find_func(cls, "__call__")
        if norm(call) not in (_norm_src(_WRAP_CALL_SRC), _norm_src(_WRAP_CALL_SRC2)):
            for n in ast.walk(call):
                if isinstance(n, (ast.Assign, ast.AugAssign, ast.AnnAssign)):
                    tg = n.targets if isinstance(n, ast.Assign) else [n.target]
                    if any(isinstance(t, ast.Attribute) for t in tg) or any(isinstance(t, ast.Subscript) for t in tg):
                        raise ShapeError("KGFnWrapper.__call__ stores state")
                if isinstance(n, ast.Call) and isinstance(n.func, ast.Name) and n.func.id in ("setattr", "getattr", "hasattr"):
                    raise ShapeError("KGFnWrapper.__call__ uses reflection")
            body = astlib.body_no_doc(call)
            if not (body and isinstance(body[0], ast.If) and ast.unparse(body[0].test) == "self._sym is not None" and not body[0].orelse):
                raise ShapeError("KGFnWrapper.__call__ does not start with `if self._sym is not None`")
            looked = None
            for n in ast.walk(body[0]):
                if isinstance(n, ast.Assign) and ast.unparse(n.value) == "self.klong._context[self._sym]" \
                        and len(n.targets) == 1 and isinstance(n.targets[0], ast.Name):
                    looked = n.targets[0].id
            if looked is None:
                raise ShapeError("KGFnWrapper.__call__ has no lookup self.klong._context[self._sym]")
            rets = [n for n in ast.walk(body[0]) if isinstance(n, ast.Return) and n.value is not None
                    and ast.unparse(n.value).startswith("self.klong.call(KGCall(%s.a," % looked)]
            if not rets:
                raise ShapeError("KGFnWrapper.__call__ does not call the looked-up function")
            stores = [n for n in ast.walk(call) if isinstance(n, ast.Name) and isinstance(n.ctx, ast.Store) and n.id == looked]
            for st in stores:
                par = [a for a in ast.walk(call) if isinstance(a, ast.Assign) and st in a.targets]
                if not par or ast.unparse(par[0].value) not in ("self.klong._context[self._sym]", "None"):
                    raise ShapeError("KGFnWrapper.__call__ binds the looked-up name to something else")
        return True

    t, why = astlib.try_flag(timer_side)
    if t is None:
        res["why"].append(why)
    else:
        res["guard"], res["clear"], res["clear_base"], res["mono"], res["truth"] = t
    w, why = astlib.try_flag(wrapper_side)
    if w is None:
        res["why"].append(why)
    else:
        res["resolve"] = True
    res["shape_ok"] = t is not None and w is not None
    return res


def no_name_registry():
    """The model identifies a timer by its handler object and nothing else.  True iff sys_fn_timer.py has no place
    where handlers could be kept by name (or at all) between calls: no module-level statement other than imports,
    class and function definitions (and a docstring); no class-level statement in KGTimerHandler other than methods;
    no `global` / `nonlocal` outside _call_periodic.run; no attribute stored on a function or module object."""
    m = astlib.module("klongpy/sys_fn_timer.py")
    for n in m.body:
        if isinstance(n, (ast.Import, ast.ImportFrom, ast.FunctionDef, ast.ClassDef)):
            continue
        if isinstance(n, ast.Expr) and isinstance(n.value, ast.Constant) and isinstance(n.value.value, str):
            continue
        raise ShapeError("module-level statement in sys_fn_timer.py: %s" % ast.unparse(n)[:60])
    for c in m.body:
        if isinstance(c, ast.ClassDef):
            if c.decorator_list or c.keywords:
                raise ShapeError("class %s has decorators / metaclass" % c.name)
            for n in c.body:
                if isinstance(n, ast.FunctionDef) and not n.decorator_list:
                    continue
                if isinstance(n, ast.Expr) and isinstance(n.value, ast.Constant) and isinstance(n.value.value, str):
                    continue
                raise ShapeError("class-level statement in %s: %s" % (c.name, ast.unparse(n)[:60]))
    per = astlib.find_func(m, "_call_periodic")
    run = astlib.find_func(per, "run")
    inside_run = set(id(x) for x in ast.walk(run))
    for n in ast.walk(m):
        if isinstance(n, ast.Global):
            raise ShapeError("global statement: %s" % ast.unparse(n))
        if isinstance(n, ast.Nonlocal) and id(n) not in inside_run:
            raise ShapeError("nonlocal outside run")
        if isinstance(n, ast.FunctionDef) and n.decorator_list:
            raise ShapeError("decorated function %s" % n.name)
        if isinstance(n, ast.arguments):
            for d in list(n.defaults) + [k for k in n.kw_defaults if k is not None]:
                if isinstance(d, (ast.Dict, ast.List, ast.Set, ast.Call, ast.ListComp, ast.DictComp, ast.SetComp)):
                    raise ShapeError("mutable default argument")
    return True


def generate():
    f = read_flags()
    reg, why = astlib.try_flag(no_name_registry)
    if reg is None:
        f["why"].append(why)
    out = []
    for w in f["why"]:
        out.append("(* shape not recognised: %s *)" % w.replace("*)", "* )"))
    out.append("Definition timer_shape_ok : bool := %s." % astlib.coq_bool(f["shape_ok"]))
    out.append("Definition timer_has_no_name_registry : bool := %s." % astlib.coq_bool(bool(reg)))
    out.append("Definition gen_guard : bool := %s." % astlib.coq_bool(f["guard"]))
    out.append("Definition gen_clear : bool := %s." % astlib.coq_bool(f["clear"]))
    # the class named by the except clause that marks the timer dead: BaseException (or bare) also covers SystemExit (.x),
    # KeyboardInterrupt and asyncio.CancelledError; `except Exception` does not
    out.append("Definition dead_timer_cleared_on_base_exception : bool := %s." % astlib.coq_bool(f["clear_base"]))
    out.append("Definition gen_mono : bool := %s." % astlib.coq_bool(f["mono"]))
    out.append("Definition gen_truth : bool := %s." % astlib.coq_bool(f["truth"]))
    out.append("Definition gen_resolve : bool := %s." % astlib.coq_bool(f["resolve"]))
    return "\n".join(out) + "\n"


# =============================================================================== virtual-time loop
class VHandle:
    __slots__ = ("when", "seq", "cb", "args", "_cancelled")

    def __init__(self, when, seq, cb, args):
        self.when, self.seq, self.cb, self.args, self._cancelled = when, seq, cb, args, False

    def cancel(self):
        self._cancelled = True

    def cancelled(self):
        return self._cancelled


class VLoop:
    """The part of asyncio.BaseEventLoop that timers use, on a virtual clock.
    run_once follows BaseEventLoop._run_once: drop cancelled handles at the head of the heap, wait for the earliest
    deadline (the wait ends `lat` away from it), move every handle with when < time() + resolution to the ready
    queue, run the ntodo handles that are ready now, skipping cancelled ones."""

    def __init__(self, t0, res, lifo, lats):
        self.now = t0
        self._clock_resolution = res
        self.lifo = lifo
        self.lats = list(lats)
        self.sched = []
        self.ready = []
        self.seq = 0
        self.cur = None
        self.errors = []

    def time(self):
        return self.now

    def cur_when(self):
        return self.cur.when

    def advance(self, d):
        if d > 0:
            self.now += d

    def call_soon(self, cb, *args):
        h = VHandle(self.now, self.seq, cb, args)
        self.seq += 1
        self.ready.append(h)
        return h

    def call_at(self, when, cb, *args):
        h = VHandle(when, self.seq, cb, args)
        self.seq += 1
        i = 0
        s = self.sched
        while i < len(s) and not ((when <= s[i].when) if self.lifo else (when < s[i].when)):
            i += 1
        s.insert(i, h)
        return h

    def call_later(self, delay, cb, *args):
        return self.call_at(self.time() + delay, cb, *args)

    def run_once(self):
        s = self.sched
        while s and s[0]._cancelled:
            s.pop(0)
        if not self.ready:
            if not s:
                return False
            lat = self.lats.pop(0) if self.lats else 0
            self.now = max(self.now, s[0].when + lat)
        end = self.now + self._clock_resolution
        while s and s[0].when < end:
            self.ready.append(s.pop(0))
        for _ in range(len(self.ready)):
            h = self.ready.pop(0)
            if h._cancelled:
                continue
            self.cur = h
            try:
                h.cb(*h.args)
            except (SystemExit, KeyboardInterrupt) as e:
                # Handle._run re-raises these: they leave _run_once (and run_forever); the rest of the batch stays queued.
                # The driver notes them and goes on with the next iteration, as a host that restarts the loop would
                self.errors.append(type(e).__name__)
                self.cur = None
                return True
            except BaseException as e:   # asyncio: call_exception_handler (CancelledError included)
                self.errors.append(type(e).__name__)
            self.cur = None
        return True


import asyncio
import selectors


class _VSelector(selectors.SelectSelector):
    """selector of RLoop: never polls; a select() that would block moves the virtual clock to the earliest deadline (+ latency)"""
    loop = None

    def select(self, timeout=None):
        lp = self.loop
        if lp._ready or lp._stopping:
            return []
        if not lp._scheduled:
            lp.idle = True
            return []
        lat = lp.lats.pop(0) if lp.lats else 0
        lp.now = max(lp.now, lp._scheduled[0]._when + lat)
        return []


class RLoop(asyncio.SelectorEventLoop):
    """The REAL asyncio event loop (BaseEventLoop._run_once, call_soon, call_at, call_later, heapq of TimerHandle,
    TimerHandle.cancel, _clock_resolution) on a virtual clock: time() is overridden and the selector does not sleep.
    Callbacks are wrapped only to remember the deadline of the handle being run."""

    def __init__(self, t0, res, lats):
        sel = _VSelector()
        super().__init__(sel)
        sel.loop = self
        self.now = t0
        self._clock_resolution = res
        self.lats = list(lats)
        self.idle = False
        self.errors = []
        self._when = None
        self.tie = False
        self.set_exception_handler(lambda lp, ctx: self.errors.append(type(ctx.get("exception")).__name__))

    def time(self):
        return self.now

    def cur_when(self):
        return self._when

    def advance(self, d):
        if d > 0:
            self.now += d

    def _enter(self, when, cb, args):
        self._when = when
        cb(*args)

    def call_soon(self, cb, *args, context=None):
        return super().call_soon(self._enter, self.now, cb, args, context=context)

    def call_at(self, when, cb, *args, context=None):
        if any(h._when == when for h in self._scheduled):
            self.tie = True          # heapq gives no order among equal deadlines: such a case is judged by the checker only
        return super().call_at(when, self._enter, when, cb, args, context=context)

    def run_once(self):
        self.idle = False
        try:
            self._run_once()
        except (SystemExit, KeyboardInterrupt) as e:     # re-raised by asyncio's Handle._run
            self.errors.append(type(e).__name__)
            return True
        return not self.idle


def units(x):
    """clock value -> integer number of 2^-20 s (exact), or a marker when it is not such a value"""
    f = Fraction(x) * U
    if f.denominator != 1:
        return ("inexact", str(f))
    return int(f)


_klong = None
_current = {"tick": None}


def _tick_entry(x, y):
    # one stable Python function for every experiment: klongpy may memoise what a parsed callback text resolved to
    return _current["tick"](x, y)


def _interp():
    global _klong
    if _klong is None:
        from klongpy import KlongInterpreter
        _klong = KlongInterpreter()
        _klong['tick'] = _tick_entry
    return _klong


# codes of callback results (coq/C15/Run.v retv_of) and their Klong truth (0, [] and "" are false)
KLONG_TRUE = [False, True, True, True, False, True, False, True, False, True, True, True, True, True]


def retvalue(code):
    import numpy as np
    from klongpy.core import KGSym
    return [0, 1, 2, -1, 0.0, 1.5, "", "a", np.array([]), np.array([0]), np.array([1]), np.array([1, 2]), np.array([0, 0]),
            KGSym("s")][code]


_klong2 = None


def _interp2():
    global _klong2
    if _klong2 is None:
        from klongpy import KlongInterpreter
        _klong2 = KlongInterpreter()
    return _klong2


class ScriptRaise(Exception):
    pass


class NotATimer:
    """something with a cancel() method that is not a KGTimerHandler (e.g. a raw loop handle)"""

    def cancel(self):
        return 1


NONHANDLERS = [0, "t0", NotATimer(), None]


def impl_run(case, real=False):
    """Run one experiment on the real timer code, under VLoop or (real=True) under asyncio's own loop on a virtual clock.
    -> (events, delegates, info)"""
    from klongpy.sys_fn_timer import eval_sys_fn_timer, eval_sys_fn_cancel_timer, KGTimerHandler
    if real:
        loop = RLoop(case["t0"] / U, case["res"] / U, [l / U for l in case["lats"]])
    else:
        loop = VLoop(case["t0"] / U, case["res"] / U, bool(case["lifo"]), [l / U for l in case["lats"]])
    named = case["mode"] == "klong"
    klong = _interp()
    klong['.system'] = {'klongloop': loop}
    trace = []
    th = []
    scripts = []
    st = {"nver": 1}

    def timerc(j):
        x = th[j] if j < len(th) else NONHANDLERS[j % len(NONHANDLERS)]
        r = eval_sys_fn_cancel_timer(x)
        trace.append([3, j, units(loop.now), int(r)])

    # klongpy puts `name::value` issued inside a function into the innermost scope when the name exists nowhere, so a
    # callback cannot re-create a deleted global: really delete (KeyError path of the wrapper) only in experiments
    # whose redefinitions all come from external handles (top level, where `::` creates the global again);
    # otherwise rebind the name to a number (not-a-function path)
    steps_all = [q for (_, _, stp) in case["timers"] for q in stp] + [q for (_, stp) in case.get("pool", []) for q in stp]
    hard_delete = not any(q[2] == 2 for q in steps_all)
    bound = {}          # the harness' own record of what it bound to each callback name
    captured = {}       # ... and of what was bound when it created timer k

    def redefine(k):
        v = st["nver"]
        st["nver"] += 1
        if named:
            klong('cb%d::{tick(%d;%d)}' % (k, k, v))
        bound[k] = v
        trace.append([4, k, v])

    def undefine(k):
        # no function under the name any more: deleted, or rebound to a number.  Calls through the wrapper of
        # timer k must now run the function object captured at .timer time
        if named:
            from klongpy.core import KGSym
            if hard_delete and klong._context.is_defined_sym(KGSym('cb%d' % k)):
                del klong['cb%d' % k]
            else:
                klong('cb%d::5' % k)
        bound[k] = None
        trace.append([4, k, captured.get(k, 0)])

    info = {"refused": 0}
    pool = [(y, [tuple(q) for q in steps]) for (y, steps) in case.get("pool", [])]

    # the NAME string given to .timer (first argument) is no identity: several live timers may carry the same one.
    # case["names"][i] = name index of the i-th timer created (default: all different); case["interps"][i] = 1: the
    # timer is started through a second KlongInterpreter of this process (python callbacks only)
    names = case.get("names") or []
    interps = case.get("interps") or []

    def create(y, steps):
        i = len(th)
        nm = "n%d" % names[i % len(names)] if names else "t%d" % i
        if named:
            h = klong('.timer("%s";%d;cb%d)' % (nm, y, i))
        else:
            kl = klong
            if interps and interps[i % len(interps)]:
                kl = _interp2()
                kl['.system'] = {'klongloop': loop}
            h = eval_sys_fn_timer(kl, nm, y, (lambda i=i: tick(i, 0)))
        if y < 0:
            if not isinstance(h, str):
                raise RuntimeError("negative interval accepted")
            info["refused"] += 1
            return
        if not isinstance(h, KGTimerHandler):
            raise RuntimeError(".timer returned %r" % (h,))
        th.append(h)
        captured[i] = bound.get(i, 0) or 0
        scripts.append([tuple(q) for q in steps])
        trace.append([0, i, units(loop.now), units(h.interval)])

    def tick(x, y):
        i, v = int(x), int(y)
        step = scripts[i].pop(0) if scripts[i] else (0, 0, 0, 0)
        dur, ret, act, arg = step
        trace.append([1, i, units(loop.now), units(loop.cur_when()), v])
        loop.advance(dur / U)
        if act == 1:
            timerc(arg)
        elif act == 2:
            redefine(arg)
        elif act == 3:
            trace.append([2, i, units(loop.now), 2])
            if arg == 0:
                raise ScriptRaise("scripted")
            if arg == 1:
                raise asyncio.CancelledError()
            if arg == 2:
                if named:
                    klong('.x(0)')          # Klong's Exit: SystemExit
                raise SystemExit(0)
            raise KeyboardInterrupt()
        elif act == 4 and pool:
            create(*pool.pop(0))
        elif act == 5:
            undefine(arg)
        trace.append([2, i, units(loop.now), 0 if KLONG_TRUE[ret] else 1])
        return retvalue(ret)

    def ext(kind, idx):
        if kind == 0:
            timerc(idx)
        elif kind == 1:
            redefine(idx)
        else:
            undefine(idx)

    _current["tick"] = tick
    if named:
        for k in range(10):
            klong('cb%d::{tick(%d;0)}' % (k, k))
    for (t, kind, idx) in case["exts"]:
        loop.call_at(t / U, ext, kind, idx)
    for (gap, y, steps) in case["timers"]:
        loop.advance(gap / U)
        create(y, steps)
    idle = False
    for _ in range(case["fuel"]):
        if not loop.run_once():
            trace.append([5])
            idle = True
            break
    info["errors"] = list(loop.errors)
    info["idle"] = idle
    if real:
        info["tie"] = loop.tie
        loop.close()
    return trace, [int(h.delegate is not None) for h in th], info


def model_req(case, flags):
    return sx(["run", [int(f) for f in flags], [case["res"], case["lifo"]], case["t0"],
               [list(e) for e in case["exts"]],
               [[gap, y * U, [list(s) for s in steps]] for (gap, y, steps) in case["timers"]],
               [[y * U, [list(s) for s in steps]] for (y, steps) in case.get("pool", [])],
               list(case["lats"]), case["fuel"]])


def mon_req(strict, case, trace):
    return sx(["mon", int(strict), case["res"], case["t0"], trace])


def exact(trace):
    return all(isinstance(x, int) for e in trace for x in e)


# =============================================================================== case generators
def lat_values(res, y):
    iv = max(y, 1) * U
    return {"on": 0, "early": -(res // 2) if res > 1 else 0, "late": iv // 4 + 3, "vlate": iv + iv // 2 + 5}


def dur_values(y):
    iv = max(y, 1) * U
    return [0, iv // 2, iv, iv + iv // 4, 2 * iv + 7]


def single_cases(tier, named):
    """one timer: every script up to length 2 (3 in thorough) over a small alphabet x intervals x latency class x resolution"""
    acts = [(0, 0), (1, 0), (3, 0), (3, 2)] + ([(2, 0)] if named else [])
    maxlen = 2 if (tier == "quick" or named) else 3
    for y in INTERVALS:
        durs = dur_values(y)[:4] if tier == "quick" else dur_values(y)
        alphabet = [(d, r, a, g) for d in durs for r in (0, 1) for (a, g) in acts]
        if named:
            alphabet = [s for s in alphabet if s[0] in (0, durs[2])]
        for n in range(1, maxlen + 1):
            if n == 3:
                alphabet = [s for s in alphabet if s[0] in (0, durs[1], durs[3])]
            for steps in itertools.product(alphabet, repeat=n):
                for res in (1024,):
                    for lc in ("on", "early", "late", "vlate"):
                        lat = lat_values(res, y)[lc]
                        yield {"mode": "klong" if named else "py", "res": res, "lifo": 0, "t0": 10 * U + 3, "exts": [],
                               "timers": [(0, y, list(steps))], "lats": [lat] * 8, "fuel": 16, "kind": "single-" + lc}


def random_case(rng, named, big=False):
    res = rng.choice([1, 1024, 1024, 4096])
    nt = rng.choice([1, 1, 2, 2, 3])
    timers = []
    for i in range(nt):
        y = rng.choice(INTERVALS) if rng.random() > 0.03 else -1
        n = rng.randint(0, 8 if big else 5)
        steps = []
        for _ in range(n):
            d = rng.choice(dur_values(y) + [1, res - 1, res, rng.randint(0, 3 * U)])
            r = 1 if rng.random() < 0.75 else 0
            if rng.random() < 0.12:
                r = rng.randint(2, 13)
            p = rng.random()
            if p < 0.06:
                a, g = 4, 0
            elif p < 0.55:
                a, g = 0, 0
            elif p < 0.70:
                a, g = 1, i
            elif p < 0.82:
                a, g = 1, rng.randint(0, nt + 3)
            elif p < 0.87:
                a, g = (2, rng.randint(0, nt - 1)) if named else (0, 0)
            elif p < 0.92:
                a, g = (5, rng.randint(0, nt - 1)) if named else (0, 0)
            else:
                a, g = 3, rng.choice([0, 0, 1, 2, 3])
            steps.append((d, r, a, g))
        gap = rng.choice([0, 0, 1, U // 2, U, rng.randint(0, 2 * U)])
        timers.append((gap, y, steps))
    # a name may only be unbound if its timer exists from the start (.timer of an unbound name is an error, not a timer)
    nvalid = sum(1 for (_, y, _) in timers if y >= 0)
    timers = [(g, y, [((d, r, 0, 0) if (a == 5 and (nvalid == 0 or ag >= nvalid)) else (d, r, a, ag)) for (d, r, a, ag) in st])
              for (g, y, st) in timers]
    pool = []
    if any(q[2] == 4 for (_, _, st) in timers for q in st):
        for _ in range(rng.randint(0, 2)):
            y = rng.choice(INTERVALS) if rng.random() > 0.05 else -1
            pool.append((y, [(rng.choice(dur_values(y)), rng.choice([0, 1, 1, 1, 9, 11]), rng.choice([0, 0, 0, 1, 4]),
                              rng.randint(0, nt + 2)) for _ in range(rng.randint(0, 4))]))
    t0 = rng.choice([0, 7, 10 * U, 10 * U + 3, rng.randint(0, 1000 * U)])
    exts = []
    for _ in range(rng.choice([0, 0, 1, 2, 3])):
        t = t0 + rng.choice([0, U, 2 * U, 3 * U - 1, 5 * U, rng.randint(0, 12 * U), 2 * U + res // 2, 2 * U - res // 2])
        if named and rng.random() < 0.4:
            kind = rng.choice([1, 1, 2])
            idx = rng.randint(0, nt - 1)
            if kind == 2 and idx >= nvalid:
                kind = 1
            exts.append((t, kind, idx))
        else:
            exts.append((t, 0, rng.randint(0, nt + 3)))
    lats = []
    for _ in range(rng.randint(0, 12)):
        p = rng.random()
        if p < 0.35:
            lats.append(0)
        elif p < 0.6:
            lats.append(-rng.randint(1, max(1, res - 1)))
        elif p < 0.65:
            lats.append(-res - rng.randint(0, 5))
        elif p < 0.85:
            lats.append(rng.randint(1, U))
        else:
            lats.append(rng.randint(U, 7 * U))
    extra = {}
    if rng.random() < 0.35:
        # same name string for several timers (incl. those created inside callbacks)
        extra["names"] = [rng.randint(0, 1) for _ in range(nt + len(pool))] if rng.random() < 0.5 else [0]
    if not named and rng.random() < 0.15:
        extra["interps"] = [rng.randint(0, 1) for _ in range(nt + len(pool))]
    return {**extra, "mode": "klong" if named else "py", "res": res, "lifo": int(rng.random() < 0.3), "t0": t0, "exts": exts,
            "timers": timers, "pool": pool, "lats": lats, "fuel": rng.choice([3, 10, 40, 40, 40]), "kind": "random"}


# the witnesses of the three defect classes of DESIGN 0 / R9 (also proved as ..._refuted in Properties.v)
WITNESS = {
    "self": {"mode": "py", "res": 1024, "lifo": 0, "t0": 0, "exts": [], "timers": [(0, 1, [(0, 1, 1, 0), (0, 0, 0, 0)])],
             "lats": [], "fuel": 8, "kind": "witness-self"},
    "raise": {"mode": "py", "res": 1024, "lifo": 0, "t0": 0, "exts": [(3 * U, 0, 0)], "timers": [(0, 1, [(0, 1, 3, 0)])],
              "lats": [], "fuel": 8, "kind": "witness-raise"},
    "early": {"mode": "py", "res": 1024, "lifo": 0, "t0": 0, "exts": [], "timers": [(0, 1, [(0, 1, 0, 0), (0, 0, 0, 0)])],
              "lats": [-512], "fuel": 8, "kind": "witness-early"},
    "resolve": {"mode": "klong", "res": 1024, "lifo": 0, "t0": 0, "exts": [], "timers": [(0, 1, [(0, 1, 2, 0), (0, 0, 0, 0)])],
                "lats": [], "fuel": 8, "kind": "witness-resolve"},
}


WITNESS["truth-list"] = {"mode": "py", "res": 1024, "lifo": 0, "t0": 0, "exts": [(5 * U, 0, 0)],
                         "timers": [(0, 1, [(0, 11, 0, 0), (0, 0, 0, 0)])], "lats": [], "fuel": 8, "kind": "witness-truth"}
WITNESS["truth-zero-list"] = {"mode": "klong", "res": 1024, "lifo": 0, "t0": 0, "exts": [],
                              "timers": [(0, 1, [(0, 9, 0, 0), (0, 0, 0, 0)])], "lats": [], "fuel": 8, "kind": "witness-truth"}
WITNESS["truth-empty"] = {"mode": "py", "res": 1024, "lifo": 0, "t0": 0, "exts": [(5 * U, 0, 0)],
                          "timers": [(0, 1, [(0, 8, 0, 0)])], "lats": [], "fuel": 8, "kind": "witness-truth"}
WITNESS["undef"] = {"mode": "klong", "res": 1024, "lifo": 0, "t0": 0, "exts": [(3 * U + U // 2, 1, 0)],
                    "timers": [(0, 1, [(0, 1, 2, 0), (0, 1, 5, 0), (0, 1, 0, 0), (0, 1, 0, 0), (0, 0, 0, 0)])],
                    "lats": [], "fuel": 12, "kind": "witness-undef"}
WITNESS["delete-recreate"] = {"mode": "klong", "res": 1024, "lifo": 0, "t0": 0, "exts": [(U + U // 2, 2, 0), (2 * U + U // 2, 1, 0)],
                             "timers": [(0, 1, [(0, 1, 0, 0), (0, 1, 0, 0), (0, 1, 0, 0), (0, 0, 0, 0)])],
                             "lats": [], "fuel": 12, "kind": "witness-undef"}
WITNESS["spawn"] = {"mode": "klong", "res": 1024, "lifo": 0, "t0": 0, "exts": [],
                    "timers": [(0, 1, [(0, 1, 4, 0), (0, 1, 1, 1), (0, 0, 0, 0)])], "pool": [(2, [(0, 1, 0, 0), (0, 1, 0, 0)])],
                    "lats": [], "fuel": 12, "kind": "witness-spawn"}


def retval_cases(named):
    """every kind of callback result, alone and followed by a second tick, on and off the boundary"""
    for y in (0, 1):
        for code in range(14):
            for act in (0, 1):
                for lat in (0, 3):
                    yield {"mode": "klong" if named else "py", "res": 1024, "lifo": 0, "t0": 5, "exts": [(6 * U, 0, 0)],
                           "timers": [(0, y, [(0, code, act, 0), (U // 2, code, 0, 0), (0, 0, 0, 0)])], "lats": [lat] * 4, "fuel": 12,
                           "kind": "retval-%d" % code}


WITNESS["same-name"] = {"mode": "py", "res": 1024, "lifo": 0, "t0": 0, "exts": [(5 * U + 7, 0, 0)], "names": [0],
                        "timers": [(0, 1, [(0, 1, 0, 0)] * 4 + [(0, 0, 0, 0)]), (U + U // 2, 2, [(0, 1, 0, 0), (0, 0, 0, 0)])],
                        "lats": [], "fuel": 20, "kind": "witness-samename"}


WITNESS["base-exception"] = {"mode": "klong", "res": 1024, "lifo": 0, "t0": 0, "exts": [(3 * U, 0, 0)],
                             "timers": [(0, 1, [(0, 1, 3, 2)])], "lats": [], "fuel": 8, "kind": "witness-raise"}


def raise_cases(named):
    """a callback leaves through an Exception / asyncio.CancelledError / SystemExit (.x(0) from Klong) / KeyboardInterrupt,
    at its first or second tick, alone or next to a second timer due at the same instant (SystemExit and KeyboardInterrupt
    end the loop's batch); .timerc on the dead timer and on the other one follows, then more loop iterations"""
    for y in INTERVALS:
        for kind in (0, 1, 2, 3):
            for first in (True, False):
                for other in (None, y, 1):
                    for lat in (0, 7):
                        steps = ([] if first else [(0, 1, 0, 0)]) + [(U // 4, 1, 3, kind), (0, 1, 0, 0)]
                        timers = [(0, y, steps)]
                        if other is not None:
                            timers.append((0, other, [(0, 1, 0, 0)] * 3 + [(0, 0, 0, 0)]))
                        yield {"mode": "klong" if named else "py", "res": 1024, "lifo": 0, "t0": 11,
                               "exts": [(4 * U, 0, 0), (4 * U + 1, 0, 0), (6 * U, 0, 1)], "timers": timers, "lats": [lat] * 3,
                               "fuel": 30, "kind": "raise-%d" % kind}


def same_name_cases(named):
    """two or three timers alive at once under ONE name: same / different intervals, started at set-up, later from an
    external point of view (gap) or from inside a callback, in one interpreter or (python callbacks) in two"""
    live = [(0, 1, 0, 0)] * 3 + [(0, 0, 0, 0)]
    for y1 in INTERVALS:
        for y2 in INTERVALS:
            for gap in (0, U // 2, U + 3):
                for third in (None, 1):
                    for how in ("setup", "spawn"):
                        for interps in ([0], [0, 1]) if not named else ([0],):
                            timers = [(0, y1, list(live) if how == "setup" else [(0, 1, 4, 0)] + list(live))]
                            pool = []
                            if how == "setup":
                                timers.append((gap, y2, list(live)))
                            else:
                                pool.append((y2, list(live)))
                            if third is not None:
                                timers.append((1, third, [(0, 1, 1, 0), (0, 1, 0, 0), (0, 0, 0, 0)]))
                            c = {"mode": "klong" if named else "py", "res": 1024, "lifo": 0, "t0": 3, "exts": [(9 * U, 0, 0), (9 * U, 0, 1)],
                                 "names": [0], "timers": timers, "pool": pool, "lats": [0, 5], "fuel": 40, "kind": "samename-" + how}
                            if interps != [0]:
                                c["interps"] = interps
                            yield c


def build_cases(chk, rng):
    """generator of all cases of a run"""
    for c in WITNESS.values():
        yield c
    for named in (False, True):
        for c in same_name_cases(named):
            yield c
        for c in raise_cases(named):
            yield c
    for named in (False, True):
        for c in retval_cases(named):
            yield c
    for c in single_cases(chk.tier, False):
        yield c
    for c in single_cases(chk.tier, True):
        yield c
    n_py, n_kl = (14000, 4000) if chk.tier == "quick" else (500000, 100000)
    for _ in range(n_py):
        yield random_case(rng, False)
    for _ in range(n_kl):
        yield random_case(rng, True)


def batches(it, n):
    buf = []
    for x in it:
        buf.append(x)
        if len(buf) >= n:
            yield buf
            buf = []
    if buf:
        yield buf


# the argument checks of eval_sys_fn_timer against Model.timer_validate
def check_validate(chk):
    from klongpy.core import KGCall, KGSym
    from klongpy.sys_fn_timer import eval_sys_fn_timer, KGTimerHandler
    klong = _interp()
    klong('vf::{1}')
    fn = klong._context[KGSym('vf')]
    zs = [(0, KGCall(fn.a, [], 0)), (1, fn), (2, (lambda: 0)), (3, 5), (3, "cb"), (3, None)]
    codes = {"x must be a non-negative integer": 0, "z must be a function (not a function call)": 1, "z must be a function": 2}
    reqs, got, what = [], [], []
    for y in (-3, -1, 0, 1, 2, 5, 7):
        for zk, z in zs:
            klong['.system'] = {'klongloop': VLoop(0.0, 2.0 ** -10, False, [])}
            try:
                r = eval_sys_fn_timer(klong, "v", y, z)
                g = 3 if isinstance(r, KGTimerHandler) and r.interval == y else codes.get(r, -1) if isinstance(r, str) else -1
            except Exception as e:
                g = -2
            reqs.append(sx(["validate", y, zk]))
            got.append(g)
            what.append({"y": y, "z": type(z).__name__})
    bad = None
    for m, g, w in zip(chk.run_model(reqs), got, what):
        chk.count("evaluations")
        chk.count("validate_cases")
        if m != g and bad is None:
            bad = dict(w, model=m, impl=g)
    # y is truncated by int() before the check
    klong['.system'] = {'klongloop': VLoop(0.0, 2.0 ** -10, False, [])}
    r = eval_sys_fn_timer(klong, "v", 2.75, (lambda: 0))
    if not (isinstance(r, KGTimerHandler) and r.interval == 2) and bad is None:
        bad = {"y": 2.75, "impl": repr(r), "model": "interval 2"}
    return bad


# =============================================================================== evaluation
def _try_run(c, real):
    try:
        return impl_run(c, real=real)
    except Exception as e:  # the harness itself could not drive the code: report as a behaviour difference
        return [["crash", type(e).__name__, str(e)[:200]]], [], {"errors": [], "idle": False, "refused": 0, "tie": False}


def evaluate(chk, cases, flags, with_model=True, real_every=0):
    """-> list of dict(case, trace, deleg, info, model, oracle, strict [, real, real_oracle])
    real_every = k > 0: every k-th case is also run under asyncio's own loop (RLoop)"""
    impl = [_try_run(c, False) for c in cases]
    real = {}
    if real_every:
        for k in range(0, len(cases), real_every):
            real[k] = _try_run(cases[k], True)
    reqs = []
    for k, (c, (tr, dl, info)) in enumerate(zip(cases, impl)):
        if with_model:
            reqs.append(model_req(c, flags))
        if exact(tr):
            reqs.append(mon_req(0, c, tr))
            reqs.append(mon_req(1, c, tr))
        if k in real and exact(real[k][0]):
            reqs.append(mon_req(0, c, real[k][0]))
    outs = iter(chk.run_model(reqs))
    res = []
    for k, (c, (tr, dl, info)) in enumerate(zip(cases, impl)):
        r = {"case": c, "trace": tr, "deleg": dl, "info": info, "model": None, "oracle": None, "strict": None, "real": None}
        if with_model:
            r["model"] = next(outs)
        if exact(tr):
            r["oracle"] = next(outs)
            r["strict"] = next(outs)
        else:
            r["oracle"] = r["strict"] = ["fail", -1]
        if k in real:
            r["real"] = real[k]
            r["real_oracle"] = next(outs) if exact(real[k][0]) else ["fail", -1]
        res.append(r)
    return res


def describe_event(e):
    k = e[0]
    if k == 0:
        return "create timer %d at %s interval %s" % (e[1], e[2], e[3])
    if k == 1:
        return "tick of timer %d at %s (handle armed for %s, callback version %s)" % (e[1], e[2], e[3], e[4])
    if k == 2:
        return "callback of timer %d ends at %s: %s" % (e[1], e[2], ["returns 1", "returns 0", "raises"][e[3]])
    if k == 3:
        return ".timerc(timer %d) at %s returned %s" % (e[1], e[2], e[3])
    if k == 4:
        return "callback name of timer %d rebound to version %d" % (e[1], e[2])
    if k == 5:
        return "loop idle"
    return repr(e)


def replay_obj(r, which):
    k = r[which][1] if r[which] and r[which][0] == "fail" else None
    crash = [e for e in r["trace"] if e and e[0] == "crash"]
    return {"case": r["case"], "units_per_second": U, "observed_history": r["trace"],
            "first_rejected_event_index": k,
            "first_rejected_event": ("the timer code could not be driven: %s %s" % (crash[0][1], crash[0][2])) if crash else
            (describe_event(r["trace"][k]) if isinstance(k, int) and 0 <= k < len(r["trace"]) else None),
            "loop_errors": r["info"].get("errors"), "checker": "Spec.mon_run strict=%s" % (which == "strict"),
            "event_loop": r.get("under", "harness VLoop")}


def early_only(r):
    """strict checker rejects, tolerant one accepts: some callback started before its boundary by less than the clock resolution"""
    return r["oracle"] == ["ok"] and r["strict"] != ["ok"]


def run(tier, replay=None):
    chk = Check("C15", tier)
    rng = random.Random(chk.seed)
    chk.generate(generate())
    chk.build_model()
    hits = forbidden_scan("C15")
    proof = chk.build_proofs()
    if hits:
        proof["ok"] = False
        proof["error"] = "forbidden declarations: %r" % hits
        proof["broken"] = hits[0]
    fl = chk.run_model(["(flags)"])[0]
    flags = tuple(bool(x) for x in fl)
    src = read_flags()
    if flags != (src["guard"], src["clear"], src["clear_base"], src["mono"], src["truth"], src["resolve"]):
        raise RuntimeError("extracted model was not built from the current Generated.v")

    bad_prop = None
    bad_corr = None
    bad_real = None
    seen = set()
    n_early = 0
    bad_val = check_validate(chk)
    for cases in batches(build_cases(chk, rng), 20000):
      for r in evaluate(chk, cases, flags, real_every=8):
        c = r["case"]
        chk.count("evaluations")
        chk.count("cases_" + c["kind"].split("-")[0] + "_" + c["mode"])
        key = hash(json.dumps(r["trace"]))
        if len(r["trace"]) > 2 and key not in seen:
            seen.add(key)
            chk.count("distinct_nontrivial")
        chk.count("events", len(r["trace"]))
        chk.count("ticks", sum(1 for e in r["trace"] if e[0] == 1))
        if r["oracle"] != ["ok"]:
            if bad_prop is None:
                bad_prop = r
            continue
        if early_only(r):
            n_early += 1
            chk.count("early_dispatch_histories")
            if n_early == 1:
                # the strict reading of "never before an interval boundary" fails only through ticks that start
                # less than one clock resolution early (Proofs.strict_accepts_on_time): the one known class
                chk.finding("C15-early-within-resolution",
                            "a callback started before its interval boundary (by less than the loop's clock resolution)",
                            replay_obj(r, "strict"))
        m = r["model"]
        ok = m[0] == "ok" and m[1] == r["trace"] and m[2] == r["deleg"]
        if not ok and bad_corr is None:
            bad_corr = r
        if r["real"] is not None:
            # the same experiment under asyncio's own _run_once / heap / TimerHandle on a virtual clock
            chk.count("real_loop_cases")
            rt, rd, ri = r["real"]
            if r["real_oracle"] != ["ok"]:
                if bad_prop is None:
                    bad_prop = dict(r, trace=rt, deleg=rd, info=ri, oracle=r["real_oracle"], under="asyncio.SelectorEventLoop on a virtual clock")
                continue
            if ri.get("tie") or c["lifo"]:
                chk.count("real_loop_equal_deadlines_checker_only")
            elif (rt != r["trace"] or rd != r["deleg"]) and bad_real is None:
                bad_real = r
        if c["kind"] == "random":
            chk.sample({"timers": c["timers"], "exts": c["exts"], "lats": c["lats"][:6], "res": c["res"], "mode": c["mode"],
                        "history": r["trace"][:10]}, limit=3)
        elif c["kind"].startswith("single"):
            chk.sample({"timers": c["timers"], "lats": c["lats"][:2], "mode": c["mode"], "history": r["trace"][:10]}, limit=5)
      if bad_prop is not None:
        break

    if bad_prop is not None:
        ro = replay_obj(bad_prop, "oracle")
        chk.violation("timer history rejected by the property checker: %s" % (ro["first_rejected_event"] or "inexact clock value"), ro)
    else:
        need_search = bad_corr is not None or bad_real is not None or bad_val is not None or not proof["ok"]
        found = None
        if need_search:
            # wider sweep, property oracle only
            rng2 = random.Random(chk.seed + 99991)
            extra = [random_case(rng2, i % 4 == 0, big=True) for i in range(6000 if tier == "quick" else 60000)]
            for r in evaluate(chk, extra, flags, with_model=False):
                chk.count("evaluations")
                chk.count("search_cases")
                if r["oracle"] != ["ok"]:
                    found = r
                    break
        if found is not None:
            ro = replay_obj(found, "oracle")
            chk.violation("timer history rejected by the property checker: %s" % (ro["first_rejected_event"] or "inexact clock value"), ro)
        elif bad_val is not None:
            chk.violation("argument checks of eval_sys_fn_timer differ from Model.timer_validate; no history rejected by the property checker in %d cases"
                          % chk.counters.get("evaluations", 0), {"broken": "correspondence C15/Model.v timer_validate", "detail": bad_val}, no_input=True)
        elif bad_real is not None:
            chk.violation("harness VLoop and asyncio's own event loop (virtual clock) schedule the same experiment differently; "
                          "no history rejected by the property checker in %d cases" % chk.counters.get("evaluations", 0),
                          {"broken": "correspondence VLoop / asyncio.BaseEventLoop._run_once", "case": bad_real["case"],
                           "vloop_history": bad_real["trace"], "asyncio_history": bad_real["real"][0]}, no_input=True)
        elif bad_corr is not None:
            m = bad_corr["model"]
            chk.violation("correspondence between klongpy and the Coq model broke; no history rejected by the property checker in %d cases"
                          % chk.counters.get("evaluations", 0),
                          {"broken": "correspondence C15/Model.v", "case": bad_corr["case"], "impl_history": bad_corr["trace"],
                           "model_history": m[1] if m and m[0] == "ok" else m, "impl_delegates": bad_corr["deleg"],
                           "model_delegates": m[2] if m and m[0] == "ok" else None, "flags": src}, no_input=True)
        elif not proof["ok"]:
            chk.violation("proof obligation no longer checks: %s" % proof["broken"],
                          {"broken_obligation": proof["broken"], "coq_error": proof["error"], "generated": chk.generated_text}, no_input=True)
    return chk.finish(
        rule="one timer: every callback script up to length 2 (3 in thorough, python callbacks) over durations {0, I/2, I, 5I/4, 2I+} x return x "
             "action {none, cancel self, raise, redefine} x intervals {0,1,2,5} x dispatch {on time, early within resolution, late < I, late > I}; every kind of "
             "callback result (14: ints, reals, strings, lists of 0/1/2 elements, symbol) alone and repeated; seeded random systems of 1-3 timers with cancel-other / "
             "non-timers, timers created inside callbacks, names unbound and re-created, external .timerc / redefinition / unbinding at chosen times, mixed latencies, "
             "both tie orders, fractional start times; python callables and named Klong callbacks through .timer; every 8th case also under asyncio's own event loop on a "
             "virtual clock. distinct_nontrivial = distinct observed histories with more than 2 events",
        trusted_base=TRUSTED, assumptions=ASSUME)


def replay(path):
    body = json.load(open(path))
    rp = body.get("replay", {})
    case = rp.get("case")
    if not case:
        print(json.dumps(body, indent=1))
        return 0
    case["timers"] = [(g, y, [tuple(s) for s in st]) for g, y, st in case["timers"]]
    case["exts"] = [tuple(e) for e in case["exts"]]
    case["pool"] = [(y, [tuple(s) for s in st]) for y, st in case.get("pool", [])]
    real = "asyncio" in rp.get("event_loop", "")
    tr, dl, info = _try_run(case, real)
    print("case:", json.dumps(case), "(under asyncio's own loop on a virtual clock)" if real else "(under the harness VLoop)")
    for k, e in enumerate(tr):
        print("%3d  %s" % (k, describe_event(e)))
    print("delegates:", dl, "loop errors:", info["errors"])
    chk = Check("C15", "quick")
    if exact(tr):
        print("checker:", chk.run_model([mon_req(0, case, tr)])[0])
    return 0
