"""setup_cmd: build every Coq development and extracted runner from files on disk (offline)."""
import importlib
import os
import sys
import traceback
from concurrent.futures import ProcessPoolExecutor

from .common import Check, COQ, VERIF


def props():
    """the properties claimed in MANIFEST.json (others may be under construction)"""
    import json
    m = json.load(open(os.path.join(VERIF, "MANIFEST.json")))
    out = []
    for c in m["checks"]:
        d = c["property_id"]
        if os.path.isdir(os.path.join(COQ, d)) and os.path.exists(os.path.join(VERIF, "harness", d.lower() + ".py")):
            out.append(d)
    return out


def build(pid):
    try:
        mod = importlib.import_module("harness." + pid.lower())
        chk = Check(pid, "quick")
        if hasattr(mod, "generate"):
            chk.generate(mod.generate())
        chk.build_model()
        allowed = getattr(mod, "ALLOWED_AXIOMS", ())
        res = chk.build_proofs(allowed_axioms=allowed)
        return pid, res["ok"], (res["error"] or "")[-1500:]
    except Exception:
        return pid, False, traceback.format_exc()[-2000:]


def main():
    Check("C13").build_base()
    ps = props()
    rc = 0
    with ProcessPoolExecutor(max_workers=6) as ex:
        for pid, ok, err in ex.map(build, ps):
            print("setup %s: %s" % (pid, "ok" if ok else "FAILED"), flush=True)
            if not ok:
                print(err)
                rc = 1
    return rc


if __name__ == "__main__":
    sys.exit(main())
