"""C04 — evaluation depends only on program text and variable state; values are immutable.

Link 1 (Coq): coq/C04/Properties.v  (cache transparency over all histories; views unobservable)
Link 2 (here): the property's own experiment on the real interpreter — interpreter A runs a statement
sequence; before each statement a fresh interpreter B is loaded with a deep copy of A's pre-state and runs
only that statement; result and post-state must agree and no variable other than the assigned one may
change in A — three-way with the extracted model for the two modelled statement grammars.
"""
import ast
import json
import os
import random
import subprocess
import sys

from . import astlib
from .astlib import ShapeError
from .common import Check, sx, parse_sx, forbidden_scan, PY, VERIF, REPO

TRUSTED = [
    "Coq 8.16.1 kernel (coqc); vm_compute only in Examples and _refuted witnesses",
    "Print Assumptions: all C04 theorems closed under the global context (no axioms)",
    "translator harness/c04.py:generate (Python ast): _compiled_args re-check at the three compiled call sites, the (text, module) parse-cache key and the guard that keeps module-switching texts out of the parse cache, __setitem__ clearing the compiled cache, clone-before-write in eval_dyad_amend / _e_dyad_amend_in_depth",
    "extraction: ExtrOcamlBasic only; Z kept as inductive; ocaml/driver.ml",
    "harness/c04.py: statement generators, to_expr (real syntax tree -> model expression), harness/canon.py",
]
ASSUME = [
    "Part A models __call__/eval caching over integer, string and integer-list values with the verbs * - #, the reduce +/ and assignment; NumPy ufunc vs Python operator behaviour on that fragment is modelled (arith / py_bin) and sampled by the correspondence; other texts (functions, adverbs, joins) are covered by the A/B experiment only",
    "Part B models rank-1 integer arrays with drop / take / reverse views and amend; index-by-list, amend-in-depth, rank-2 rows and strings are covered by the A/B experiment only",
    "the parser is a function of the text and the active module (C12); module sequences are covered by the A/B experiment, the translator flags and the theorems, not by a three-way comparison with the extracted model",
    "dictionaries and tables are shared objects by design and are not part of the statement grammar",
]

NAMES = {'a': 10, 'b': 11, 'c': 12, 'd': 13, 's': 14, 'm': 15}


# ---------------------------------------------------------------- translator
def generate():
    out = []

    def recheck():
        m = astlib.module("klongpy/interpreter.py")
        cls = astlib.find_class(m, "KlongInterpreter")
        if not astlib.has_method(cls, "_compiled_args"):
            return False
        ca = astlib.find_func(cls, "_compiled_args")
        # must look every operand up and raise unless it is an int/float or a non-empty backend array
        raises = [n for n in ast.walk(ca) if isinstance(n, ast.Raise)]
        src = ast.unparse(ca)
        if not raises or "tv is int" not in src or "isinstance(v, ndarray)" not in src or "array_size(v) > 0" not in src:
            return False
        # every place that runs compiled code fetches its operands through it
        sites = 0
        for fn_name in ("eval", "__call__"):
            fn = astlib.find_func(cls, fn_name)
            for c in ast.walk(fn):
                if isinstance(c, ast.Call) and isinstance(c.func, ast.Name) and c.func.id == "fn":
                    ok = (len(c.args) == 1 and isinstance(c.args[0], ast.Starred) and
                          ast.unparse(c.args[0].value) == "self._compiled_args(var_syms)")
                    if not ok:
                        return False
                    sites += 1
        return sites == 3
    fl, why = astlib.try_flag(recheck)
    out.append("Definition compiled_args_rechecked : bool := %s.%s" % (astlib.coq_bool(bool(fl)), "" if why is None else "  (* %s *)" % why))

    def clears():
        m = astlib.module("klongpy/interpreter.py")
        cls = astlib.find_class(m, "KlongInterpreter")
        fn = astlib.find_func(cls, "__setitem__")
        return any(ast.unparse(c.func) == "self._compiled_cache.clear" for c in astlib.calls_in(fn, "clear"))
    fl, why = astlib.try_flag(clears)
    out.append("Definition setitem_clears_compiled_cache : bool := %s.%s" % (astlib.coq_bool(bool(fl)), "" if why is None else "  (* %s *)" % why))

    def clones():
        m = astlib.module("klongpy/dyads.py")
        fn = astlib.find_func(m, "eval_dyad_amend")
        body = astlib.body_no_doc(fn)
        # r = np_backend.array(a)  comes before every store into r; nothing is stored into a
        clone_at = None
        for i, st in enumerate(body):
            if isinstance(st, ast.Assign) and len(st.targets) == 1 and isinstance(st.targets[0], ast.Name) and st.targets[0].id == "r" \
                    and isinstance(st.value, ast.Call) and ast.unparse(st.value.func).endswith(".array") \
                    and len(st.value.args) == 1 and ast.unparse(st.value.args[0]) == "a" and clone_at is None:
                clone_at = i
        if clone_at is None:
            return False
        for n in ast.walk(fn):
            # a[...] = ... or numpy.put(a, ...)
            if isinstance(n, (ast.Assign, ast.AugAssign)):
                tgts = n.targets if isinstance(n, ast.Assign) else [n.target]
                for t in tgts:
                    if isinstance(t, ast.Subscript) and ast.unparse(t.value) in ("a", "b"):
                        return False
            if isinstance(n, ast.Call) and ast.unparse(n.func).endswith(".put"):
                if not (n.args and ast.unparse(n.args[0]) == "r"):
                    return False
        dep = astlib.find_func(m, "_e_dyad_amend_in_depth")
        # every store p[...] = ... is preceded in its branch by p = bknp.array(p, ...)
        for br in ast.walk(dep):
            if isinstance(br, ast.If):
                for blk in (br.body, br.orelse):
                    seen_clone = False
                    for st in blk:
                        if isinstance(st, ast.Assign) and ast.unparse(st.targets[0]) == "p" and "bknp.array(p" in ast.unparse(st.value):
                            seen_clone = True
                        if isinstance(st, ast.Assign) and isinstance(st.targets[0], ast.Subscript) and ast.unparse(st.targets[0].value) == "p" and not seen_clone:
                            return False
        return True
    fl, why = astlib.try_flag(clones)
    out.append("Definition amend_clones_first : bool := %s.%s" % (astlib.coq_bool(bool(fl)), "" if why is None else "  (* %s *)" % why))
    def no_param_stores():
        """no verb implementation stores into one of its parameters: scan every function of dyads.py / monads.py for
        subscript stores, augmented assignments, del and in-place methods on a parameter name that has not been rebound to
        a fresh copy before; dictionary branches (documented in-place updates) are exempt"""
        INPLACE = {"sort", "fill", "put", "resize", "itemset", "append", "extend", "insert", "pop", "remove", "clear", "update",
                   "reverse", "setfield", "partition", "setflags", "byteswap"}
        FRESH = ("array", "copy", "tolist", "str_to_chr_arr", "list", "concatenate", "tile", "empty", "zeros", "deepcopy", "astype", "flatten")
        offenders = []
        for rel in ("klongpy/dyads.py", "klongpy/monads.py"):
            m = astlib.module(rel)
            for fn in ast.walk(m):
                if not isinstance(fn, ast.FunctionDef) or isinstance(fn, ast.Lambda):
                    continue
                params = {a.arg for a in fn.args.args} - {"klong", "backend", "self"}
                if not params:
                    continue
                # parameters rebound to a fresh object, with the line from which that holds
                fresh_from = {}
                for n in ast.walk(fn):
                    if isinstance(n, ast.Assign) and len(n.targets) == 1 and isinstance(n.targets[0], ast.Name) and n.targets[0].id in params:
                        v = n.value
                        ok = False
                        if isinstance(v, ast.Call):
                            f = v.func
                            nm = f.attr if isinstance(f, ast.Attribute) else getattr(f, "id", "")
                            ok = nm in FRESH
                        if isinstance(v, ast.IfExp):
                            ok = all(isinstance(b, ast.Call) and (b.func.attr if isinstance(b.func, ast.Attribute) else getattr(b.func, "id", "")) in FRESH
                                     for b in (v.body, v.orelse))
                        if ok:
                            fresh_from[n.targets[0].id] = min(fresh_from.get(n.targets[0].id, 10 ** 9), n.lineno)
                        # a rebinding to something else (a view, another name) keeps the suspicion

                def is_param(node, line):
                    return isinstance(node, ast.Name) and node.id in params and not (node.id in fresh_from and line > fresh_from[node.id])

                def visit(node, in_dict_branch):
                    for ch in ast.iter_child_nodes(node):
                        if isinstance(ch, (ast.FunctionDef, ast.Lambda)) and ch is not fn:
                            continue
                        if isinstance(ch, ast.If):
                            t = ast.unparse(ch.test)
                            d = in_dict_branch or "dict" in t
                            for b in ch.body:
                                visit_stmt(b, d)
                            for b in ch.orelse:
                                visit_stmt(b, in_dict_branch)
                            continue
                        visit_stmt(ch, in_dict_branch)

                def visit_stmt(st, d):
                    if not d:
                        tg = []
                        if isinstance(st, ast.Assign):
                            tg = st.targets
                        elif isinstance(st, ast.AugAssign):
                            tg = [st.target]
                            if is_param(st.target, st.lineno):
                                offenders.append("%s:%s line %d: %s" % (rel, fn.name, st.lineno, ast.unparse(st)[:60]))
                        elif isinstance(st, ast.Delete):
                            tg = st.targets
                        for t in tg:
                            if isinstance(t, ast.Subscript) and is_param(t.value, st.lineno):
                                offenders.append("%s:%s line %d: %s" % (rel, fn.name, st.lineno, ast.unparse(st)[:60]))
                        for c in ast.walk(st) if not isinstance(st, (ast.If, ast.For, ast.While, ast.Try, ast.With)) else []:
                            if isinstance(c, ast.Call):
                                f = c.func
                                if isinstance(f, ast.Attribute) and f.attr in INPLACE and is_param(f.value, st.lineno):
                                    offenders.append("%s:%s line %d: %s" % (rel, fn.name, st.lineno, ast.unparse(c)[:60]))
                                if isinstance(f, ast.Attribute) and f.attr in ("put", "copyto", "place", "putmask", "fill_diagonal") and c.args and is_param(c.args[0], st.lineno):
                                    offenders.append("%s:%s line %d: %s" % (rel, fn.name, st.lineno, ast.unparse(c)[:60]))
                    visit(st, d)
                visit(fn, False)
        if offenders:
            raise ShapeError("stores into parameters: " + "; ".join(sorted(set(offenders))[:4]))
        return True
    fl, why = astlib.try_flag(no_param_stores)
    out.append("Definition no_verb_stores_into_operands : bool := %s.%s" % (astlib.coq_bool(bool(fl)), "" if why is None else "  (* %s *)" % why.replace("*)", "* )")))

    def no_array_caches():
        """no memo table in the value layer can hand the same mutable array to two evaluations: no cache decorators and no
        module-level tables that functions store into, in backends/*.py, dyads.py, monads.py, types.py, parser.py"""
        import glob
        offenders = []
        files = sorted(glob.glob(os.path.join(REPO, "klongpy", "backends", "*.py"))) + \
            [os.path.join(REPO, "klongpy", f) for f in ("dyads.py", "monads.py", "types.py", "parser.py", "adverbs.py")]
        for path in files:
            rel = os.path.relpath(path, REPO)
            if rel.endswith("registry.py"):
                continue            # the table of backend classes by name: no values
            m = astlib.module(rel)
            tables = set()
            for n in m.body:
                if isinstance(n, ast.Assign) and len(n.targets) == 1 and isinstance(n.targets[0], ast.Name):
                    v = n.value
                    if isinstance(v, (ast.Dict, ast.List, ast.Set)) and not getattr(v, "keys", None) and not getattr(v, "elts", None):
                        tables.add(n.targets[0].id)
                    if isinstance(v, ast.Call) and ast.unparse(v.func) in ("dict", "list", "set", "collections.OrderedDict", "OrderedDict", "weakref.WeakValueDictionary"):
                        tables.add(n.targets[0].id)
            for fn in ast.walk(m):
                if isinstance(fn, (ast.FunctionDef, ast.AsyncFunctionDef)):
                    for d in fn.decorator_list:
                        if "cache" in ast.unparse(d).lower():
                            offenders.append("%s:%s @%s" % (rel, fn.name, ast.unparse(d)[:40]))
                    for n in ast.walk(fn):
                        if isinstance(n, (ast.Assign, ast.AugAssign)):
                            tg = n.targets if isinstance(n, ast.Assign) else [n.target]
                            for t in tg:
                                if isinstance(t, ast.Subscript) and isinstance(t.value, ast.Name) and t.value.id in tables:
                                    offenders.append("%s:%s stores into module table %s" % (rel, fn.name, t.value.id))
                        if isinstance(n, ast.Call) and isinstance(n.func, ast.Attribute) and isinstance(n.func.value, ast.Name) \
                                and n.func.value.id in tables and n.func.attr in ("setdefault", "append", "add", "update", "insert", "extend"):
                            offenders.append("%s:%s %s.%s" % (rel, fn.name, n.func.value.id, n.func.attr))
        if offenders:
            raise ShapeError("memo tables / caches: " + "; ".join(sorted(set(offenders))[:4]))
        return True
    fl, why = astlib.try_flag(no_array_caches)
    out.append("Definition no_array_caches_in_backends : bool := %s.%s" % (astlib.coq_bool(bool(fl)), "" if why is None else "  (* %s *)" % why.replace("*)", "* )")))

    def module_threaded():
        """every call of the lexeme readers that can meet a symbol passes the active module on"""
        bad = []
        for rel in ("klongpy/parser.py", "klongpy/interpreter.py"):
            m = astlib.module(rel)
            for c in ast.walk(m):
                if isinstance(c, ast.Call):
                    nm = c.func.id if isinstance(c.func, ast.Name) else (c.func.attr if isinstance(c.func, ast.Attribute) else "")
                    if nm in ("kg_read", "kg_read_array", "read_list", "read_sym"):
                        kws = [k.arg for k in c.keywords]
                        if "module" not in kws and None not in kws:
                            bad.append("%s line %d: %s" % (rel, c.lineno, ast.unparse(c)[:50]))
        if bad:
            raise ShapeError("reader called without module: " + "; ".join(bad[:3]))
        return True
    fl, why = astlib.try_flag(module_threaded)
    out.append("Definition module_threaded_through_reader : bool := %s.%s" % (astlib.coq_bool(bool(fl)), "" if why is None else "  (* %s *)" % why.replace("*)", "* )")))

    def eval_no_node_writes():
        """evaluation does not write into the syntax-tree node it evaluates (nor into any other object it did not create) except
        the documented `_compiled` memo: no attribute store, no store into an attribute's elements, no setattr, in the
        evaluator methods of KlongInterpreter and in chain_adverbs"""
        m = astlib.module("klongpy/interpreter.py")
        cls = astlib.find_class(m, "KlongInterpreter")
        fns = [astlib.find_func(cls, n) for n in ("eval", "call", "_eval_fn", "_resolve_fn", "__call__")] + [astlib.find_func(m, "chain_adverbs")]
        bad = []
        for fn in fns:
            for n in ast.walk(fn):
                tg = []
                if isinstance(n, ast.Assign):
                    tg = n.targets
                elif isinstance(n, (ast.AugAssign, ast.AnnAssign)):
                    tg = [n.target]
                elif isinstance(n, ast.Delete):
                    tg = n.targets
                for t in tg:
                    for e in (t.elts if isinstance(t, (ast.Tuple, ast.List)) else [t]):
                        if isinstance(e, ast.Attribute) and not (isinstance(e.value, ast.Name) and e.value.id == "self") and e.attr != "_compiled":
                            bad.append("%s line %d: %s" % (fn.name, n.lineno, ast.unparse(n)[:50]))
                        if isinstance(e, ast.Subscript) and isinstance(e.value, ast.Attribute) and not ast.unparse(e.value).startswith("self."):
                            bad.append("%s line %d: %s" % (fn.name, n.lineno, ast.unparse(n)[:50]))
                if isinstance(n, ast.Call) and isinstance(n.func, ast.Name) and n.func.id in ("setattr", "delattr"):
                    bad.append("%s line %d: %s" % (fn.name, n.lineno, ast.unparse(n)[:50]))
                if isinstance(n, ast.Call) and isinstance(n.func, ast.Attribute) and isinstance(n.func.value, ast.Attribute) \
                        and not ast.unparse(n.func.value).startswith("self.") and n.func.attr in ("append", "extend", "insert", "pop", "remove", "clear", "reverse", "sort", "update"):
                    bad.append("%s line %d: %s" % (fn.name, n.lineno, ast.unparse(n)[:50]))
        if bad:
            raise ShapeError("evaluation writes into nodes: " + "; ".join(bad[:3]))
        return True
    fl, why = astlib.try_flag(eval_no_node_writes)
    out.append("Definition eval_does_not_write_nodes : bool := %s.%s" % (astlib.coq_bool(bool(fl)), "" if why is None else "  (* %s *)" % why.replace("*)", "* )")))

    def parse_key():
        m = astlib.module("klongpy/interpreter.py")
        cls = astlib.find_class(m, "KlongInterpreter")
        fn = astlib.find_func(cls, "__call__")
        body = astlib.body_no_doc(fn)
        key_at = get_at = None
        for i, st in enumerate(body):
            if isinstance(st, ast.Assign) and ast.unparse(st.targets[0]) == "cache_key" and key_at is None:
                if ast.unparse(st.value) != "(x, self._module)":
                    return False
                key_at = i
            if isinstance(st, ast.Assign) and "self._parse_cache.get(" in ast.unparse(st.value) and get_at is None:
                if ast.unparse(st.value) != "self._parse_cache.get(cache_key)":
                    return False
                get_at = i
        if key_at is None or get_at is None or key_at > get_at:
            return False
        # every store into / read of the parse cache uses that key
        for n in ast.walk(fn):
            if isinstance(n, ast.Subscript) and ast.unparse(n.value) == "self._parse_cache" and ast.unparse(n.slice) != "cache_key":
                return False
            if isinstance(n, ast.Call) and ast.unparse(n.func) == "self._parse_cache.get" and ast.unparse(n.args[0]) != "cache_key":
                return False
        return True
    fl, why = astlib.try_flag(parse_key)
    out.append("Definition parse_cache_key_has_module : bool := %s.%s" % (astlib.coq_bool(bool(fl)), "" if why is None else "  (* %s *)" % why))

    def skips_switching():
        m = astlib.module("klongpy/interpreter.py")
        cls = astlib.find_class(m, "KlongInterpreter")
        fn = astlib.find_func(cls, "__call__")
        stores = []
        for n in ast.walk(fn):
            if isinstance(n, ast.If):
                for st in n.body:
                    if isinstance(st, ast.Assign) and ast.unparse(st.targets[0]) == "self._parse_cache[cache_key]":
                        stores.append(ast.unparse(n.test))
        all_stores = [n for n in ast.walk(fn) if isinstance(n, ast.Assign) and ast.unparse(n.targets[0]).startswith("self._parse_cache[")]
        # the only store is guarded by "the parse left the active module as it found it"
        return len(all_stores) == 1 and stores == ["self._module == cache_key[1]"]
    fl, why = astlib.try_flag(skips_switching)
    out.append("Definition parse_cache_skips_switching_texts : bool := %s.%s" % (astlib.coq_bool(bool(fl)), "" if why is None else "  (* %s *)" % why))
    return "\n".join(out) + "\n"


# ---------------------------------------------------------------- real syntax tree -> model expression (Part A)
class Unsupported(Exception):
    pass


def to_expr(v):
    import numpy as np
    from klongpy.core import KGSym, KGFn, KGCond, is_char
    if isinstance(v, (bool, np.bool_)):
        raise Unsupported("bool")
    if isinstance(v, (int, np.integer)):
        return ["l", ["i", int(v)]]
    if isinstance(v, KGSym):
        if str(v) not in NAMES:
            raise Unsupported("name")
        return ["v", NAMES[str(v)]]
    if is_char(v):
        raise Unsupported("char")
    if isinstance(v, str):
        return ["l", ["s"] + [ord(c) for c in v]]
    if isinstance(v, np.ndarray):
        if v.ndim == 1 and v.dtype.kind == 'i':
            return ["l", ["a"] + [int(x) for x in v]]
        raise Unsupported("array")
    if isinstance(v, KGFn) and v.is_op() and not isinstance(v, KGCond):
        op, ar = v.a.a, v.a.arity
        if ar == 2 and isinstance(v.args, list) and len(v.args) == 2:
            if op == '*':
                return ["b", 0, to_expr(v.args[0]), to_expr(v.args[1])]
            if op == '-':
                return ["b", 1, to_expr(v.args[0]), to_expr(v.args[1])]
            if op == '::' and isinstance(v.args[0], KGSym) and str(v.args[0]) in NAMES:
                return ["d", NAMES[str(v.args[0])], to_expr(v.args[1])]
        if ar == 1 and op == '#' and type(v.args) is not list:
            return ["z", to_expr(v.args)]
    if isinstance(v, KGFn) and v.is_adverb_chain() and len(v.a) == 3:
        from klongpy.core import KGOp, KGAdverb
        verb, adv, arg = v.a
        if isinstance(verb, KGAdverb) and isinstance(verb.a, KGOp) and verb.a.a == '+' and isinstance(adv, KGAdverb) and adv.a == '/' \
                and not isinstance(arg, list):
            return ["r", to_expr(arg)]
    raise Unsupported(type(v).__name__)


def val_sx(v):
    """runtime value -> Run.v value encoding, or None"""
    import numpy as np
    from klongpy.core import KGSym, is_char
    if isinstance(v, (bool, np.bool_)):
        return None
    if isinstance(v, (int, np.integer)):
        return "(i %d)" % int(v)
    if isinstance(v, np.ndarray) and v.ndim == 0 and v.dtype.kind == 'i':
        return "(i %d)" % int(v)
    if isinstance(v, KGSym) or is_char(v):
        return None
    if isinstance(v, str):
        return "(s%s)" % "".join(" %d" % ord(c) for c in v)
    if isinstance(v, np.ndarray) and v.ndim == 1 and (v.dtype.kind == 'i' or v.size == 0):
        return "(a%s)" % "".join(" %d" % int(x) for x in v)
    return None


# ---------------------------------------------------------------- child: the property's own experiment
CHILD = r'''
import sys, json, copy, re
from collections import deque
sys.path.insert(0, %(verif)r)
sys.setrecursionlimit(3000)
import numpy as np
from klongpy import KlongInterpreter
from klongpy.interpreter import KGModule
from klongpy.core import KGSym, KGFn, KGLambda, KGAdverb
from harness.canon import canon
from harness.common import sx
from harness.c04 import to_expr, val_sx, Unsupported, NAMES

def user_frames(k):
    return list(k._context._context)[:-2]

def strip_memo(node, seen):
    # a copied syntax tree must not carry the compilations its original collected
    if id(node) in seen:
        return
    seen.add(id(node))
    if isinstance(node, KGFn):
        node.__dict__.pop('_compiled', None)
        strip_memo(node.a, seen)
        strip_memo(node.args, seen)
    elif isinstance(node, KGAdverb):
        strip_memo(node.a, seen)
    elif isinstance(node, (list, tuple)):
        for a in node:
            strip_memo(a, seen)
    elif isinstance(node, dict):
        for a in node.values():
            strip_memo(a, seen)
    elif isinstance(node, np.ndarray) and node.dtype == object:
        for a in node.flat:
            strip_memo(a, seen)

def load_copy(A):
    # a fresh interpreter loaded with a deep copy of A's state: every user scope (module scopes included),
    # the active module; no parse cache, no compiled cache, no compilations on copied function bodies
    B = KlongInterpreter()
    frames = []
    # ONE deepcopy over all scopes: sharing between variables (two names for one dictionary) is part of the state
    copied = copy.deepcopy([list(d.items()) for d in user_frames(A)])
    seen = set()
    for d, items in zip(user_frames(A), copied):
        nd = KGModule(d.name) if isinstance(d, KGModule) else {}
        for key, v2 in items:
            strip_memo(v2, seen)
            nd[key] = v2
        frames.append(nd)
    sysf = list(B._context._context)[-2:]
    B._context._context = deque(frames + sysf)
    B._context._min_ctx_count = A._context._min_ctx_count
    B._module = A._module
    return B

def fcanon(v, depth=0):
    # like canon, but a function is its whole syntax tree: literals inside function bodies are part of the variable state
    from klongpy.core import KGOp, KGCond
    if depth > 40:
        return ["deep"]
    if isinstance(v, KGLambda):
        return ["py", getattr(v.fn, "__name__", "?")]
    if isinstance(v, KGFn):
        args = ["none"] if v.args is None else (["args"] + [fcanon(a, depth + 1) for a in v.args]) if isinstance(v.args, list) else ["arg", fcanon(v.args, depth + 1)]
        return ["fn", type(v).__name__, int(v.arity) if isinstance(v.arity, (int, np.integer)) else str(v.arity), fcanon(v.a, depth + 1), args]
    if isinstance(v, KGOp):
        return ["op", "".join("%%02x" %% b for b in str(v.a).encode()), int(v.arity)]
    if isinstance(v, KGAdverb):
        return ["adv", fcanon(v.a, depth + 1) if not isinstance(v.a, str) else "".join("%%02x" %% b for b in v.a.encode()), int(v.arity)]
    if isinstance(v, KGCond):
        return ["q"] + [fcanon(a, depth + 1) for a in v]
    if isinstance(v, list):
        return ["p"] + [fcanon(a, depth + 1) for a in v]
    if isinstance(v, np.ndarray) and v.dtype == object:
        return ["l"] + [fcanon(a, depth + 1) for a in v]
    if isinstance(v, dict):
        items = [[fcanon(a, depth + 1), fcanon(b, depth + 1)] for a, b in v.items()]
        items.sort(key=repr)
        return ["d"] + items
    return canon(v)

def csnap(k):
    out = []
    for d in user_frames(k):
        out.append([type(d).__name__ + ":" + str(getattr(d, 'name', ''))] + sorted([str(key), sx(fcanon(val))] for key, val in d.items()))
    return {"frames": out, "module": str(k._module)}

def modes():
    # process-wide state that every interpreter of the process shares
    import warnings, locale, decimal, random, hashlib, os
    return {"numpy.geterr": repr(sorted(np.geterr().items())),
            "numpy.printoptions": repr(sorted((a, repr(b)) for a, b in np.get_printoptions().items())),
            "warnings.filters": hashlib.sha1(repr(warnings.filters).encode()).hexdigest(),
            "locale": repr(locale.getlocale()), "decimal": repr(decimal.getcontext()),
            "random": hashlib.sha1(repr(random.getstate()).encode()).hexdigest(),
            "numpy.random": hashlib.sha1(repr(np.random.get_state()).encode()).hexdigest(),
            "recursionlimit": sys.getrecursionlimit(), "cwd": os.getcwd(),
            "environ": hashlib.sha1(repr(sorted(os.environ.items())).encode()).hexdigest()}

def run_stmt(k, text):
    try:
        return sx(fcanon(k(text)))
    except RecursionError:
        return "RECURSION"
    except Exception as e:
        return "EXC"

def experiment(stmts):
    A = KlongInterpreter()
    kp = KlongInterpreter()
    recs = []
    for text in stmts:
        rec = {"text": text}
        pre = csnap(A)
        B = load_copy(A)
        rec["preB"] = csnap(B)
        rec["pre"] = pre
        m0 = modes()
        pc0 = {repr(key): sx(fcanon(tree)) for key, tree in A._parse_cache.items()}
        rec["rA"] = run_stmt(A, text)
        m1 = modes()
        pc1 = {repr(key): sx(fcanon(tree)) for key, tree in A._parse_cache.items()}
        rec["trees_changed"] = {key: (pc0[key][:200], pc1.get(key, "<gone>")[:200]) for key in pc0 if pc1.get(key) != pc0[key]}
        rec["modes_changed"] = {k_: (m0[k_], m1[k_]) for k_ in m0 if m0[k_] != m1[k_]}
        rec["rB"] = run_stmt(B, text)
        m2 = modes()
        if m2 != m1:
            rec["modes_changed"].update({k_: (m1[k_], m2[k_]) for k_ in m1 if m1[k_] != m2[k_]})
        rec["postA"] = csnap(A)
        rec["postB"] = csnap(B)
        try:
            i, prog = kp.prog(text)
            tree = prog[0] if len(prog) == 1 else prog
            rec["expr"] = sx(to_expr(tree))
        except Exception:
            rec["expr"] = None
        vals = {}
        for d in reversed(user_frames(A)):
            for key, val in d.items():
                if str(key) in NAMES:
                    vals[str(key)] = val_sx(val)
        rec["vals"] = vals
        tgt = None
        m = re.match(r"^([a-z][a-z0-9]*)::", text)
        if m:
            tgt = m.group(1)
        rec["target"] = tgt
        recs.append(rec)
    return recs

def final_state(stmts):
    k = KlongInterpreter()
    out = []
    for t in stmts:
        out.append(run_stmt(k, t))
    return {"results": out, "state": csnap(k)}

req = json.load(sys.stdin)
json.dump({"exp": [experiment(s) for s in req.get("exp", [])], "final": [final_state(s) for s in req.get("final", [])]}, sys.stdout)
'''


def run_child(seqs, final=()):
    env = dict(os.environ, PYTHONPATH=REPO + ":" + VERIF, PYTHONHASHSEED="0")
    p = subprocess.run([PY, "-W", "ignore", "-c", CHILD % {"verif": VERIF}], input=json.dumps({"exp": seqs, "final": list(final)}).encode(),
                       stdout=subprocess.PIPE, stderr=subprocess.PIPE, env=env, timeout=3000)
    if p.returncode != 0:
        raise RuntimeError("C04 child failed: " + p.stderr.decode()[-2000:])
    return json.loads(p.stdout.decode())


def run_child_sharded(seqs, shards=4):
    if len(seqs) < 200:
        return run_child(seqs)["exp"]
    import concurrent.futures
    n = (len(seqs) + shards - 1) // shards
    parts = [seqs[i:i + n] for i in range(0, len(seqs), n)]
    with concurrent.futures.ThreadPoolExecutor(max_workers=shards) as ex:
        outs = list(ex.map(lambda part: run_child(part)["exp"], parts))
    return [c for o in outs for c in o]


# ---------------------------------------------------------------- generators
POOL_DATA = ['a::[1 2 3 4]', 'a::[5 6 7]', 'a::3', 'a::"hello"', 'b::a', 'b::[3 4]', 'b::3', 's::"abcd"', 'm::[[1 2] [3 4]]', 'a::2', 'a::"ab"', 'a::[1 2]']
POOL_VIEW = ['c::2_a', 'c::(-1)_a', 'c::2#a', 'c::(-2)#a', 'c::|a', 'c::a@[0 1]', 'c::*m', 'c::m@1', 'c::1_s', 'c::|s', 'd::c', 'd::1_c', 'd::|c', 'c::a,[]', 'c::[],a']
POOL_AMEND = ['d::c:=9,0', 'c:=9,0', 'a::a:=7,1', 'd::m:-9,[0 1]', 'c:=8,[0 1]', 'd::a:=0,[0 2]', 'c::c:=5,1', 'd::s:=0cz,1', 'd::(*m):=8,0', 'c:-7,0', 'd::b:=6,0']
POOL_FN = ['f::{1,x*y}', 'f(2;3)', 'f("ab";3)', 'f(a;b)', 'g::{x+a}', 'g(1)', 'g(a)', 'f::{x-y}', 'h::{[t];t::x;t*a}', 'h(2)']
POOL_EXPR = ['1,a*b', '#a*b', 'a*b', 'a-b', '+/a', '{x*2}\'a', 'a*2', '(a*b)-2', '#(a*b)-a', 'c::a*b', 'a', '#a', '*a', 'a@0']
# nested lists stored as object arrays, string / symbol amend values, index paths of depth 2 and 3,
# literals inside function bodies and repeated literal texts
POOL_OBJ = ['m::[["p" "q"] ["r" "s"]]', 'm::[[1 "x"] [2 "y"] [3 "w"]]', 'c::1_m', 'c::|m', 'c::*m', 'c::2#m',
            'd::m:-"z",[0 1]', 'd::m:-:foo,[1 0]', 'm:-"z",[0 1]', 'd::c:-"z",[0 0]', 'd::c:-:foo,[0 1]', 'd::m:-7,[1 1]',
            'lit::{[["a" "b"] ["c" "d"]]}', 'd::lit():-"z",[0 1]', 'lit()', 'd::[["a" "b"] ["c" "d"]]:-"z",[1 1]', '[["a" "b"] ["c" "d"]]',
            'n::[[[1 "a"] [2 "b"]] [[3 "c"] [4 "d"]]]', 'd::n:-"z",[0 1 1]', 'd::n:-:k,[1 0 0]', 'c::n@0', 'd::c:-"y",[1 1]',
            'm', 'n', 'c', 'g2::{x:-"q",[0 0]}', 'd::g2(m)', 'd::g2(c)']
# reduces / scans nested inside function bodies, called with non-empty and with empty lists (argument and global)
POOL_RED = ['avg::{(+/x)%#x}', 'avg([1 2 3])', 'avg([])', 'avg(a)', 'sm::{,+/a}', 'sm()', 'q::{1,*/x}', 'q([2 3])', 'q([])', 'q(a)',
            'a::[]', 'a::[1 2 3]', 'a::[7 8]', 'a::2_a', 'w::{0+/x}', 'ff::{(w(x)),+/x}', 'ff([1 2])', 'ff([])', 'mx::{,|/x}', 'mx([3 1 2])',
            'mx([])', 'sc::{#+\\x}', 'sc([1 2])', 'sc([])', 'mn::{1,&/a}', 'mn()']
# dictionary literals: every evaluation of the literal makes a fresh dictionary (T4.dictlit); dictionaries themselves
# are shared objects (two names, one object) and are updated in place
POOL_DICT = ['f3::{:{[1 2]}}', 'dd::f3()', 'dd,[3 4]', 'f3()', 'dd', 'ee::dd', 'dd,[5 6]', 'ee', 'e2:::{[7 8]}', 'e2,[9 0]', ':{[7 8]}',
             'e2', 'g3::{[t];t:::{[1 1]};t,[x x];t}', 'g3(2)', 'g3(3)', 'dd?1', 'ee?5']
# comparisons / arithmetic nested in function bodies, applied to numbers first and then to lists of mixed depth (object arrays)
POOL_MIX = ['k::{,x=y}', 'k(1;2)', 'k([1 2];[1 3])', 'k([[1] 2];[[1] 2])', 'k([[1] 2];[[1] 3])', 'k(a;a)', 'a::[[1] 2]', 'a::[[1] [2 3]]',
            'k2::{(x<y),z}', 'k2(1;2;3)', 'k2([[1] 2];[[3] 4];0)', 'k3::{#,/x<y}', 'k3(1;2)', 'k3([[1] 2];[[3] 4])', 'k4::{,x*a}', 'k4(2)', 'k4([[1] 2])',
            'a::3', 'a::[1 2]']
# a representative set of the other verbs, on variables, views of variables, literals in function bodies and repeated texts
POOL_VERBS = ['s::[-1 2]', 'd::s:^!10', 'd::s:^!6', 's', 'h5::{[-1 2]:^x}', 'h5(!10)', 'h5(!6)', 't2::[2 -1]', 'd::t2:^!8', 'u::[-1 2 7]', 'd::(2#u):^!12', 'u',
              'a::[3 1 2 4]', 'a::[1 2 3 4 5 6]', 'b::[0 2 1 3]', 'c::1_a', 'c::|a', 'm::[[1 2] [3 4]]', 'st::"hello world"',
              'd::1:+a', 'd::(-1):+c', 'd::2:#a', 'd::2:#c', 'd::2:_a', 'd::[1 2]:_c', 'd::a,b', 'd::c,1', 'd::a?3', 'd::st?"o"', 'd::<a', 'd::>c', 'd::=a', 'd::=st',
              'd::+m', 'd::&b', 'd::?a', 'd::?st', 'd::a^2', 'd::c^b', 'd::^m', 'd::!3', 'd::_a', 'd::*c', 'd::~b', 'd::a|b', 'd::a&b', 'd::a!2', 'd::a%2', 'd::a:%2',
              'd::a~b', 'd::#c', 'd::$a', 'd::,a', 'd::-c', 'd::%a', 'd::m:@[0 1]', 'd:::#65', 'd::[2 2]:^a', 'd::[2 -1]:^c', 'd::a=b', 'd::a<b', 'd::a>b', 'd::a+b', 'd::a-b', 'd::a*b',
              'g5::{<[3 1 2]}', 'g5()', 'g6::{[1 2 3]:+x}', 'g6(1)', 'g6(2)', 'g7::{(x):^[1 2 3 4 5 6]}', 'g7([-1 2])', 'g7([2 -1])', 'a', 'b', 'c', 'm']
# statements that overflow or fail inside numeric code, followed by overflowing array arithmetic
POOL_NUM = ['2^5000', '[2 3]^5000', 'w::10.0^[1 400]', '{x^y}(7;1000)', '"a"^2', '1%0', 'v::[1.0e308 2.0 -1.5e308]', 'v*10', 'v+v', '*/v', '+/v', 'v^2', 'v%0',
            '1.0e308*10', '2^0.5', '(-1)^0.5', '_1.0e100', 'v-v', 'w']
# projections with NON-constant arguments: defined, the variables reassigned, the same defining text re-evaluated, then applied
POOL_PROJ = ['add::{x+y}', 'a::1', 'a::5', 'a::[1 2]', 'b::7', 'b::2', 'g::add(a;)', 'g(10)', 'g::add(;a)', 'hh::{add(x;)}', 'pp::hh(2)', 'pp::hh(a)', 'pp(10)',
             'f3::{x,y,z}', 'q1::f3(a;;)', 'q2::q1(;b)', 'q2(0)', 'q1(8;9)', 'h6::{[t];t::add(x*2;);t(1)}', 'h6(3)', 'h6(a)', 'q3::{f3(a;x;)}', 'q4::q3(b)', 'q4(0)',
             'g', 'q1', 'q2', 'pp']
# dictionary literals inside list literals (directly and nested), in function bodies and as repeated texts, with in-place updates between
POOL_DICTLIST = ['mk::{[7 :{[1 2]}]}', 'aa::mk()', '(aa@1),[1 99]', 'bb::mk()', '(bb@1)?1', 'u::[:{[1 2] [3 4]}]', 'ww::u', '1_ww@0', '(ww@0),[5 6]', 'u',
                 'mk2::{[[1 2] [:{["k" 0]} 3]]}', 'aa::mk2()', 'dq::aa:@[1 0]', 'dq,"k",,5', 'mk2()', '[7 :{[1 2]}]', 'e3::[7 :{[1 2]}]', '(e3@1),[1 42]', 'e3']
POOLS = [POOL_PROJ, POOL_DICTLIST, POOL_DATA, POOL_VIEW, POOL_AMEND, POOL_FN, POOL_EXPR, POOL_OBJ, POOL_RED, POOL_DICT, POOL_MIX, POOL_VERBS, POOL_VERBS, POOL_NUM]

DIRECTED = [
    ['f::{1,x*y}', 'f(2;3)', 'f("ab";3)'],
    ['a::2', 'b::3', '1,a*b', 'a::"ab"', '1,a*b'],
    ['a::2', 'b::3', '#a*b', 'a::"ab"', '#a*b'],
    ['a::2', 'b::3', 'a*b', 'a::"ab"', 'a*b', 'a::[1 2]', 'a*b', 'a*b'],
    ['a::[1 2 3 4]', 'c::2_a', 'd::c:=9,0', 'c:=9,0', 'a', 'c', 'd'],
    ['a::[1 2 3 4]', 'c::|a', 'd::c:=9,0', 'a', 'b::a', 'a::a:=0,0', 'b'],
    ['m::[[1 2] [3 4]]', 'c::*m', 'd::c:=9,0', 'm', 'd::m:-9,[0 1]', 'm'],
    ['a::[1 2 3 4]', 'c::a,[]', 'd::c:=9,0', 'a', 'c::[],a', 'd::c:=9,0', 'a'],
    ['a::[1 2 3]', 'f::{x:=0,0}', 'f(a)', 'a', 'b::f(a)', 'a'],
    ['a::[1 2 3]', '[1 2 3]', 'c::[1 2 3]', 'd::c:=9,0', '[1 2 3]', 'c::[1 2 3]', 'c'],
    ['f::{[1 2 3]}', 'c::f()', 'd::c:=9,0', 'f()'],
    ['a::[]', '+/a', 'a::[1 2]', '+/a', 'a::[]', '+/a'],
    ['avg::{(+/x)%#x}', 'avg([1 2 3])', 'avg([])'],
    ['add::{x+y}', 'a::1', 'g::add(a;)', 'g(10)', 'a::5', 'g::add(a;)', 'g(10)', 'hh::{add(x;)}', 'pp::hh(2)', 'pp(10)', 'pp::hh(7)', 'pp(10)'],
    ['f3::{x,y,z}', 'a::1', 'b::2', 'q1::f3(a;;)', 'q2::q1(;b)', 'q2(0)', 'a::8', 'b::9', 'q1::f3(a;;)', 'q2::q1(;b)', 'q2(0)', 'h6::{[t];t::f3(x;;);t(1;2)}', 'h6(3)', 'h6(4)'],
    ['mk::{[7 :{[1 2]}]}', 'aa::mk()', '(aa@1),[1 99]', 'bb::mk()', '(bb@1)?1', 'u::[:{[1 2] [3 4]}]', 'ww::u', '(ww@0),[5 6]', 'u::[:{[1 2] [3 4]}]', 'u'],
    ['mk2::{[[1 2] [:{["k" 0]} 3]]}', 'aa::mk2()', 'dq::aa:@[1 0]', 'dq,"k",,5', 'mk2()', '[7 :{[1 2]}]', 'e3::[7 :{[1 2]}]', '(e3@1),[1 42]', '[7 :{[1 2]}]'],
    ['s::[-1 2]', 'd::s:^!10', 's', 'd::s:^!6', 'h5::{[-1 2]:^x}', 'h5(!10)', 'h5(!6)', 't2::[2 -1]', 'd::t2:^!8', 't2::[2 -1]', 'u::[-1 2 7]', 'd::(2#u):^!12', 'u'],
    ['v::[1.0e308 2.0 -1.5e308]', 'v*10', '2^5000', 'v*10', '"a"^2', 'v+v', '*/v', '{x^y}(7;1000)', 'v*10'],
    ['k::{,x=y}', 'k(1;2)', 'k([[1] 2];[[1] 2])', 'k([[1] 2];[[1] 3])'],
    ['k2::{(x<y),z}', 'k2(1;2;3)', 'k2([[1] 2];[[3] 4];0)', 'a::2', 'k4::{,x*a}', 'k4(3)', 'a::[[1] 2]', 'k4(3)', 'k4([[1] 2])'],
    ['sm::{,+/a}', 'a::[1 2 3]', 'sm()', 'a::[]', 'sm()', 'a::[7 8]', 'a::2_a', 'sm()'],
    ['w::{0+/x}', 'ff::{(w(x)),+/x}', 'ff([1 2])', 'ff([])'],
    ['m::[["p" "q"] ["r" "s"]]', 'd::m:-"z",[0 1]', 'm', 'c::1_m', 'd::c:-:foo,[0 0]', 'm', 'c'],
    ['lit::{[["a" "b"] ["c" "d"]]}', 'd::lit():-"z",[0 1]', 'lit()', 'd::[["a" "b"] ["c" "d"]]:-"z",[1 1]', 'd::[["a" "b"] ["c" "d"]]:-"z",[1 1]'],
    ['.module(:m1)', 't::0', 't::t+1', '.module(0)', 't::10', 't::t+1', 't'],
    ['.module(:m)', 't::100', 'acc::[]', 'f::{[t];t::x*2;t+1}', 'h::{[acc];acc::[0];acc,x}', 'g::{t}', 'f(5)', 't', 'f(6)', 'g()', 'h(7)', 'acc', '.module(0)', 'f(1)', 'g()', 'h(2)'],
    ['t::100', 'f::{[t];t::x*2;t+1}', 'f(5)', 't', '.module(:m)', 't::7', 'f(5)', 't', 'k5::{[t u];t::x;u::t*2;u}', 'k5(4)', 't', '.module(0)', 'k5(1)', 't'],
    ['.module(:m1)', 't::0', 't*2', '.module(0)', '.module(:m2)', 't*2', 't::7', 't*2', '.module(0)', 't*2'],
    ['f3::{:{[1 2]}}', 'dd::f3()', 'dd,[3 4]', 'f3()', ':{[7 8]}', 'e2:::{[7 8]}', 'e2,[9 0]', ':{[7 8]}', 'e2:::{[7 8]}', 'e2'],
    ['.module(:m1)', 't::1', '.module(0)', 't::10', '.module(:m1)', 't::5', 't', '.module(0)', 't', '.module(:m1)', 't'],
]


def gen_sequences(rng, tier):
    for d in DIRECTED:
        yield list(d), "directed"
    n = 500 if tier == "quick" else (2000 if tier == "escalate" else 8000)
    maxlen = 6 if tier == "quick" else 9
    for _ in range(n):
        L = rng.randint(3, maxlen)
        seq = [rng.choice(POOL_DATA)]
        focus = rng.sample(POOLS, 2)
        while len(seq) < L:
            pool = rng.choice(focus) if rng.random() < 0.7 else rng.choice(POOLS)
            st = rng.choice(pool)
            if rng.random() < 0.15 and len(seq) > 1:
                st = rng.choice(seq)          # repeat an identical text
            seq.append(st)
        yield seq, "random"


MOD_TEXTS = ['t::t+1', 't', 'u::t*2', 't::5', 't*2', 'w::{t+x}', 'w(1)', 'u', 't::t,1', '#t',
             'f::{[t];t::x*2;t+1}', 'f(5)', 'g::{t}', 'g()', 'acc::[]', 'h::{[acc u];acc::[0];u::x;acc,u}', 'h(7)', 'acc']


def gen_module_sequences(rng, tier):
    """byte-identical texts evaluated under different active modules with differing module / global bindings.
    Module switches are spelled identically or with trailing blanks (repeated identical `.module(:m)` texts were
    the finding C04-cached-module-switch, repaired by 012f393)."""
    n = 120 if tier == "quick" else (400 if tier == "escalate" else 1500)
    for _ in range(n):
        sp = iter([0] * 50) if rng.random() < 0.6 else iter(range(1, 50))
        texts = rng.sample(MOD_TEXTS, rng.randint(2, 4))
        seq = []
        if rng.random() < 0.4:
            seq += ['t::%d' % rng.randint(20, 29)] + [rng.choice(texts)]
        seq += ['.module(:m1)' + " " * next(sp), 't::0'] + [rng.choice(texts) for _ in range(rng.randint(1, 3))]
        seq += ['.module(0)' + " " * next(sp)] + (['t::10'] if rng.random() < 0.6 else []) + [rng.choice(texts) for _ in range(rng.randint(1, 3))]
        if rng.random() < 0.5:
            seq += ['.module(:m2)' + " " * next(sp)] + (['t::7'] if rng.random() < 0.5 else []) + [rng.choice(texts) for _ in range(rng.randint(1, 2))]
            seq += ['.module(0)' + " " * next(sp)] + [rng.choice(texts) for _ in range(rng.randint(1, 2))]
        yield seq, "modules"


def gen_long_sequences(rng, tier):
    """long strings (64, 65, 200 characters) and long integer lists as Amend operands, followed by reads of the same
    variable, of an equal literal and re-evaluation of the same texts; the expected results come from a reference over
    immutable Python values (an in-process A/B experiment cannot see a cache shared by all interpreters)"""
    import string
    n = 60 if tier == "quick" else (200 if tier == "escalate" else 800)
    alpha = string.ascii_lowercase + string.digits
    for it in range(n):
        seq, exp = [], []
        store = {}
        def can(v):
            if isinstance(v, str):
                return sx(["c", ord(v)]) if getattr(v, "_chr", False) else sx(["s"] + [ord(c) for c in v])
            if isinstance(v, int):
                return sx(["i", v])
            return sx(["l"] + [["i", z] for z in v])
        def emit(text, val, ch=False):
            seq.append(text)
            exp.append(sx(["c", ord(val)]) if ch else can(val))
        kind = "str" if rng.random() < 0.7 else "list"
        L = rng.choice([64, 65, 200, 70, 128])
        if kind == "str":
            base = "".join(rng.choice(alpha) for _ in range(L))
            lit = '"%s"' % base
        else:
            base = [rng.randint(0, 9) for _ in range(L)]
            lit = "[%s]" % " ".join(map(str, base))
        store["s"] = base
        emit("s::%s" % lit, base)
        texts = []
        for _ in range(rng.randint(4, 8)):
            k = rng.random()
            src = rng.choice(list(store))
            val = store[src]
            i = rng.randint(0, min(len(val), 20) - 1)
            if k < 0.35:
                if kind == "str":
                    c = rng.choice("ABCDEFGHTUVW")
                    new = val[:i] + c + val[i + 1:]
                    t = "d::%s:=0c%s,%d" % (src, c, i)
                else:
                    c = rng.randint(10, 99)
                    new = val[:i] + [c] + val[i + 1:]
                    t = "d::%s:=%d,%d" % (src, c, i)
                store["d"] = new
                emit(t, new); texts.append((t, new, False))
            elif k < 0.55:
                t = "%s@%d" % (src, i)
                emit(t, val[i], ch=(kind == "str")); texts.append((t, val[i], kind == "str"))
            elif k < 0.7:
                m_ = rng.randint(1, 12)
                t = "%d#%s" % (m_, src)
                emit(t, val[:m_])
            elif k < 0.8:
                t = "%s@%d" % (lit, i)
                emit(t, base[i], ch=(kind == "str"))
            elif k < 0.9 and texts:
                t, v_, ch = rng.choice(texts)
                if t.startswith("d::"):
                    # the same Amend text again: its operand variable may have been re-bound meanwhile
                    src2 = t[3:].split(":=")[0]
                    rest = t.split(":=")[1]
                    cpart, ipart = rest.rsplit(",", 1)
                    v0 = store[src2]
                    ii = int(ipart)
                    cv = cpart[2:] if kind == "str" else int(cpart)
                    v_ = v0[:ii] + (cv if kind == "str" else [cv]) + v0[ii + 1:]
                    store["d"] = v_
                    emit(t, v_)
                else:
                    srcn = t.split("@")[0]
                    emit(t, store[srcn][int(t.split("@")[1])], ch=ch)
            else:
                emit(src, val)
        yield seq, ("long", exp)


def gen_cache_sequences(rng, tier):
    """Part A grammar: rebinding a, b between int / string / list and re-running identical texts"""
    binds = ['a::2', 'a::"ab"', 'a::[1 2]', 'a::[]', 'a::5', 'b::3', 'b::[3 4]', 'b::"xy"', 'b::2', 'a::b', 'c::a*b', 'a::[7 8]', 'b::[]']
    exprs = ['a*b', 'a-b', '#a*b', '#(a*b)-a', '(a*b)-2', '#a-b', 'c::a*b', '#(a-b)*(a*2)', 'a*(b*2)', '#b*a',
             '+/a', 'c::+/a', '(+/a)*b', '+/a*b', '#+/a', '(+/a)-+/b', 'c::(+/a)-2']
    n = 400 if tier == "quick" else (1500 if tier == "escalate" else 6000)
    for _ in range(n):
        seq = ['a::2', 'b::3'] if rng.random() < 0.7 else [rng.choice(binds[:5]), rng.choice(binds[5:9])]
        L = rng.randint(3, 6 if tier == "quick" else 9)
        used = [rng.choice(exprs) for _ in range(2)]
        while len(seq) < L + 2:
            seq.append(rng.choice(used) if rng.random() < 0.6 else rng.choice(binds))
        yield seq, "cache"


def gen_view_sequences(rng, tier):
    """Part B grammar, generated structurally: (text, model statement)"""
    names = ['a', 'b', 'c', 'd']
    n = 300 if tier == "quick" else (1200 if tier == "escalate" else 5000)
    for _ in range(n):
        lens = {}
        seq, mod = [], []
        def lit(dst):
            L = rng.randint(1, 5)
            vals = [rng.randint(0, 9) for _ in range(L)]
            lens[dst] = L
            seq.append('%s::[%s]' % (dst, " ".join(map(str, vals))))
            mod.append("(lit %d (%s))" % (NAMES[dst], " ".join(map(str, vals))))
        lit('a')
        for _ in range(rng.randint(3, 6 if tier == "quick" else 9)):
            dst = rng.choice(names)
            srcs = [x for x in names if x in lens]
            src = rng.choice(srcs)
            L = lens[src]
            k = rng.random()
            if k < 0.1:
                lit(dst)
            elif k < 0.3:
                n_ = rng.randint(0, L)
                seq.append('%s::%d_%s' % (dst, n_, src)); mod.append("(op %d 0 %d 0 %d)" % (NAMES[dst], n_, NAMES[src])); lens[dst] = L - n_
            elif k < 0.45:
                n_ = rng.randint(1, L) if L else 0
                if L == 0:
                    continue
                seq.append('%s::%d#%s' % (dst, n_, src)); mod.append("(op %d 1 %d 0 %d)" % (NAMES[dst], n_, NAMES[src])); lens[dst] = n_
            elif k < 0.6:
                seq.append('%s::|%s' % (dst, src)); mod.append("(op %d 2 0 0 %d)" % (NAMES[dst], NAMES[src])); lens[dst] = L
            elif k < 0.9:
                if L == 0:
                    continue
                i_ = rng.randint(0, L - 1); v_ = rng.randint(10, 99)
                seq.append('%s::%s:=%d,%d' % (dst, src, v_, i_)); mod.append("(op %d 3 %d %d %d)" % (NAMES[dst], i_, v_, NAMES[src])); lens[dst] = L
            else:
                seq.append('%s::%s' % (dst, src)); mod.append("(cp %d %d)" % (NAMES[dst], NAMES[src])); lens[dst] = L
        yield seq, ("views", mod)


# ---------------------------------------------------------------- checks
def flat_vars(snap):
    """{(frame index from the bottom, name): canonical value}"""
    out = {}
    fr = snap["frames"]
    n = len(fr)
    for i, f in enumerate(fr):
        for name, val in f[1:]:
            out[(n - 1 - i, name)] = val
    return out


def property_oracle(chk, seq, recs, kind, bad_props):
    """the property text on the implementation alone"""
    for i, r in enumerate(recs):
        chk.count("evaluations")
        what = None
        if r["preB"] != r["pre"]:
            # the copy could not be loaded faithfully (not a verdict about the property)
            chk.count("skipped_unloadable_state")
            return
        switch = r["text"].lstrip().startswith(".module")
        if r.get("trees_changed"):
            bad_props.append({"kind": "statement %d `%s` wrote into a cached syntax tree (the parse cache entry of a text changed; later evaluations of that text differ from a fresh parse): %s" % (
                i, r["text"], str(r["trees_changed"])[:400]), "family": kind, "statements": seq, "at": i,
                "results_A": [x["rA"][:80] for x in recs], "results_B": [x["rB"][:80] for x in recs]})
            return
        if r.get("modes_changed"):
            bad_props.append({"kind": "statement %d `%s` changed process-wide state shared by every interpreter (later evaluations of any text can differ): %s" % (
                i, r["text"], str(r["modes_changed"])[:300]), "family": kind, "statements": seq, "at": i,
                "results_A": [x["rA"][:80] for x in recs], "results_B": [x["rB"][:80] for x in recs]})
            return
        if r["rA"] != r["rB"]:
            what = "result depends on history: statement %d `%s` gives %s after the history and %s in a fresh interpreter with the same variables" % (
                i, r["text"], r["rA"][:80], r["rB"][:80])
        elif r["postA"] != r["postB"]:
            fa, fb = flat_vars(r["postA"]), flat_vars(r["postB"])
            diff = {str(k): (fa.get(k), fb.get(k)) for k in set(fa) | set(fb) if fa.get(k) != fb.get(k)}
            what = "variable state after statement %d `%s` depends on history: %s (active module %s / %s)" % (
                i, r["text"], str(diff)[:300], r["postA"]["module"], r["postB"]["module"])
        elif not switch:
            pre, post = flat_vars(r["pre"]), flat_vars(r["postA"])
            tgt = r["target"]
            changed = [k for k in set(pre) | set(post) if pre.get(k) != post.get(k)
                       and not (tgt is not None and (k[1] == tgt or k[1].startswith(tgt + "`")))]
            # an unbound symbol that evaluates to itself gets bound to itself: not a change of value
            changed = [k for k in changed if not (k not in pre and post.get(k) == sx(["y"] + [ord(c) for c in k[1]]))]
            # dictionaries are shared objects updated in place by their documented operations
            changed = [k for k in changed if not ((pre.get(k) or "").startswith("(d") or (post.get(k) or "").startswith("(d"))]
            if changed:
                what = "statement %d `%s` changed variables it does not assign: %s" % (
                    i, r["text"], {str(k): (pre.get(k), post.get(k)) for k in changed})
            elif len(r["pre"]["frames"]) != len(r["postA"]["frames"]):
                what = "context depth changed from %d to %d by statement %d `%s`" % (len(r["pre"]["frames"]), len(r["postA"]["frames"]), i, r["text"])
        if what:
            bad_props.append({"kind": what, "family": kind, "statements": seq, "at": i,
                              "results_A": [x["rA"][:80] for x in recs], "results_B": [x["rB"][:80] for x in recs]})
            return


KNOWN_SWITCH = 'C04-cached-module-switch'


def replay_known(chk):
    """finding C04-cached-module-switch (fixed by 012f393; a VIOLATION again if it reappears): a module-switching text
    served from the parse cache did not switch the parser's module.  Two histories that differ only in the spelling
    of the second `.module(:m1)` must end in the same state."""
    h1 = ['.module(:m1)', 't::1', '.module(0)', 't::10', '.module(:m1)', 't::5', '.module(0) ', 't']
    h2 = ['.module(:m1)', 't::1', '.module(0)', 't::10', '.module(:m1) ', 't::5', '.module(0) ', 't']
    a, b = run_child([], final=[h1, h2])["final"]
    chk.count("evaluations", len(h1) + len(h2))
    if a != b:
        chk.finding(KNOWN_SWITCH, "repeated `.module(:m1)` text: history dependence", {"history_1": h1, "history_2": h2, "end_1": a, "end_2": b})
        return True
    return False


def check_all(chk, rng, tier):
    seqs = []
    for g in (gen_sequences, gen_cache_sequences, gen_view_sequences, gen_module_sequences, gen_long_sequences):
        seqs.extend(g(rng, tier))
    out = run_child_sharded([s for s, _ in seqs])
    bad_props, bad_corrs = [], []
    reqs, req_of = [], {}
    for idx, ((seq, kind), recs) in enumerate(zip(seqs, out)):
        k = kind if isinstance(kind, str) else kind[0]
        chk.count("sequences_" + k)
        chk.count("distinct_nontrivial")
        property_oracle(chk, seq, recs, k, bad_props)
        if k == "cache":
            if all(r["expr"] for r in recs):
                tb = {}
                for r in recs:
                    tb.setdefault(r["text"], len(tb) + 1)
                table = " ".join("(%d %s)" % (tb[r["text"]], r["expr"]) for r in recs)
                req_of[idx] = len(reqs)
                reqs.append("(hist (%s) (%s))" % (table, " ".join(str(tb[r["text"]]) for r in recs)))
            else:
                chk.count("skipped_unmodelled_text")
        elif k == "long":
            for i, (r, want) in enumerate(zip(recs, kind[1])):
                chk.count("compared_statements")
                # a character: harness/canon.py knows klongpy.types.KGChar only; the backend's own KGChar class shows as a 1-string
                ok_set = {want, want.replace("(c ", "(s ")} if want.startswith("(c ") else {want}
                if r["rA"] not in ok_set:
                    bad_props.append({"kind": "statement %d `%s` gives %s; over immutable values it is %s (same text and variable values)" % (
                        i, r["text"][:60], r["rA"][:120], want[:120]), "family": "long", "statements": seq, "at": i,
                        "results_A": [x["rA"][:80] for x in recs], "expected": [w[:80] for w in kind[1]]})
                    break
        elif k == "views":
            req_of[idx] = len(reqs)
            reqs.append("(heap (%s))" % " ".join(kind[1]))
    model = chk.run_model(reqs)
    code_name = {v: k for k, v in NAMES.items()}
    for idx, ri in req_of.items():
        (seq, kind), recs, mo = seqs[idx], out[idx], model[ri]
        k = kind if isinstance(kind, str) else kind[0]
        if k == "cache":
            for i, (r, m) in enumerate(zip(recs, mo)):
                chk.count("compared_statements")
                mres, mstore, mpure = m
                def same(mr, ir):
                    if mr[0] == "err":
                        return ir == "EXC"
                    v = mr[1]
                    want = {"i": lambda: sx(["i", v[1]]), "s": lambda: sx(["s"] + v[1:]), "a": lambda: sx(["l"] + [["i", z] for z in v[1:]])}[v[0]]()
                    return ir == want
                okA = same(mres, r["rA"])
                okB = same(mpure, r["rB"])
                mvars = {code_name[kv[0]]: sx(kv[1]) for kv in mstore}
                ivars = {n: v for n, v in r["vals"].items()}
                okV = all(ivars.get(n) == v for n, v in mvars.items())
                if not (okA and okB and okV):
                    bad_corrs.append({"kind": "cache model vs klongpy", "statements": seq, "at": i, "model_cached": sx(mres), "impl_A": r["rA"][:100],
                                      "model_pure": sx(mpure), "impl_B": r["rB"][:100], "model_vars": mvars, "impl_vars": ivars})
                    break
        else:
            for i, (r, m) in enumerate(zip(recs, mo)):
                chk.count("compared_statements")
                mvars = {code_name[kv[0]]: "(a%s)" % "".join(" %d" % z for z in kv[1]) for kv in m}
                ivars = {n: v for n, v in r["vals"].items() if n in mvars}
                if mvars != ivars:
                    bad_corrs.append({"kind": "views model vs klongpy", "statements": seq, "at": i, "model_vars": mvars, "impl_vars": ivars})
                    break
        chk.sample({"family": k, "statements": seq[:8], "results": [r["rA"][:40] for r in recs][:8]}, limit=6)
    return bad_props, bad_corrs


def run(tier, replay=None):
    chk = Check("C04", tier)
    rng = random.Random(chk.seed)
    chk.generate(generate())
    chk.build_model()
    hits = forbidden_scan("C04")
    proof = chk.build_proofs()
    if hits:
        proof["ok"] = False
        proof["error"] = "forbidden declarations: %r" % hits
        proof["broken"] = hits[0]
    replay_known(chk)
    bad_props, bad_corrs = check_all(chk, rng, tier)
    if (bad_corrs or not proof["ok"]) and not bad_props and tier == "quick":
        # bounded wider sweep: the quick tier stays under ~4 min in total
        bad_props, _ = check_all(chk, random.Random(chk.seed + 1), "escalate")
    for bp in bad_props[:3]:
        chk.violation("C04 property fails on the implementation: %s" % bp["kind"], bp)
    if not chk.violations:
        if bad_corrs:
            bc = bad_corrs[0]
            chk.violation("correspondence between klongpy and the Coq model broke (%s); no failing input of the property found in %d evaluations"
                          % (bc["kind"], chk.counters.get("evaluations", 0)),
                          {"broken": "correspondence C04/Model.v", "detail": bc, "more": len(bad_corrs) - 1}, no_input=True)
        elif not proof["ok"]:
            chk.violation("proof obligation no longer checks: %s" % proof["broken"],
                          {"broken_obligation": proof["broken"], "coq_error": proof["error"], "generated": chk.generated_text}, no_input=True)
    return chk.finish(
        rule="statement sequences (directed + seeded random, length <= 6 quick / 9 thorough) over data, view, amend, function and expression statements incl. repeated identical texts; "
             "every statement re-run in a fresh interpreter loaded with a deep copy of the pre-state; plus the Part A grammar (rebinding a, b between int/string/list around repeated texts) and the "
             "Part B grammar (literal / drop / take / reverse / amend / alias chains) three-way with the extracted model. distinct = sequences",
        trusted_base=TRUSTED, assumptions=ASSUME)
