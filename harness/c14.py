"""C14 — every remote call gets its own answer or an error: never another's, never hangs.

Link 1 (Coq): coq/C14/Properties.v   (check_history soundness, match / drain invariants for any number of calls,
              closed-set reflection over every schedule of <= 3 concurrent calls, refutation of the live-dict cleanup loop)
Link 2 (here): the real NetworkClient + ReaderWriterConnectionProvider over in-memory streams (a real
              asyncio.StreamReader fed by this harness, a recording writer stub), real caller threads, real io / klong
              loop threads from klongpy.repl.setup_async_loop.  The harness plays a script (a schedule with faults)
              step by step; the same script is run by the extracted model; histories, outcomes and the client's final
              state are compared, and the observed history goes through the extracted, verified check_history.

`python -m harness.c14 child` is the implementation driver (one JSON script per stdin line).
"""
import ast
import itertools
import json
import os
import random
import subprocess
import sys
import threading
import time

from . import astlib
from .astlib import ShapeError
from .common import Check, sx, forbidden_scan, PY, VERIF, REPO, COQ, DirLock, sh

DEADLINE = float(os.environ.get("C14_DEADLINE", "5"))     # the only wall-clock quantity: a caller still blocked after this is a hang

TRUSTED = [
    "Coq 8.16.1 kernel (coqc) incl. vm_compute (closed-set reflection C14_all and the _refuted witness)",
    "Print Assumptions: all C14 theorems closed under the global context (no axioms)",
    "translator harness/c14.py:generate (Python ast): whether _cleanup_pending_responses iterates a copy, whether _run's finally clears self.writer and calls the cleanup, whether both handlers of execute_server_command hand a fresh KlongException to result_future.set_exception",
    "extraction: ExtrOcamlBasic only; ocaml/driver.ml",
    "coq/C13 (Model.v, Proofs.v: frame_delivery, cut_delivery) imported by coq/C14; built by this harness under C13's lock, visible through COQPATH",
    "correspondence harness: gated conn_provider.connect (subclass of ReaderWriterConnectionProvider / real HostPortConnectionProvider over a patched asyncio.open_connection), gates inside ioloop.create_future / asyncio.run_coroutine_threadsafe, the recording writer stub, asyncio.StreamReader feed_data/feed_eof/set_exception, quiescence detection by marker callbacks",
]
ASSUME = [
    "uuid.uuid4() never returns the same id twice (message ids are modelled as call indices)",
    "dict get/set/pop/`in`/clear/list(values()) and Future.set_result/set_exception are atomic under the GIL; the io loop runs one callback at a time",
    "the byte-level wire is inside the model (coq/C14/Wire.v over C13.Model.feed; C14_wire_* and C14_all_bytes): assumed only that a frame's label (response to call k / push / close request) is a function of the frame, and that a body that cannot be unpickled does not occur",
    "conn_provider.connect() eventually returns or raises KlongIPCCreateConnectionException (HostPortConnectionProvider: max_retries); _run never reconnects (every handler breaks out of its loop)",
    "the server answers a request only after it was sent, answers a close request with KGRemoteCloseConnection, and a server-side evaluation error shows at the client as the connection being closed (read in TcpServerConnectionHandler / NetworkClient._run)",
    "real TCP behaviour (half-open sockets, RST timing, writer.drain() failing before the reader sees the reset) is not exhibited by in-memory streams",
    "klong-loop model: only the server's own .srv.o/.srv.c/.srv.e handlers are pinned (translator flag srv_callbacks_inline); callbacks passed through the Python API may block on anything. Peer requests interleaved with a call pending from the klong loop are the known finding C14-klong-reentrancy and are not generated elsewhere",
    "server half: an evaluation failure is an Exception; a BaseException that is not an Exception (KeyboardInterrupt, SystemExit, CancelledError, user classes) is caught by neither handler of execute_server_command and is outside the domain (modelled, stated as C14_server_baseexception_outside_domain, compared but not judged)",
    "asyncio.Future.set_exception refuses StopIteration (and subclasses) with TypeError and accepts every other Exception instance (modelled as future_accepts, exercised on the real loop)",
    "a caller that is still blocked 5 s (+5 s confirmation) after the step that should release it is reported as a hang",
]


# =============================================================================================== translator
def _mentions_pending(node):
    return any(isinstance(n, ast.Attribute) and n.attr == "pending_responses" for n in ast.walk(node))


def _is_copy_call(node):
    return (isinstance(node, ast.Call) and isinstance(node.func, ast.Name) and node.func.id in ("list", "tuple")
            and len(node.args) == 1 and _mentions_pending(node.args[0]))


_c13_ready = []


def prepare_c13():
    """coq/C14 imports C13.Model / C13.Proofs (the byte-level reader): build C13's .vo files (under C13's own lock) and make
    the library visible to every coqc started from this process (COQPATH: /verif/coq/C13 is the logical name C13)."""
    os.environ["COQPATH"] = COQ + (":" + os.environ["COQPATH"] if os.environ.get("COQPATH") and COQ not in os.environ["COQPATH"].split(":") else "")
    if _c13_ready:
        return
    from . import c13
    c = Check("C13", "quick")
    c.generate(c13.generate())
    c.build_model()
    with DirLock(c.dir):        # only the .vo files are needed here; C13's own check runs its Properties.v
        rc, out = sh(["timeout", "1800", "make", "-j4"] + [t for t in c._make_deps("Properties.vo")], cwd=c.dir, timeout=1900)
    if rc != 0:
        raise RuntimeError("coq/C13 (imported by coq/C14) does not build: %s" % out[-2000:])
    _c13_ready.append(True)


def generate():
    prepare_c13()
    out = ["From Coq Require Import Bool."]

    def cleanup_flags():
        m = astlib.module("klongpy/sys_fn_ipc.py")
        cls = astlib.find_class(m, "NetworkClient")
        fn = astlib.find_func(cls, "_cleanup_pending_responses")
        body = astlib.body_no_doc(fn)
        loops = [n for n in ast.walk(fn) if isinstance(n, (ast.For, ast.While)) and astlib.calls_in(n, "set_exception")]
        if len(loops) != 1:
            raise ShapeError("expected exactly one loop calling set_exception, found %d" % len(loops))
        lp = loops[0]
        snapshot = False
        if isinstance(lp, ast.While):
            # while self.pending_responses: ... popitem()   (atomic per item, tolerant of insertions)
            snapshot = _mentions_pending(lp.test) and len(astlib.calls_in(lp, "popitem")) == 1
        else:
            it = lp.iter
            if _is_copy_call(it):
                snapshot = True
            elif isinstance(it, ast.Name):
                defs = [s for s in body if isinstance(s, ast.Assign) and len(s.targets) == 1
                        and isinstance(s.targets[0], ast.Name) and s.targets[0].id == it.id]
                snapshot = len(defs) == 1 and _is_copy_call(defs[0].value) and body.index(defs[0]) < body.index(lp)
            elif _mentions_pending(it):
                snapshot = False        # iterates the live dict (or a live view of it)
            else:
                raise ShapeError("cleanup loop iterates %s" % ast.unparse(it))
        clears = len(astlib.calls_in(fn, "clear")) >= 1 or len(astlib.calls_in(fn, "popitem")) >= 1
        return snapshot, clears

    def run_flags():
        m = astlib.module("klongpy/sys_fn_ipc.py")
        cls = astlib.find_class(m, "NetworkClient")
        fn = astlib.find_func(cls, "_run")
        tries = [n for n in ast.walk(fn) if isinstance(n, ast.Try) and n.finalbody]
        if len(tries) != 1:
            raise ShapeError("_run: expected one try/finally")
        fb = tries[0].finalbody

        def is_writer_reset(st):
            return isinstance(st, ast.Assign) and isinstance(st.value, ast.Constant) and st.value.value is None and any(
                isinstance(t, ast.Attribute) and t.attr == "writer" and isinstance(t.value, ast.Name) and t.value.id == "self" for t in st.targets)
        clears_writer = False
        calls_cleanup = False
        seen_await = False
        for s in fb:       # top level of the finally only: must be unconditional; order matters
            if any(isinstance(n, ast.Await) for n in ast.walk(s)):
                seen_await = True
            if is_writer_reset(s) and not seen_await and not calls_cleanup:
                clears_writer = True      # before the futures are failed and before on_close is awaited
            if isinstance(s, ast.Expr) and isinstance(s.value, ast.Call) and isinstance(s.value.func, ast.Attribute) \
                    and s.value.func.attr == "_cleanup_pending_responses" and not seen_await:
                calls_cleanup = True
        awaits = [n.lineno for n in ast.walk(tries[0]) if isinstance(n, ast.Await) and n.lineno >= fb[0].lineno]
        late = any(is_writer_reset(n) and awaits and n.lineno > max(awaits) for n in ast.walk(fn))
        return clears_writer, calls_cleanup, late

    def server_flags():
        m = astlib.module("klongpy/sys_fn_ipc.py")
        fn = astlib.find_func(m, "execute_server_command")
        tries = [n for n in fn.body if isinstance(n, ast.Try)]
        if len(tries) != 1:
            raise ShapeError("execute_server_command: expected one top-level try")
        res = {}
        for h in tries[0].handlers:
            if not isinstance(h.type, ast.Name) or h.type.id not in ("KeyError", "Exception"):
                raise ShapeError("unexpected handler %s" % (ast.unparse(h.type) if h.type else "bare"))
            sets = [c for c in astlib.calls_in(h, "call_soon_threadsafe")
                    if len(c.args) == 2 and isinstance(c.args[0], ast.Attribute) and c.args[0].attr == "set_exception"]
            top = [s_ for s_ in h.body if isinstance(s_, ast.Expr) and s_.value in sets]
            if len(sets) != 1 or len(top) != 1:
                raise ShapeError("handler %s: expected exactly one unconditional call_soon_threadsafe(result_future.set_exception, ...)" % h.type.id)
            arg = sets[0].args[1]
            def is_fresh(e):
                return isinstance(e, ast.Call) and isinstance(e.func, ast.Name) and e.func.id == "KlongException"
            wraps = is_fresh(arg)
            if isinstance(arg, ast.Name) and arg.id != h.name:
                defs = [s_ for s_ in h.body if isinstance(s_, ast.Assign) and len(s_.targets) == 1
                        and isinstance(s_.targets[0], ast.Name) and s_.targets[0].id == arg.id]
                wraps = len(defs) == 1 and is_fresh(defs[0].value)
            res[h.type.id] = wraps
        if set(res) != {"KeyError", "Exception"}:
            raise ShapeError("handlers found: %r" % sorted(res))
        return res["Exception"], res["KeyError"]

    cf, why1 = astlib.try_flag(cleanup_flags)
    rf, why2 = astlib.try_flag(run_flags)
    snapshot, clears = cf if cf is not None else (False, False)
    clears_writer, calls_cleanup, late_reset = rf if rf is not None else (False, False, False)
    if why1:
        out.append("(* _cleanup_pending_responses shape not recognised: %s *)" % why1)
    if why2:
        out.append("(* _run shape not recognised: %s *)" % why2)
    out.append("Definition cleanup_iterates_snapshot : bool := %s." % astlib.coq_bool(snapshot))
    out.append("Definition finally_clears_writer : bool := %s." % astlib.coq_bool(clears_writer))
    out.append("Definition finally_cleans_pending : bool := %s." % astlib.coq_bool(clears and calls_cleanup))
    out.append("Definition writer_cleared_after_on_close : bool := %s." % astlib.coq_bool(late_reset))
    def callback_flags():
        m = astlib.module("klongpy/sys_fn_ipc.py")
        cls = astlib.find_class(m, "TcpServerConnectionHandler")
        methods = {n.name: n for n in cls.body if isinstance(n, (ast.FunctionDef, ast.AsyncFunctionDef))}
        for nm in ("_on_connect", "_on_close", "_on_error"):
            if nm not in methods:
                raise ShapeError("TcpServerConnectionHandler.%s not found" % nm)
        todo, seen = ["_on_connect", "_on_close", "_on_error"], set()
        inline = True
        while todo:
            nm = todo.pop()
            if nm in seen:
                continue
            seen.add(nm)
            fn = methods[nm]
            for n in ast.walk(fn):
                if isinstance(n, (ast.Await, ast.AsyncFor, ast.AsyncWith)):
                    inline = False        # the callback can wait for something (e.g. for the klong loop)
                if isinstance(n, ast.Call) and isinstance(n.func, ast.Attribute):
                    if n.func.attr in ("call_soon_threadsafe", "run_coroutine_threadsafe", "create_task", "ensure_future", "result", "wait"):
                        inline = False
                    if isinstance(n.func.value, ast.Name) and n.func.value.id == "self" and n.func.attr in methods:
                        todo.append(n.func.attr)
        # does _run fail the pending futures before it awaits on_error ?
        run = astlib.find_func(astlib.find_class(m, "NetworkClient"), "_run")
        tries = [n for n in ast.walk(run) if isinstance(n, ast.Try) and n.finalbody]
        if len(tries) != 1:
            raise ShapeError("_run: expected one try/finally")
        first = True
        found = 0
        for h in tries[0].handlers:
            aw = [n for n in ast.walk(h) if isinstance(n, ast.Await) and isinstance(n.value, ast.Call)
                  and isinstance(n.value.func, ast.Name) and n.value.func.id == "on_error"]
            for a in aw:
                found += 1
                cl = [c for c in astlib.calls_in(h, "_cleanup_pending_responses") if c.lineno < a.lineno]
                if not cl:
                    first = False
        if found == 0:
            raise ShapeError("_run: no `await on_error(...)` found in the handlers")
        return inline, first

    kf, why4 = astlib.try_flag(callback_flags)
    sf, why3 = astlib.try_flag(server_flags)
    if why3:
        out.append("(* execute_server_command shape not recognised: %s *)" % why3)
    wg, wk = sf if sf is not None else (False, False)
    out.append("Definition server_wraps_generic_errors : bool := %s." % astlib.coq_bool(wg))
    out.append("Definition server_wraps_keyerror : bool := %s." % astlib.coq_bool(wk))
    if why4:
        out.append("(* callbacks / _run ordering not recognised: %s *)" % why4)
    inl, first = kf if kf is not None else (False, False)
    out.append("Definition srv_callbacks_inline : bool := %s." % astlib.coq_bool(inl))
    out.append("Definition run_fails_pending_before_callbacks : bool := %s." % astlib.coq_bool(first))
    return "\n".join(out) + "\n"


# =============================================================================================== scripts
CUT_CLASSES = ("between", "id", "len", "body")


def model_steps(step, park=False):
    """harness step -> list of model steps (the first one decides whether the harness step is enabled).
    park: the on_error / on_close callbacks park on harness gates (steps errdone / closedone release them);
    otherwise they do not yield and the model settles at once"""
    ms = _model_steps(step)
    if park:
        return ms
    return [["settle"] if m == ["cleanall"] and step[0] not in ("cutpause",) else m for m in ms]


def _model_steps(step):
    op = step[0]
    if op == "errdone":
        return [["errdone"], ["cleanall"]]
    if op == "closedone":
        return [["closedone"]]
    if op == "connect":
        return [["connect", 1 if step[1] == "ok" else 0], ["cleanall"]]
    if op == "invoke":
        return [["invoke", step[1]]]
    if op == "reg":
        return [["reg", step[1]]]
    if op == "send":
        return [["sched", step[1]], ["send", step[1]]]
    if op == "resp":
        return [["resp", step[1], 1], ["cleanall"]]
    if op == "push":
        return [["push", 1 if step[1] == "ok" else 0], ["cleanall"]]
    if op == "closereq":
        return [["closereq"], ["cleanall"]]
    if op == "cut":
        return [["cut"], ["cleanall"]]
    if op == "reset":
        return [["reset"], ["cleanall"]]
    if op == "cutpause":
        return [["cut"], ["errdone"]] + [["clean"]] * step[1]
    if op == "resume":
        return [["cleanall"]]
    raise ValueError(op)


def model_request(script, steps=None):
    ms = []
    for st in (script["steps"] if steps is None else steps):
        ms += model_steps(st, script.get("park", False))
        ms.append(["collect"])
    return sx(["play", c0_of(script), [1 if c else 0 for c in script["calls"]], ms])


def c0_of(script):
    """conn_provider.is_open() before connect() returns: ReaderWriterConnectionProvider 1, HostPortConnectionProvider 0"""
    return 1 if script.get("provider", "rw") == "rw" else 0


def wire_request(script, r):
    """byte-level replay: the chunks the driver actually fed, decoded by C13's reader model inside the C14 model"""
    table = [[list(bytes.fromhex(h)), ["resp", int(k), 1]] for k, h in r["ids"].items()]
    table += [[list(bytes.fromhex(h)), ["push", 1 if ok else 0]] for h, ok in r["push_ids"]]
    if r.get("closereq_id"):
        table.append([list(bytes.fromhex(r["closereq_id"])), ["closereq"]])
    items = []
    for i, st in enumerate(script["steps"]):
        if st[0] in ("resp", "push", "closereq", "cut"):
            for kind, idx, data in r["wire"]:
                if idx == i:
                    items.append(["eof"] if kind == "eof" else ["chunk", list(bytes.fromhex(data))])
            items.append(["cleanall"] if script.get("park") else ["settle"])
        else:
            for m in model_steps(st, script.get("park", False)):
                items.append(m if m in (["cleanall"], ["settle"]) else ["l", m])
        items.append(["collect"])
    return sx(["wplay", c0_of(script), [1 if c else 0 for c in script["calls"]], table, items])


def effective(script, taken):
    """drop the harness steps whose first model step was not enabled"""
    out = []
    i = 0
    for st in script["steps"]:
        n = len(model_steps(st, script.get("park", False)))
        if taken[i]:
            out.append(st)
        i += n + 1      # + the collect marker
    return {"calls": script["calls"], "steps": out, "tag": script.get("tag", ""), "provider": script.get("provider", "rw"),
            "callbacks": bool(script.get("callbacks")), "park": bool(script.get("park"))}


def finale(rng, n, answer=True, final_cut=True):
    """steps that play every call out: remaining invoke/reg/send in a random interleaving, answers, and a last cut"""
    seqs = [[["invoke", k], ["reg", k], ["send", k]] for k in range(n)]
    steps = interleave(rng, seqs)
    if answer:
        order = list(range(n))
        rng.shuffle(order)
        steps += [["resp", k, frag(rng)] for k in order]
    if final_cut:
        steps.append(["cut", rng.choice(CUT_CLASSES), None])
    return steps


def interleave(rng, seqs):
    seqs = [list(s) for s in seqs if s]
    out = []
    while seqs:
        s = rng.choice(seqs)
        out.append(s.pop(0))
        if not s:
            seqs.remove(s)
    return out


def frag(rng):
    """cut offsets inside a response frame (id 0..16, length 16..20, body 20..): at most two cuts"""
    r = rng.random()
    if r < 0.4:
        return []
    pts = sorted(set(rng.choice([1, 7, 15, 16, 17, 19, 20, 21, 24]) for _ in range(rng.choice([1, 2]))))
    return pts


STAGES = ("idle", "invoked", "registered", "sent", "answered")


def prefix_for(k, stage):
    s = []
    if stage in ("invoked", "registered", "sent", "answered"):
        s.append(["invoke", k])
    if stage in ("registered", "sent", "answered"):
        s.append(["reg", k])
    if stage in ("sent", "answered"):
        s.append(["send", k])
    if stage == "answered":
        s.append(["resp", k, []])
    return s


def gen_scripts(rng, tier):
    quick = tier == "quick"
    S = []

    def add(tag, calls, steps, provider=None, connected=True):
        provider = provider or ("hp" if rng.random() < 0.3 else "rw")
        S.append({"calls": list(calls), "steps": ([["connect", "ok"]] if connected else []) + steps, "tag": tag, "provider": provider,
                  "callbacks": rng.random() < 0.25})

    # P. awaited callbacks that really wait: on_error / on_close park on a gate; calls run inside the two windows
    #    (handler awaiting on_error: nothing torn down yet; finally awaiting on_close: writer reset, futures failed)
    pv = []
    for n in (1, 2, 3):
        for v in itertools.product(STAGES[:4], repeat=n):
            for loss in ("cut", "reset", "pushfail", "closereq"):
                pv.append((v, loss))
    if quick:
        rng.shuffle(pv)
        pv = pv[:90]
    for v, loss in pv:
        n = len(v)
        pre = interleave(rng, [prefix_for(k, v[k]) for k in range(n)])
        lstep = {"cut": ["cut", rng.choice(CUT_CLASSES), None], "reset": ["reset"], "pushfail": ["push", "fail"], "closereq": ["closereq"]}[loss]
        rest = [[["invoke", k], ["reg", k], ["send", k]] for k in range(n)]
        # split what is left of every call between the two windows and the time after
        w1, w2, w3 = [], [], []
        for k in range(n):
            a = rng.randint(0, 3)
            b = rng.randint(a, 3)
            w1.append(rest[k][:a]); w2.append(rest[k][a:b]); w3.append(rest[k][b:])
        steps = pre + [lstep] + interleave(rng, w1) + [["errdone"]] + interleave(rng, w2) + [["closedone"]] + interleave(rng, w3)
        S.append({"calls": [False] * n, "steps": [["connect", "ok"]] + steps, "tag": "callback-window",
                  "provider": "hp" if rng.random() < 0.3 else "rw", "callbacks": False, "park": True})

    # H. calls racing run_client(): before connect() has returned, which then succeeds or raises KlongIPCCreateConnectionException
    hv = []
    for provider in ("rw", "hp"):
        for n in (1, 2, 3):
            for v in itertools.product(STAGES[:4], repeat=n):
                if any(x != "idle" for x in v):
                    for outcome in ("ok", "fail"):
                        hv.append((provider, v, outcome))
    if quick:
        rng.shuffle(hv)
        hv = hv[:70]
    for provider, v, outcome in hv:
        n = len(v)
        pre = interleave(rng, [prefix_for(k, v[k]) for k in range(n)])
        add("before-connect", [rng.random() < 0.15 for _ in range(n)], pre + [["connect", outcome]] + finale(rng, n, answer=True, final_cut=True),
            provider=provider, connected=False)

    # A. all arrival orders of the responses to 1..3 concurrent calls, each with a fragmentation of every frame
    for n in (1, 2, 3):
        for order in itertools.permutations(range(n)):
            for rep in range(2 if quick else 8):
                pre = interleave(rng, [prefix_for(k, "sent") for k in range(n)])
                steps = pre + [["resp", k, frag(rng)] for k in order]
                if rep % 2:
                    steps.append(["cut", rng.choice(CUT_CLASSES), None])
                add("orders", [False] * n, steps)
    # B. responses interleaved with the calls themselves (a response as soon as its request is out), duplicates, pushes
    for i in range(40 if quick else 300):
        n = rng.choice((2, 3, 3))
        seqs = [prefix_for(k, "sent") + [["resp", k, frag(rng)]] for k in range(n)]
        extra = [["push", "ok"]] if rng.random() < 0.4 else []
        if rng.random() < 0.4:
            seqs[rng.randrange(n)].append(["resp", rng.randrange(n), []])      # a duplicate response frame
        steps = interleave(rng, seqs + [extra])
        add("interleaved", [False] * n, steps + finale(rng, n, answer=True, final_cut=rng.random() < 0.5))
    # C. connection loss at every point of the call sequence, with 0..3 calls pending, at every byte class
    faults = [["cut", c, None] for c in CUT_CLASSES] + [["cut", "body", "own"], ["reset"], ["closereq"], ["push", "fail"]]
    vectors = []
    for n in (1, 2, 3):
        vectors += [v for v in itertools.product(STAGES, repeat=n)]
    if quick:
        rng.shuffle(vectors)
        base = [v for v in vectors if len(v) < 3]
        three = [v for v in vectors if len(v) == 3]
        vectors = base + three
    fi = 0
    for v in vectors:
        n = len(v)
        reps = 1 if quick else len(faults)
        for r in range(reps):
            f = list(faults[(fi + r) % len(faults)])
            if f[0] == "cut" and f[2] == "own":
                sent = [k for k in range(n) if v[k] == "sent"]
                f[2] = sent[0] if sent else None          # the cut falls inside the response to a pending call
            pre = interleave(rng, [prefix_for(k, v[k]) for k in range(n)])
            add("loss", [False] * n, pre + [f] + finale(rng, n, answer=True, final_cut=True))
        fi += 1
    # D. close() racing with calls: the close ack arrives while the other calls are in every stage; two closers
    cvec = []
    for n in (1, 2, 3):
        for closers in itertools.product((False, True), repeat=n):
            if not any(closers):
                continue
            for v in itertools.product(STAGES[:4], repeat=n):
                cvec.append((closers, v))
    if quick:
        rng.shuffle(cvec)
        cvec = cvec[:130]
    for closers, v in cvec:
        n = len(v)
        pre = interleave(rng, [prefix_for(k, v[k]) for k in range(n)])
        acks = [k for k in range(n) if closers[k] and v[k] == "sent"]
        steps = pre + ([["resp", acks[0], frag(rng)]] if acks else [])
        add("close", closers, steps + finale(rng, n, answer=True, final_cut=True))
    # E. a call registers its future while _cleanup_pending_responses is running (paused after its j-th set_exception)
    pv = []
    for n in (2, 3):
        for v in itertools.product(("invoked", "registered", "sent"), repeat=n):
            m = sum(1 for x in v if x in ("registered", "sent"))
            if m >= 1 and "invoked" in v:
                for j in range(1, m + 1):
                    pv.append((v, j))
    if quick:
        rng.shuffle(pv)
        pv = pv[:40]
    for v, j in pv:
        n = len(v)
        pre = interleave(rng, [prefix_for(k, v[k]) for k in range(n)])
        late = [["reg", k] for k in range(n) if v[k] == "invoked"]
        rng.shuffle(late)
        nlate = rng.randint(1, len(late))
        add("cleanup-race", [False] * n, pre + [["cutpause", j]] + late[:nlate] + [["resume"]] + finale(rng, n, answer=False, final_cut=False))
    # F. calls made after the connection has gone must fail promptly
    for f in faults:
        if f[0] == "cut" and f[2] == "own":
            continue
        for n in ((1, 3) if quick else (1, 2, 3)):
            add("after-loss", [False] * n, [list(f)] + finale(rng, n, answer=False, final_cut=False))
            add("after-loss", [False] * (n - 1) + [True], [list(f)] + finale(rng, n, answer=False, final_cut=False))
    # G. seeded random schedules
    for i in range(160 if quick else 1500):
        n = rng.choice((1, 2, 3, 3))
        closers = [rng.random() < 0.2 for _ in range(n)]
        seqs = [prefix_for(k, rng.choice(STAGES[1:])) for k in range(n)]
        env = []
        for _ in range(rng.choice((0, 1, 1, 2))):
            env.append(rng.choice([["push", "ok"], ["push", "ok"], list(rng.choice(faults[:4])), ["reset"], ["closereq"], ["push", "fail"]]))
        steps = interleave(rng, seqs + [env])
        add("random", closers, steps + finale(rng, n, answer=True, final_cut=rng.random() < 0.7))
    return S


# ---- the server half: request kinds, the outcome class of their evaluation, what a response must carry
SERVER_KINDS = {
    "val_str": "val", "val_call": "val", "set": "val", "sym": "val",
    "fn_str": "fn", "fn_get": "fn", "fn_py": "fn",
    "unpicklable": "unpicklable",
    "klong": "klong", "syntax": "ordinary", "value": "ordinary", "custom": "ordinary", "arity": "ordinary",
    "key_nosuch": "keyerror", "key": "keyerror",
    "stop": "stopiter", "mystop": "stopiter", "gen_exhausted": "stopiter",
    "base": "base",
}


def gen_server_sequences(rng, tier):
    kinds = sorted(SERVER_KINDS)
    seqs = []
    for k in kinds:
        seqs.append([k, "val_str"])
        seqs.append(["val_call", k, "val_str"])
    for i in range(12 if tier == "quick" else 150):
        n = rng.randint(3, 6)
        seqs.append([rng.choice(kinds) if rng.random() < 0.4 else rng.choice(["val_str", "val_call", "set", "fn_str", "fn_get", "sym"]) for _ in range(n)])
    return seqs


# =============================================================================================== implementation driver (child)
def child_main():
    import asyncio
    import pickle
    import struct
    import uuid
    import klongpy.sys_fn_ipc as ipc
    from klongpy.repl import setup_async_loop

    ORIG_RCT = asyncio.run_coroutine_threadsafe
    tls = threading.local()

    def rct(coro, loop):
        env = getattr(tls, "env", None)
        if env is not None and not tls.g2_used:
            tls.g2_used = True
            env.gate(tls.k, "g2")
            cf = ORIG_RCT(coro, loop)
            with env.lock:
                env.cfut[tls.k] = cf
                env.lock.notify_all()
            return cf
        return ORIG_RCT(coro, loop)

    asyncio.run_coroutine_threadsafe = rct

    class HookFuture(asyncio.Future):
        env = None
        k = None

        def set_exception(self, e):
            r = super().set_exception(e)
            self.env.after_set_exception(self)
            return r

    class WriterStub:
        def __init__(self, env):
            self.env = env
            self.closing = False

        def write(self, data):
            mid = bytes(data[:16])
            n = struct.unpack("!I", data[16:20])[0]
            self.env.on_write(mid, pickle.loads(data[20:20 + n]))

        async def drain(self):
            return None

        def close(self):
            self.closing = True

        def is_closing(self):
            return self.closing

        async def wait_closed(self):
            return None

        def get_extra_info(self, name, default=None):
            return ("127.0.0.1", 1)

    class KlongStub:
        def __init__(self):
            self._context = {}

        def __call__(self, text):
            if "fail" in text:
                raise ValueError("evaluation failed")
            return 42

    CUR = [None]

    async def open_connection(host, port, **kw):
        env = CUR[0]
        await env.gate_connect.wait()
        if env.connect_fail:
            raise OSError("connection refused")
        return env.reader, env.wstub

    asyncio.open_connection = open_connection

    class Play:
        def __init__(self, script):
            self.script = script
            self.n = len(script["calls"])
            self.lock = threading.Condition()
            self.events = []
            self.at = {}
            self.released = set()
            self.done = {}
            self.reported = set()
            self.cfut = {}
            self.ids = {}
            self.sent = set()
            self.pause_after = None
            self.nexc = 0
            self.parked_io = threading.Event()
            self.release_io = threading.Event()
            self.threads = {}
            self.notes = []
            self.protocol_broken = False
            self.wire = []          # what was fed to the StreamReader: (kind, index of the script step, hex)
            self.step_index = -1
            self.push_ids = []
            self.closereq_id = None

        def ev(self, e):
            with self.lock:
                self.events.append(list(e))

        def gate(self, k, name):
            with self.lock:
                self.at[k] = name
                self.lock.notify_all()
                while (k, name) not in self.released:
                    self.lock.wait()
                self.at[k] = None

        def release(self, k, name):
            with self.lock:
                self.released.add((k, name))
                self.lock.notify_all()

        def wait_for(self, pred, limit=None):
            limit = 2 * DEADLINE if limit is None else limit
            t0 = time.time()
            with self.lock:
                while not pred():
                    if time.time() - t0 > limit:
                        self.protocol_broken = True      # the implementation left the path the harness can drive
                        return False
                    self.lock.wait(0.02)
            return True

        def on_write(self, mid, body):
            if isinstance(body, tuple) and body and body[0] == "q":
                k = body[1]
            elif isinstance(body, ipc.KGRemoteCloseConnection):
                k = None
                for m2, fut in list(self.nc.pending_responses.items()):
                    if m2.bytes == mid and getattr(fut, "k", None) is not None:
                        k = fut.k
                if k is None:
                    return              # the ack of a server-initiated close
            else:
                return                  # the answer to a server push
            self.ids[k] = mid
            self.sent.add(k)
            self.ev(("sent", k))

        def after_set_exception(self, fut):
            self.nexc += 1
            if self.pause_after is not None and self.nexc == self.pause_after:
                self.parked_io.set()
                self.release_io.wait()

        def start(self):
            self.ioloop, self.iothread, self.iostop = setup_async_loop()
            self.kloop, self.kthread, self.kstop = setup_async_loop()
            env = self

            def create_future():
                if getattr(tls, "env", None) is env and not tls.g1_used:
                    tls.g1_used = True
                    f = HookFuture(loop=env.ioloop)
                    f.env = env
                    f.k = tls.k
                    env.gate(tls.k, "g1")
                    return f
                return asyncio.Future(loop=env.ioloop)
            self.ioloop.create_future = create_future
            self.reader = asyncio.StreamReader(loop=self.ioloop)
            self.wstub = WriterStub(self)
            self.connect_fail = False
            box = []
            self.on_io(lambda: box.append(asyncio.Event()))
            self.gate_connect = box[0]
            CUR[0] = self
            if self.script.get("provider", "rw") == "hp":
                # the real HostPortConnectionProvider (retry loop included) over a patched asyncio.open_connection
                self.provider = ipc.HostPortConnectionProvider("mem", 1, max_retries=2, retry_delay=0)
            else:
                class GatedRW(ipc.ReaderWriterConnectionProvider):
                    async def connect(self2):
                        await env.gate_connect.wait()
                        return await ipc.ReaderWriterConnectionProvider.connect(self2)
                self.provider = GatedRW(self.reader, self.wstub, "mem", 0)
            cbs = {}
            if self.script.get("park"):
                box2 = []
                self.on_io(lambda: box2.extend([asyncio.Event(), asyncio.Event()]))
                self.cb_err, self.cb_close = box2

                async def on_error_p(client, e):
                    await env.cb_err.wait()

                async def on_close_p(client):
                    await env.cb_close.wait()
                cbs = {"on_error": on_error_p, "on_close": on_close_p}
            elif self.script.get("callbacks"):
                # application callbacks that fail (once the client is connected): _run must contain them
                async def on_error(client, e):
                    if env.connected_once:
                        raise RuntimeError("on_error callback failed")

                async def on_close(client):
                    if env.connected_once:
                        raise RuntimeError("on_close callback failed")
                cbs = {"on_error": on_error, "on_close": on_close}
            self.connected_once = False
            self.nc = ipc.NetworkClient(self.ioloop, self.kloop, KlongStub(), self.provider, **cbs)
            self.starter = threading.Thread(target=self.nc.run_client, daemon=True)
            self.starter.start()
            if not self.wait_for(lambda: self.nc.running):
                self.notes.append("run_client did not start")
            self.quiesce()

        def on_io(self, fn, *a):
            done = threading.Event()

            def cb():
                try:
                    fn(*a)
                finally:
                    done.set()
            self.ioloop.call_soon_threadsafe(cb)
            if not done.wait(4 * DEADLINE):
                raise RuntimeError("io loop does not respond")

        def quiesce(self, rounds=6):
            for _ in range(rounds):
                self.on_io(lambda: None)
                d = threading.Event()
                self.kloop.call_soon_threadsafe(d.set)
                if not d.wait(4 * DEADLINE):
                    raise RuntimeError("klong loop does not respond")
                self.on_io(lambda: None)

        def caller(self, k):
            tls.env = self
            tls.k = k
            tls.g1_used = False
            tls.g2_used = False
            try:
                if self.script["calls"][k]:
                    r = self.nc.close()
                    if k in self.cfut or k in self.sent or tls.g1_used:
                        out = ["ret", k, "close"]
                    else:
                        out = ["noop", k]
                else:
                    r = self.nc.call(("q", k))
                    if isinstance(r, tuple) and len(r) == 2 and r[0] == "a" and isinstance(r[1], int):
                        out = ["ret", k, ["v", r[1]]]
                    elif isinstance(r, ipc.KGRemoteCloseConnection):
                        out = ["ret", k, "close"]
                    else:
                        out = ["ret", k, ["v", -1]]
                        self.notes.append("call %d returned %r" % (k, r))
            except BaseException as e:  # noqa
                cls = type(e).__name__
                word = {"KlongException": "notest", "AttributeError": "attr", "KlongIPCConnectionFailureException": "connfail",
                        "KGRemoteCloseConnectionException": "closeconn", "KlongIPCCreateConnectionException": "createconn"}.get(cls, "other")
                if word == "notest" and "connection not established" not in str(e):
                    word = "other"
                if word == "other":
                    self.notes.append("call %d raised %s: %s" % (k, cls, e))
                out = ["raise", k, word]
            with self.lock:
                self.done[k] = out
                self.lock.notify_all()

        def collect(self, final=False):
            """every caller whose coroutine is finished (or that never scheduled one) returns: wait for it, report in index order"""
            for k in sorted(self.threads):
                if k in self.reported:
                    continue
                cf = self.cfut.get(k)
                expect = (k in self.done) or (cf is not None and cf.done())
                if expect and k not in self.done:
                    if not self.wait_for(lambda: k in self.done, 2 * DEADLINE):
                        self.notes.append("caller %d: coroutine finished but the caller did not return" % k)
                        continue
                if k in self.done:
                    self.reported.add(k)
                    self.ev(self.done[k])

        def frame(self, mid, obj):
            return ipc.encode_message(uuid.UUID(bytes=mid), obj)

        def feed(self, data, cuts=()):
            pos = 0
            for c in list(cuts) + [len(data)]:
                c = min(c, len(data))
                if c > pos:
                    self.wire.append(("chunk", self.step_index, data[pos:c].hex()))
                    self.on_io(self.reader.feed_data, data[pos:c])
                    self.quiesce(2)
                    pos = c

        def paused(self):
            return self.pause_after is not None and self.parked_io.is_set() and not self.release_io.is_set()

        def step(self, st):
            op = st[0]
            self.step_index += 1
            if op in ("errdone", "closedone"):
                self.on_io((self.cb_err if op == "errdone" else self.cb_close).set)
                self.quiesce()
            elif op == "connect":
                self.connect_fail = st[1] != "ok"
                if self.connect_fail:
                    self.wstub.closing = True     # ReaderWriterConnectionProvider.connect raises when the transport is closing
                self.ev(("connected",) if st[1] == "ok" else ("loss",))
                self.on_io(self.gate_connect.set)
                self.starter.join(2 * DEADLINE)
                if self.starter.is_alive():
                    self.notes.append("run_client() did not return")
                self.quiesce()
                self.connected_once = st[1] == "ok"
            elif op == "invoke":
                k = st[1]
                self.ev(("call", k))
                t = threading.Thread(target=self.caller, args=(k,), daemon=True)
                self.threads[k] = t
                t.start()
                if not self.wait_for(lambda: self.at.get(k) == "g1" or k in self.done):
                    self.notes.append("caller %d neither reached create_future nor returned" % k)
            elif op == "reg":
                k = st[1]
                self.release(k, "g1")
                if not self.wait_for(lambda: self.at.get(k) == "g2" or k in self.done):
                    self.notes.append("caller %d neither reached run_coroutine_threadsafe nor returned" % k)
            elif op == "send":
                k = st[1]
                self.release(k, "g2")
                if not self.wait_for(lambda: k in self.cfut or k in self.done):
                    self.notes.append("caller %d did not schedule its coroutine" % k)
                self.quiesce()
            elif op == "resp":
                k = st[1]
                if k not in self.ids:
                    self.notes.append("response to %d requested but its request was never written" % k)
                    return
                closer = self.script["calls"][k]
                body = ipc.KGRemoteCloseConnection() if closer else ("a", k)
                self.ev(("resp", k, "close" if closer else ["v", k]))
                if closer:
                    self.ev(("loss",))
                self.feed(self.frame(self.ids[k], body), st[2] if len(st) > 2 else ())
                self.quiesce()
            elif op == "push":
                if st[1] == "fail":
                    self.ev(("loss",))
                pid = uuid.UUID(int=1000 + len(self.events)).bytes
                self.push_ids.append((pid.hex(), st[1] != "fail"))
                self.feed(self.frame(pid, "fail" if st[1] == "fail" else "1+1"))
                self.quiesce()
            elif op == "closereq":
                self.ev(("loss",))
                self.closereq_id = uuid.UUID(int=99).bytes.hex()
                self.feed(self.frame(uuid.UUID(int=99).bytes, ipc.KGRemoteCloseConnection()))
                self.quiesce()
            elif op in ("cut", "cutpause"):
                self.ev(("loss",))
                if op == "cut":
                    part = {"between": 0, "id": 7, "len": 18, "body": 23}[st[1]]
                    mid = self.ids.get(st[2]) if len(st) > 2 and st[2] is not None else None
                    data = self.frame(mid or uuid.UUID(int=5).bytes, ("a", 123456789))[:part]
                    if data:
                        self.wire.append(("chunk", self.step_index, data.hex()))
                        self.on_io(self.reader.feed_data, data)
                        self.quiesce(2)
                    self.wire.append(("eof", self.step_index, ""))
                    self.on_io(self.reader.feed_eof)
                    self.quiesce()
                else:
                    self.pause_after = st[1]
                    self.on_io(self.reader.feed_eof)
                    # either the io thread parks inside the cleanup loop, or the loop is over before that
                    t0 = time.time()
                    while not self.parked_io.is_set() and time.time() - t0 < 2 * DEADLINE:
                        probe = threading.Event()
                        self.ioloop.call_soon_threadsafe(probe.set)
                        if probe.wait(0.05) and not self.parked_io.is_set():
                            # the loop answers: _run got past the cleanup without reaching the j-th set_exception
                            self.quiesce()
                            if not self.parked_io.is_set():
                                self.notes.append("cleanup never reached set_exception #%d" % st[1])
                                self.pause_after = None
                                break
            elif op == "resume":
                self.pause_after = None
                self.release_io.set()
                self.quiesce()
            elif op == "reset":
                self.ev(("loss",))

                def doit():
                    self.wstub.closing = True
                    self.reader.set_exception(ConnectionResetError("reset by peer"))
                self.on_io(doit)
                self.quiesce()
            else:
                raise ValueError(op)
            if not self.paused():
                self.collect()

        def run(self, expect_done):
            self.start()
            try:
                for st in self.script["steps"]:
                    self.step(st)
                    if self.protocol_broken:
                        self.notes.append("script abandoned after step %r" % (st,))
                        break
                self.pause_after = None
                self.release_io.set()
                if self.script.get("park"):
                    self.on_io(self.cb_err.set)
                    self.on_io(self.cb_close.set)
                # nobody stays parked at a harness gate (only happens when the implementation left the model's path)
                with self.lock:
                    for k in self.threads:
                        self.released.add((k, "g1"))
                        self.released.add((k, "g2"))
                    self.lock.notify_all()
                self.quiesce()
                self.collect()
                # the end of the script: a caller the model says has returned but that is still blocked after the deadline hangs
                hung = []
                for k in sorted(self.threads):
                    if k in self.done:
                        continue
                    if k in expect_done:
                        ok = self.wait_for(lambda: k in self.done, DEADLINE) or self.wait_for(lambda: k in self.done, DEADLINE)
                        if not ok:
                            hung.append(k)
                self.collect()
                pend = sorted((getattr(f, "k", -1) if getattr(f, "k", None) is not None else -1)
                              for f in list(self.nc.pending_responses.values()))
                return {"events": self.events, "hung": hung,
                        "blocked": [k for k in sorted(self.threads) if k not in self.done],
                        "pending": pend, "exited": self.nc._run_exit_event.is_set(),
                        "writer_none": self.nc.writer is None, "running": bool(self.nc.running),
                        "is_open": bool(self.nc.is_open()), "notes": self.notes, "protocol_broken": self.protocol_broken,
                        "wire": self.wire, "ids": {str(k): v.hex() for k, v in self.ids.items()},
                        "push_ids": self.push_ids, "closereq_id": self.closereq_id}
            finally:
                self.release_io.set()
                for loop, th, st in ((self.ioloop, self.iothread, self.iostop), (self.kloop, self.kthread, self.kstop)):
                    try:
                        loop.call_soon_threadsafe(st.set)
                        th.join(2 * DEADLINE)
                        if not th.is_alive():
                            loop.close()
                    except Exception:
                        pass

    KEEP = []       # strong references: a garbage-collected handle_client coroutine runs nc.cleanup() -> _stop() on whatever thread collects it

    class MyErr(Exception):
        pass

    class MyStop(StopIteration):
        pass

    class MyBase(BaseException):
        pass

    class SrvWriter:
        def __init__(self):
            self.frames = []
            self.closed = False

        def write(self, data):
            mid = bytes(data[:16])
            n = struct.unpack("!I", data[16:20])[0]
            self.frames.append((mid, pickle.loads(data[20:20 + n])))

        async def drain(self):
            return None

        def close(self):
            self.closed = True

        def is_closing(self):
            return self.closed

        async def wait_closed(self):
            return None

        def get_extra_info(self, name, default=None):
            return ("127.0.0.1", 1) if name == "peername" else default

    def kloop_play(spec):
        """the SERVER-side connection as a caller: handle_client/run_server with .srv.o/.srv.c/.srv.e defined in a real
        interpreter; calls are issued through the connection handle from the KLONG LOOP thread ("k") or from another
        thread ("t"); the harness is the remote client at frame level"""
        from klongpy import KlongInterpreter
        from klongpy.utils import CallbackEvent
        io, iot, ios = setup_async_loop()
        kl, klt, kls = setup_async_loop()
        klong = KlongInterpreter()
        klong['.system'] = {'ioloop': io, 'klongloop': kl, 'closeEvent': CallbackEvent()}
        klong('client::0;nopen::0;nclosed::0;nerr::0')
        klong('.srv.o::{client::x;nopen::nopen+1}')
        if spec.get("handlers", True):
            klong('.srv.c::{[t];t::x;nclosed::nclosed+1}')
            klong('.srv.e::{[t];t::x;t::y;nerr::nerr+1}')
        reader = asyncio.StreamReader(loop=io)
        w = SrvWriter()
        h = ipc.TcpServerConnectionHandler(io, kl, klong)
        started = threading.Event()

        def start():
            KEEP.append((asyncio.ensure_future(h.handle_client(reader, w), loop=io), reader, w, h, klong, io, kl))
            started.set()
        io.call_soon_threadsafe(start)
        started.wait(2 * DEADLINE)
        events, notes, hung = [["connected"]], [], []
        done, outcome, reported, kinds = {}, {}, set(), {}
        kbusy = [None]

        def io_quiesce(rounds=8):
            for _ in range(rounds):
                e = threading.Event()
                io.call_soon_threadsafe(e.set)
                if not e.wait(4 * DEADLINE):
                    raise RuntimeError("io loop does not respond")
                if kbusy[0] is None or kbusy[0] in outcome:
                    e = threading.Event()
                    kl.call_soon_threadsafe(e.set)
                    e.wait(DEADLINE)        # a handler may be queued behind a blocked caller: that is what is being tested
        t0 = time.time()
        nc = None
        while time.time() - t0 < 2 * DEADLINE:
            io_quiesce(2)
            nc = klong['client']
            if isinstance(nc, ipc.NetworkClient):
                break
        if not isinstance(nc, ipc.NetworkClient):
            return {"error": "connection never announced to .srv.o"}

        def do_call(i):
            try:
                r = nc.call(("q", i))
                outcome[i] = ["ret", i, ["v", r[1]]] if isinstance(r, tuple) and len(r) == 2 and r[0] == "a" else ["ret", i, ["v", -1]]
            except BaseException as e:  # noqa
                word = {"KlongException": "notest", "AttributeError": "attr", "KlongIPCConnectionFailureException": "connfail",
                        "KGRemoteCloseConnectionException": "closeconn"}.get(type(e).__name__, "other")
                outcome[i] = ["raise", i, word]
            done[i].set()

        def sent_ids():
            return {f[1][1]: f[0] for f in w.frames if isinstance(f[1], tuple) and f[1] and f[1][0] == "q"}

        def collect(must):
            for i in sorted(done):
                if i in reported:
                    continue
                if i in must and not done[i].is_set():
                    if not (done[i].wait(DEADLINE) or done[i].wait(DEADLINE)):
                        if i not in hung:
                            hung.append(i)
                        continue
                if done[i].is_set():
                    reported.add(i)
                    events.append(outcome[i])
                    if kbusy[0] == i:
                        kbusy[0] = None
        lost = False
        for st in spec["steps"]:
            op = st[0]
            must = set()
            if op in ("kcall", "tcall"):
                i = st[1]
                if op == "kcall" and kbusy[0] is not None:
                    notes.append("kcall %d skipped: the klong loop is occupied" % i)
                    continue
                kinds[i] = op
                done[i] = threading.Event()
                events.append(["call", i])
                if op == "kcall":
                    kbusy[0] = i
                    kl.call_soon_threadsafe(do_call, i)
                else:
                    threading.Thread(target=do_call, args=(i,), daemon=True).start()
                t0 = time.time()
                while time.time() - t0 < 2 * DEADLINE and i not in sent_ids() and not done[i].is_set():
                    time.sleep(0.002)
                io_quiesce(3)
                if i in sent_ids():
                    events.append(["sent", i])
                else:
                    must.add(i)
            elif op == "resp":
                i = st[1]
                ids = sent_ids()
                if i not in ids or lost:
                    continue
                events.append(["resp", i, ["v", i]])
                io.call_soon_threadsafe(reader.feed_data, ipc.encode_message(uuid.UUID(bytes=ids[i]), ("a", i)))
                io_quiesce()
                must.add(i)
            elif op == "push":
                # a request from the peer while calls may be pending (not generated by default: see notes, re-entrancy)
                io.call_soon_threadsafe(reader.feed_data, ipc.encode_message(uuid.UUID(int=4242 + len(events)), "1+1"))
                io_quiesce()
            elif op in ("cut", "reset", "closereq"):
                if lost:
                    continue
                lost = True
                events.append(["loss"])
                if op == "cut":
                    part = {"between": 0, "id": 7, "len": 18, "body": 23}[st[1]]
                    data = ipc.encode_message(uuid.UUID(int=5), ("a", 123456789))[:part]
                    if data:
                        io.call_soon_threadsafe(reader.feed_data, data)
                    io.call_soon_threadsafe(reader.feed_eof)
                elif op == "reset":
                    def doit():
                        w.closed = True
                        reader.set_exception(ConnectionResetError("reset by peer"))
                    io.call_soon_threadsafe(doit)
                else:
                    io.call_soon_threadsafe(reader.feed_data, ipc.encode_message(uuid.UUID(int=99), ipc.KGRemoteCloseConnection()))
                io_quiesce()
                must |= set(done)
            collect(must)
        collect(set(done) if lost else set())
        blocked = [i for i in sorted(done) if not done[i].is_set()]
        res = {"events": events, "hung": hung, "blocked": blocked, "kinds": {str(i): k for i, k in kinds.items()}, "notes": notes,
               "handlers_ran": [int(klong['nopen']), int(klong['nerr']), int(klong['nclosed'])] if not hung else None}
        for lp, st_ in ((io, ios), (kl, kls)):
            try:
                lp.call_soon_threadsafe(st_.set)
            except Exception:
                pass
        return res

    def server_play(kinds):
        """a real server-side NetworkClient (TcpServerHandler.handle_client -> run_server) with a real interpreter on its own
        klong loop; the harness is the client at frame level"""
        from klongpy import KlongInterpreter
        from klongpy.core import KGSym
        from klongpy.utils import CallbackEvent
        io, iot, ios = setup_async_loop()
        kl, klt, kls = setup_async_loop()
        klong = KlongInterpreter()
        klong['.system'] = {'ioloop': io, 'klongloop': kl, 'closeEvent': CallbackEvent()}
        klong('double::{x*2}')

        def boom(x):
            raise {"klong": ipc.KlongException("evaluation failed"), "value": ValueError("v"), "key": KeyError("k"),
                   "stop": StopIteration(), "mystop": MyStop(), "custom": MyErr("c"), "base": MyBase("b")}[x]
        it = iter(())
        klong['boom'] = boom
        klong['parse'] = lambda x: int(x)
        klong['pyfn'] = lambda x: x
        klong['nextval'] = lambda: next(it)
        klong['lock'] = threading.Lock()
        F, S = ipc.KGRemoteFnCall, KGSym
        reqs = {
            "val_str": ("double(21)", 42), "val_call": (F(S("parse"), ["7"]), 7), "set": (ipc.KGRemoteDictSetCall(S("zz"), 5), None),
            "sym": (":abc", S("abc")),
            "fn_str": ("double", "fnref"), "fn_get": (ipc.KGRemoteDictGetCall(S("double")), "fnref"),
            "fn_py": (ipc.KGRemoteDictGetCall(S("pyfn")), "fnref"),
            "unpicklable": (ipc.KGRemoteDictGetCall(S("lock")), None),
            "klong": (F(S("boom"), ["klong"]), None), "syntax": ("1+", None), "value": (F(S("parse"), ["seven"]), None),
            "custom": (F(S("boom"), ["custom"]), None), "arity": (F(S("parse"), [1, 2, 3]), None),
            "key_nosuch": (F(S("nosuchfn"), [1]), None), "key": (F(S("boom"), ["key"]), None),
            "stop": (F(S("boom"), ["stop"]), None), "mystop": (F(S("boom"), ["mystop"]), None), "gen_exhausted": (F(S("nextval"), []), None),
            "base": (F(S("boom"), ["base"]), None),
        }
        reader = asyncio.StreamReader(loop=io)
        w = SrvWriter()
        h = ipc.TcpServerHandler()
        h.connection_handler = ipc.TcpServerConnectionHandler(io, kl, klong)
        started = threading.Event()

        def start():
            KEEP.append((asyncio.ensure_future(h.handle_client(reader, w), loop=io), reader, w, h, klong, io, kl))
            started.set()
        io.call_soon_threadsafe(start)
        started.wait(2 * DEADLINE)

        def quiesce():
            for _ in range(6):
                for lp in (io, kl, io):
                    e = threading.Event()
                    lp.call_soon_threadsafe(e.set)
                    if not e.wait(4 * DEADLINE):
                        raise RuntimeError("a loop does not respond")
        quiesce()
        observed, notes, hung = [], [], False
        silent_before = False
        for i, kind in enumerate(kinds):
            msg, want = reqs[kind]
            mid = uuid.UUID(int=(i + 1) * 0x1000001)
            if w.closed:
                observed.append("closed")
                continue
            n0 = len(w.frames)
            io.call_soon_threadsafe(reader.feed_data, ipc.encode_message(mid, msg))
            quiesce()
            must_react = (SERVER_KINDS[kind] != "base") and not silent_before
            if must_react and len(w.frames) == n0 and not w.closed:
                t0 = time.time()
                while time.time() - t0 < 2 * DEADLINE and len(w.frames) == n0 and not w.closed:
                    time.sleep(0.05)
                if len(w.frames) == n0 and not w.closed:
                    hung = True
            new = w.frames[n0:]
            if new:
                if len(new) != 1 or new[0][0] != mid.bytes:
                    notes.append("request %d (%s): frames written %r" % (i, kind, [(f[0] == mid.bytes, repr(f[1])[:40]) for f in new]))
                    observed.append("wrong")
                    continue
                body = new[0][1]
                if isinstance(body, ipc.KGRemoteFnRef):
                    observed.append("fnref")
                else:
                    ok = (want != "fnref") and (body == want if want is not None or kind == "set" else False)
                    if not ok:
                        notes.append("request %d (%s): response body %r, wanted %r" % (i, kind, body, want))
                        observed.append("wrong")
                    else:
                        observed.append("resp")
            elif w.closed:
                observed.append("teardown")
            else:
                observed.append("stuck" if silent_before else "nothing")
                silent_before = True
        for lp, st in ((io, ios), (kl, kls)):
            try:
                lp.call_soon_threadsafe(st.set)
            except Exception:
                pass
        return {"served": observed, "notes": notes, "hung": hung}

    sys.stderr = open(os.devnull, "w")
    import logging
    logging.disable(logging.CRITICAL)
    hangs = 0
    for line in sys.stdin:
        line = line.strip()
        if not line:
            continue
        job = json.loads(line)
        if hangs >= 2:
            # two callers already hung for the full deadline in this worker: the verdict is settled, do not spend
            # (deadline x remaining scripts) on more of the same
            sys.stdout.write(json.dumps({"skipped": True}) + "\n")
            sys.stdout.flush()
            continue
        try:
            if "server" in job:
                r = server_play(job["server"])
            elif "kloop" in job:
                r = kloop_play(job["kloop"])
            else:
                r = Play(job["script"]).run(set(job.get("expect_done", [])))
            if r.get("hung") or r.get("protocol_broken"):
                hangs += 1
        except Exception:
            import traceback
            r = {"error": traceback.format_exc()[-1500:]}
        sys.stdout.write(json.dumps(r) + "\n")
        sys.stdout.flush()
    os._exit(0)


def run_impl(jobs, workers=4):
    """jobs: list of {"script":…, "expect_done":[…]} -> list of results, same order"""
    if not jobs:
        return []
    env = dict(os.environ, PYTHONPATH=REPO + ":" + VERIF, PYTHONHASHSEED="0", C14_DEADLINE=str(DEADLINE))
    chunks = [jobs[i::workers] for i in range(workers)]
    procs = []
    for ch in chunks:
        if not ch:
            procs.append(None)
            continue
        p = subprocess.Popen([PY, "-W", "ignore", "-m", "harness.c14", "child"], stdin=subprocess.PIPE, stdout=subprocess.PIPE,
                             stderr=subprocess.DEVNULL, env=env, cwd=VERIF)
        procs.append(p)
    outs = [None] * len(chunks)

    def pump(i, p, ch):
        data = "".join(json.dumps(j) + "\n" for j in ch).encode()
        try:
            o, _ = p.communicate(data, timeout=60 + len(ch) * (4 * DEADLINE + 2))
        except subprocess.TimeoutExpired:
            p.kill()
            o, _ = p.communicate()
        outs[i] = o.decode().split("\n")
    ths = []
    for i, (p, ch) in enumerate(zip(procs, chunks)):
        if p is not None:
            t = threading.Thread(target=pump, args=(i, p, ch))
            t.start()
            ths.append(t)
    for t in ths:
        t.join()
    res = [None] * len(jobs)
    for i, ch in enumerate(chunks):
        lines = [l for l in (outs[i] or []) if l.strip()]
        for j in range(len(ch)):
            r = {"error": "driver produced no result"}
            if j < len(lines):
                try:
                    r = json.loads(lines[j])
                except ValueError:
                    r = {"error": "driver output not understood: " + lines[j][:200]}
            res[i + j * workers] = r
    return res


# =============================================================================================== comparison
def ev_sx(e):
    return sx(e)


def model_view(m):
    """parsed (ok (taken…) (hist…) (calls…) (pending…) (lst x) (writer b) (copen b) (running b) (check b) (prefix b) (quiescent b))"""
    d = {}
    for item in m[1:]:
        d[item[0]] = item[1:]
    return d


def done_calls(mv):
    return [k for k, p in enumerate(mv["calls"]) if isinstance(p, list) and p and p[0] == "done"]


def compare(script, mv, r):
    """model equality; returns None or a text"""
    mh = [sx(e) for e in mv["hist"]]
    ih = [sx(e) for e in r["events"]]
    if mh != ih:
        return "history differs: model %s / implementation %s" % (" ".join(mh), " ".join(ih))
    md = set(done_calls(mv))
    invoked = set(e[1] for e in r["events"] if e[0] == "call")
    blocked_model = sorted(k for k in invoked if k not in md)
    if blocked_model != r["blocked"]:
        return "blocked callers differ: model %r / implementation %r" % (blocked_model, r["blocked"])
    # futures left in pending_responses (R8's leak) are not the property's business as long as their callers are not
    # waiting: an implementation that also fails / drops late registrations is fine.  Compared only as "no blocked owner".
    stuck = [k for k in r["pending"] if k in r["blocked"] and k in md]
    if stuck:
        return "a registered future whose caller is still blocked: %r" % stuck
    lst = mv["lst"][0]
    lname = lst if isinstance(lst, str) else lst[0]
    if (lname == "exit") != r["exited"]:
        return "_run exit differs: model %s / implementation exited=%r" % (lname, r["exited"])
    if (mv["writer"][0] == 0) != r["writer_none"]:
        return "self.writer differs: model %r / implementation writer_none=%r" % (mv["writer"][0], r["writer_none"])
    if bool(mv["running"][0]) != r["running"] or bool(mv["copen"][0]) != r["is_open"]:
        return "running/is_open differ: model %r %r / implementation %r %r" % (mv["running"][0], mv["copen"][0], r["running"], r["is_open"])
    return None


def evaluate(chk, scripts, label="scripts"):
    """run model and implementation on the scripts; returns (property failures, correspondence failures)"""
    # phase 1: let the model drop steps that are not enabled
    outs = chk.run_model([model_request(s) for s in scripts])
    eff = []
    for s, o in zip(scripts, outs):
        if o[0] != "ok":
            raise RuntimeError("model rejected a script: %r %r" % (s, o))
        eff.append(effective(s, model_view(o)["taken"]))
    # de-duplicate
    seen, uniq = set(), []
    for s in eff:
        key = json.dumps([s["calls"], s["steps"], s.get("provider"), s.get("callbacks"), s.get("park")])
        if key not in seen:
            seen.add(key)
            uniq.append(s)
    outs = chk.run_model([model_request(s) for s in uniq])
    mvs = [model_view(o) for o in outs]
    jobs = [{"script": s, "expect_done": done_calls(mv)} for s, mv in zip(uniq, mvs)]
    res = run_impl(jobs)
    # the property's oracle: the verified checker on the OBSERVED history
    checks = chk.run_model([sx(["check", len(s["calls"]), r.get("events", [])]) if "events" in r else "(check 0 ())"
                            for s, r in zip(uniq, res)])
    # byte-level model equality: the chunks actually fed, decoded inside the model by C13's reader
    wire_idx = [i for i, (s, r) in enumerate(zip(uniq, res)) if "events" in r and not any(st[0] in ("cutpause", "resume") for st in s["steps"])]
    wire_out = dict(zip(wire_idx, chk.run_model([wire_request(uniq[i], res[i]) for i in wire_idx])))
    prop_fail, corr_fail, infra = [], [], []
    for idx, (s, mv, r, c) in enumerate(zip(uniq, mvs, res, checks)):
        if r.get("skipped"):
            chk.count("skipped_after_two_hangs_in_worker")
            continue
        chk.count("evaluations")
        chk.count("scripts_" + s["tag"])
        if "error" in r:
            infra.append({"script": s, "error": r["error"]})
            continue
        nontrivial = len(s["calls"]) >= 2 or any(st[0] in ("cut", "reset", "closereq", "cutpause") or st == ["push", "fail"] for st in s["steps"])
        if nontrivial:
            chk.count("distinct_nontrivial")
        chk.count("calls_completed", sum(1 for e in r["events"] if e[0] in ("ret", "raise", "noop")))
        cd = model_view(c) if c[0] == "ok" else {"check": [0], "prefix": [0]}
        ok_prop = c[0] == "ok" and cd["check"][0] == 1 and not r["hung"] and not r["blocked"]
        # a caller may still be waiting only while the server owes it an answer on a live connection
        # (request written, no response fed, nothing lost) -- decided from the observed history alone
        if c[0] == "ok" and cd["prefix"][0] == 1 and not r["hung"] and r["blocked"]:
            evs = r["events"]
            lost = any(e[0] == "loss" for e in evs)
            owed = [k for k in r["blocked"] if ["sent", k] in evs and not any(e[0] == "resp" and e[1] == k for e in evs)]
            if not lost and owed == r["blocked"]:
                ok_prop = True
        if not ok_prop:
            prop_fail.append({"script": s, "observed_history": [sx(e) for e in r["events"]], "hung": r["hung"], "blocked": r["blocked"],
                              "pending_responses": r["pending"], "run_exited": r["exited"], "notes": r["notes"],
                              "check_history": cd["check"][0], "model_history": [sx(e) for e in mv["hist"]]})
            continue
        if r["pending"]:
            chk.count("scripts_ending_with_leaked_futures_impl")      # R8: late registrations stay in pending_responses
        if mv["pending"]:
            chk.count("scripts_ending_with_leaked_futures_model")
        why = compare(s, mv, r)
        if why is None and idx in wire_out:
            wo = wire_out[idx]
            chk.count("byte_level_replays")
            chk.count("bytes_fed", sum(len(x[2]) // 2 for x in r["wire"]))
            if wo[0] != "ok":
                why = "byte-level model rejected the wire log: %r" % (wo,)
            elif [sx(e) for e in model_view(wo)["hist"]] != [sx(e) for e in r["events"]]:
                why = "byte-level history differs: model(bytes) %s / implementation %s" % (
                    " ".join(sx(e) for e in model_view(wo)["hist"]), " ".join(sx(e) for e in r["events"]))
        if why is None and r["notes"]:
            why = "driver notes: " + "; ".join(r["notes"])
        if why is not None:
            corr_fail.append({"script": s, "difference": why, "notes": r["notes"]})
        chk.sample({"calls": ["close" if c_ else "call" for c_ in s["calls"]], "steps": [" ".join(str(x) for x in st) for st in s["steps"]],
                    "history": " ".join(sx(e) for e in r["events"]), "tag": s["tag"]}, limit=6)
    return prop_fail, corr_fail, infra


def gen_kloop_scripts(rng, tier):
    """the server-side connection as a caller: calls from the klong-loop thread (k) and from other threads (t)"""
    out = []
    losses = [["cut", c] for c in CUT_CLASSES] + [["reset"], ["closereq"]]
    shapes = [["k"], ["t"], ["k", "t"], ["t", "k"], ["t", "t"], ["t", "k", "t"], ["k", "t", "t"]]
    li = 0
    for handlers in (True, False):
        for shape in shapes:
            for answered in ([], [0], [len(shape) - 1]):
                if tier == "quick" and not handlers and answered:
                    continue
                steps = []
                for i, kind in enumerate(shape):
                    if kind == "k" and any(shape[j] == "k" for j in range(i)):
                        continue
                    steps.append(["kcall" if kind == "k" else "tcall", i])
                    if i in answered and (kind == "k" or True):
                        steps.append(["resp", i])
                # a response only unblocks the klong loop if it is the klong caller's: answer in issue order where needed
                steps.append(list(losses[li % len(losses)]))
                li += 1
                n = len(shape)
                steps.append([rng.choice(["kcall", "tcall"]), n])
                out.append({"handlers": handlers, "steps": steps})
    return out


def kloop_model_request(spec):
    n = 1 + max([st[1] for st in spec["steps"] if st[0] in ("kcall", "tcall")] + [0])
    ms = [["connect", 1], ["collect"]]
    for st in spec["steps"]:
        if st[0] in ("kcall", "tcall"):
            ms += [["invoke", st[1]], ["reg", st[1]], ["sched", st[1]], ["send", st[1]]]
        elif st[0] == "resp":
            ms += [["resp", st[1], 1], ["settle"]]
        elif st[0] in ("cut", "reset", "closereq"):
            ms += [[st[0]], ["settle"]]
        else:
            continue
        ms.append(["collect"])
    return n, sx(["play", 1, [0] * n, ms])


def canon_prompt(evs):
    """after the loss the server side also closes its provider (handle_client's finally): `connection not established`
    instead of AttributeError -- both are the prompt failure the property asks for"""
    out, lost = [], False
    for e in evs:
        e = list(e)
        if e[0] == "loss":
            lost = True
        if lost and e[0] == "raise" and e[2] in ("attr", "notest"):
            e[2] = "prompt"
        out.append(sx(e))
    return out


KNOWN_REENTRANCY = {"handlers": True, "steps": [["kcall", 0], ["push"], ["resp", 0]]}


def evaluate_kloop(chk, specs):
    reqs = [kloop_model_request(sp) for sp in specs]
    outs = chk.run_model([r[1] for r in reqs])
    res = run_impl([{"kloop": sp} for sp in specs])
    # which callers are pending at the loss, and on which thread: the klong-loop model's verdict
    def pending_at_loss(sp):
        pend, kinds = [], {}
        for st in sp["steps"]:
            if st[0] in ("kcall", "tcall"):
                kinds[st[1]] = 1 if st[0] == "kcall" else 0
                pend.append(st[1])
            elif st[0] == "resp" and st[1] in pend:
                pend.remove(st[1])
            elif st[0] in ("cut", "reset", "closereq"):
                break
        return [kinds[i] for i in pend]
    kouts = chk.run_model([sx(["kloop", pending_at_loss(sp)]) for sp in specs])
    checks = chk.run_model([sx(["check", rq[0], r.get("events", [])]) if "events" in r else "(check 0 ())" for rq, r in zip(reqs, res)])
    prop_fail, corr_fail, infra = [], [], []
    for sp, rq, o, ko, r, c in zip(specs, reqs, outs, kouts, res, checks):
        if r.get("skipped"):
            chk.count("skipped_after_two_hangs_in_worker")
            continue
        chk.count("evaluations")
        chk.count("klong_loop_caller_scripts")
        if "error" in r or o[0] != "ok" or ko[0] != "ok":
            infra.append({"kloop": sp, "error": r.get("error", repr(o))})
            continue
        chk.count("distinct_nontrivial")
        mv = model_view(o)
        cd = model_view(c) if c[0] == "ok" else {"check": [0]}
        deadlock_model = model_view(ko)["deadlock"][0] == 1
        if r["hung"] or r["blocked"] or cd["check"][0] != 1:
            prop_fail.append({"kloop": sp, "observed_history": [sx(e) for e in r["events"]], "hung": r["hung"], "blocked": r["blocked"],
                              "callers": r["kinds"], "klong_loop_model_predicts_deadlock": deadlock_model, "notes": r["notes"]})
            continue
        why = None
        if canon_prompt(mv["hist"]) != canon_prompt(r["events"]):
            why = "history differs: model %s / implementation %s" % (" ".join(canon_prompt(mv["hist"])), " ".join(canon_prompt(r["events"])))
        elif deadlock_model:
            why = "the klong-loop model predicts a deadlock after the loss but every caller returned"
        elif r["notes"]:
            why = "driver notes: " + "; ".join(r["notes"])
        if why:
            corr_fail.append({"kloop": sp, "difference": why})
        chk.sample({"klong_loop_caller_script": [" ".join(str(x) for x in st) for st in sp["steps"]], "handlers": sp["handlers"],
                    "history": " ".join(sx(e) for e in r["events"])}, limit=10)
    return prop_fail, corr_fail, infra


def replay_known_reentrancy(chk):
    """KNOWN FINDING: a call pending from the klong loop + a request of the peer read before its response"""
    r = run_impl([{"kloop": KNOWN_REENTRANCY}], workers=1)[0]
    chk.count("known_finding_replays")
    if "error" in r:
        raise RuntimeError("known-finding replay failed: %s" % r["error"])
    if r["hung"] == [0] or r["blocked"] == [0]:
        chk.finding("C14-klong-reentrancy", "a call issued from the klong-loop thread waits forever when the peer's request is read before its response",
                    {"kloop": KNOWN_REENTRANCY, "observed": r})
        return None
    # the implementation no longer deadlocks there although the model (C14_klong_reentrancy_refuted) says it does
    return {"kloop": KNOWN_REENTRANCY, "difference": "the re-entrancy deadlock predicted by C14_klong_reentrancy_refuted did not occur", "observed": r}


def evaluate_server(chk, seqs):
    """the server half: real handle_client/run_server/execute_server_command against `serve` of the extracted model"""
    seen, uniq = set(), []
    for q in seqs:
        if tuple(q) not in seen:
            seen.add(tuple(q))
            uniq.append(q)
    outs = chk.run_model([sx(["srv", [SERVER_KINDS[k] for k in q]]) for q in uniq])
    res = run_impl([{"server": q} for q in uniq])
    prop_fail, corr_fail, infra = [], [], []
    for q, o, r in zip(uniq, outs, res):
        if r.get("skipped"):
            chk.count("skipped_after_two_hangs_in_worker")
            continue
        chk.count("evaluations")
        chk.count("server_sequences")
        if "error" in r or o[0] != "ok":
            infra.append({"server_requests": q, "error": r.get("error", repr(o))})
            continue
        chk.count("distinct_nontrivial")
        chk.count("server_requests", len(q))
        mv = model_view(o)
        served = r["served"]
        bad = None
        in_dom = True
        for i, (k, sv) in enumerate(zip(q, served)):
            in_dom = in_dom and SERVER_KINDS[k] != "base"
            if sv == "wrong":
                bad = "request %d (%s) was answered with something that is not its own answer" % (i, k)
                break
            if sv in ("nothing", "stuck") and in_dom:
                bad = "request %d (%s): the server neither answers nor closes the connection (the caller waits forever)" % (i, k)
                break
        if bad is not None:
            prop_fail.append({"server_requests": q, "outcome_classes": [SERVER_KINDS[k] for k in q], "observed": served,
                              "model": mv["served"], "what": bad, "notes": r["notes"]})
            continue
        if served != mv["served"]:
            corr_fail.append({"server_requests": q, "difference": "server half differs: model %r / implementation %r" % (mv["served"], served),
                              "notes": r["notes"]})
        chk.sample({"server_requests": q, "served": served}, limit=8)
    return prop_fail, corr_fail, infra


def run(tier, replay=None):
    chk = Check("C14", tier)
    rng = random.Random(chk.seed * 7919 + 14)
    chk.generate(generate())
    chk.build_model()
    hits = forbidden_scan("C14")
    proof = chk.build_proofs()
    if hits:
        proof["ok"] = False
        proof["error"] = "forbidden declarations: %r" % hits
        proof["broken"] = hits[0]
    scripts = gen_scripts(rng, tier)
    prop_fail, corr_fail, infra = evaluate(chk, scripts)
    spf, scf, sinfra = evaluate_server(chk, gen_server_sequences(rng, tier))
    infra += sinfra
    kpf, kcf, kinfra = evaluate_kloop(chk, gen_kloop_scripts(rng, tier))
    infra += kinfra
    known_diff = replay_known_reentrancy(chk)
    if known_diff is not None:
        kcf.append(known_diff)
    if infra:
        raise RuntimeError("implementation driver failed on %d scripts, first: %s" % (len(infra), json.dumps(infra[0])[:1500]))
    for pf in spf[:2]:
        chk.violation("server half: %s in request sequence %r" % (pf["what"], pf["server_requests"]), pf)
    for pf in kpf[:2]:
        chk.violation("a caller of the server-side connection is left waiting forever (calls %r; callers %r) in [%s]"
                      % (pf["hung"] or pf["blocked"], pf["callers"], " ; ".join(" ".join(str(x) for x in st) for st in pf["kloop"]["steps"])), pf)
    corr_fail += scf + kcf
    searched = False
    if not prop_fail and not spf and not kpf and (corr_fail or not proof["ok"]) and tier == "quick":
        # something no longer checks: look harder for a concrete failing history (the thorough universe)
        searched = True
        more = gen_scripts(random.Random(chk.seed * 7919 + 15), "thorough")
        rng.shuffle(more)
        pf2, cf2, _ = evaluate(chk, more[:600])
        prop_fail += pf2
        corr_fail += cf2
    for pf in prop_fail[:3]:
        hung = pf["hung"] or pf["blocked"]
        what = ("a caller is left waiting forever (calls %r) " % hung) if hung else "the observed history fails check_history "
        chk.violation(what + "in schedule [%s]" % " ; ".join(" ".join(str(x) for x in st) for st in pf["script"]["steps"]), pf)
    if not chk.violations:
        if corr_fail:
            chk.violation("correspondence between NetworkClient and the Coq model broke (%s); no failing history of the property found in %d scripts"
                          % (corr_fail[0]["difference"][:300], chk.counters.get("evaluations", 0)),
                          {"broken": "correspondence C14/Model.v", "detail": corr_fail[0], "more": len(corr_fail)}, no_input=True)
        elif not proof["ok"]:
            chk.violation("proof obligation no longer checks: %s" % proof["broken"],
                          {"broken_obligation": proof["broken"], "coq_error": proof["error"], "generated": chk.generated_text}, no_input=True)
    return chk.finish(
        rule="scripts = schedules of the atomic steps of <=3 calls (invoke / register / schedule+send, gated inside the real code) interleaved with "
             "environment steps (response frames in every arrival order and fragmentation, duplicates, server pushes, EOF inside id/length/body/"
             "between frames, reset, server-initiated close, failing dispatch, close() acks, a registration inside the cleanup loop), each played "
             "out to a maximal run; calls racing run_client() before connect() returns (which then succeeds or raises), with both providers; failing on_error/on_close callbacks in a quarter of the scripts; "
             "on_error/on_close callbacks parked on harness gates with calls issued inside the handler window and inside the finally window (family callback-window); "
             "every script without a cleanup pause is also replayed at BYTE level (the chunks actually fed, decoded by C13's reader inside the model); server half = request sequences on a real handle_client/run_server with a real interpreter, one request kind per evaluation "
             "outcome class (values, functions, unpicklable value, KlongException, syntax error, ValueError, user Exception, arity error, unknown symbol, KeyError, "
             "StopIteration, StopIteration subclass, exhausted iterator, BaseException) each followed by a further request; klong-loop callers = real handle_client with .srv.* handlers, "
             "calls issued from the klong-loop thread and from other threads, pending or answered when the stream is cut / reset / closed by the peer, then a later call; distinct = distinct effective script after the model dropped disabled steps; non-trivial = >=2 calls or a fault",
        trusted_base=TRUSTED, assumptions=ASSUME,
        extra={"traces_validated_against_impl": chk.counters.get("evaluations", 0), "wider_search_ran": searched})


def replay(path):
    body = json.load(open(path))
    rp = body.get("replay", {})
    print(json.dumps(body, indent=1)[:3000])
    s = rp.get("script")
    if rp.get("kloop"):
        r = run_impl([{"kloop": rp["kloop"]}], workers=1)[0]
        print("expected: every caller returns or raises within the deadline")
        print("actual (implementation): %s" % json.dumps(r))
        return 0
    if rp.get("server_requests"):
        chk = Check("C14", "quick")
        chk.generate(generate())
        chk.build_model()
        q = rp["server_requests"]
        o = chk.run_model([sx(["srv", [SERVER_KINDS[k] for k in q]])])[0]
        r = run_impl([{"server": q}], workers=1)[0]
        print("expected (model): %s" % sx(o))
        print("actual (implementation): %s" % json.dumps(r))
        return 0
    if not s:
        return 0
    chk = Check("C14", "quick")
    chk.generate(generate())
    chk.build_model()
    o = chk.run_model([model_request(s)])[0]
    mv = model_view(o)
    r = run_impl([{"script": s, "expect_done": done_calls(mv)}], workers=1)[0]
    print("expected (model): history=%s quiescent=%s check_history=%s" % (" ".join(sx(e) for e in mv["hist"]), mv["quiescent"][0], mv["check"][0]))
    print("actual (implementation): %s" % json.dumps(r))
    c = chk.run_model([sx(["check", len(s["calls"]), r.get("events", [])])])[0]
    print("check_history(observed) = %s, hung=%r blocked=%r" % (model_view(c)["check"][0], r.get("hung"), r.get("blocked")))
    return 0


if __name__ == "__main__":
    if len(sys.argv) > 1 and sys.argv[1] == "child":
        child_main()
