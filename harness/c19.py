"""C19 — a table holds exactly the rows inserted into it, in the documented order.

Link 1 (Coq): coq/C19/Properties.v — the buffered pandas-backed Table of klongpy/db/sys_fn_db.py
(Model.v) refines the unbuffered list / finite-map spec (Spec.v) for every operation sequence.
Link 2 (here): operation sequences through the Klong-level API (.table .insert .index .rindex
t?c #t .schema t,"c",,v db(sql)) on the real code vs the extracted model and the extracted spec.
"""
import ast
import json
import os
import random
import sys

from . import astlib
from .astlib import ShapeError
from .common import Check, sx, forbidden_scan, VERIF, REPO

TRUSTED = [
    "Coq 8.16.1 kernel (coqc); vm_compute only in Examples and _refuted witnesses",
    "Print Assumptions: all C19 theorems closed under the global context (no axioms)",
    "translator harness/c19.py:generate (Python ast): which Table methods commit before touching the frame, "
    "the keep-last de-duplication of buffered keys, the buffer discipline (append/extend/clear) and the Klong wrappers",
    "extraction: ExtrOcamlBasic only; Z kept as inductive; ocaml/driver.ml",
    "correspondence harness: case generator, canonicalisation of Klong/numpy/pandas results (numbers in quarters, strings as code points)",
]
ASSUME = [
    "pandas sort_index is a stable sort by key (modelled as insertion sort; order among EQUAL keys is outside the property's domain; nothing is compared after a sequence leaves the domain)",
    "pandas drop_duplicates()/drop_duplicates(subset, keep='last') keep the first/last of equal rows/keys and preserve order (modelled, sampled)",
    "pandas df.loc[common] = b.loc[common] overwrites every frame row whose key is in b and raises when b holds that key twice (modelled, sampled)",
    "np.concatenate of frame values and buffered rows appends the rows in buffer order; dtype coercion (int column -> float/object) is not modelled: cells are compared by value (1 = 1.0)",
    "DuckDB is not modelled: `select *`, column projections and `count(*)` are taken to scan the committed frame in row order; result shape follows ndarray.squeeze()",
    "numbers are multiples of 0.25 in the generators so that int and float64 columns are exact; mixed-type key columns are not generated",
]

DB = "klongpy/db/sys_fn_db.py"


# ---------------------------------------------------------------- translator
def _is_self_call(n, names):
    return (isinstance(n, ast.Call) and isinstance(n.func, ast.Attribute) and n.func.attr in names
            and isinstance(n.func.value, ast.Name) and n.func.value.id == "self")


def _touches_df(n):
    return (isinstance(n, ast.Attribute) and n.attr == "_df" and isinstance(n.value, ast.Name) and n.value.id == "self")


def commits_first(fn):
    """True iff the first top-level statement of fn that touches self._df or calls commit()/get_dataframe()
    is a straight-line statement containing such a call."""
    for st in astlib.body_no_doc(fn):
        call = any(_is_self_call(n, ("commit", "get_dataframe")) for n in ast.walk(st))
        touch = any(_touches_df(n) for n in ast.walk(st))
        if call or touch:
            if not isinstance(st, (ast.Assign, ast.Expr, ast.Return, ast.AnnAssign)):
                raise ShapeError("%s: first frame access is inside a compound statement" % fn.name)
            return call
    raise ShapeError("%s: no access to the frame found" % fn.name)


def _unparse_body(fn):
    return [ast.unparse(s) for s in astlib.body_no_doc(fn)]


def generate():
    out = []

    def flag(name, f):
        v, why = astlib.try_flag(f)
        out.append("Definition %s : bool := %s.%s" % (name, astlib.coq_bool(bool(v)),
                                                       "" if why is None else "  (* shape not recognised: %s *)" % why))

    def table():
        return astlib.find_class(astlib.module(DB), "Table")

    flag("get_commits", lambda: commits_first(astlib.find_func(table(), "get")))
    flag("set_commits", lambda: commits_first(astlib.find_func(table(), "set")))
    flag("len_commits", lambda: commits_first(astlib.find_func(table(), "__len__")))

    def db_commits():
        cls = astlib.find_class(astlib.module(DB), "Database")
        fn = astlib.find_func(cls, "__call__")
        loops = [n for n in astlib.body_no_doc(fn) if isinstance(n, ast.For)]
        if len(loops) != 1 or ast.unparse(loops[0].iter) != "self.tables.items()":
            raise ShapeError("Database.__call__: one loop over self.tables.items() expected")
        tgt = loops[0].target
        if not (isinstance(tgt, ast.Tuple) and len(tgt.elts) == 2 and isinstance(tgt.elts[1], ast.Name)):
            raise ShapeError("Database.__call__: loop target")
        v = tgt.elts[1].id
        body = loops[0].body
        if len(body) != 1 or not isinstance(body[0], ast.Assign):
            raise ShapeError("Database.__call__: loop body")
        # the execute() must come after the loop
        idx = astlib.body_no_doc(fn).index(loops[0])
        if any(astlib.calls_in(s, "execute") for s in astlib.body_no_doc(fn)[:idx]):
            raise ShapeError("Database.__call__: execute before the frames are bound")
        return ast.unparse(body[0].value) == "%s.get_dataframe()" % v
    flag("db_commits", db_commits)
    flag("index_commits", lambda: commits_first(astlib.find_func(table(), "set_index")))
    flag("rindex_commits", lambda: commits_first(astlib.find_func(table(), "reset_index")))

    def dedup():
        fn = astlib.find_func(table(), "commit")
        ifs = [n for n in astlib.body_no_doc(fn) if isinstance(n, ast.If) and ast.unparse(n.test) == "self.has_index()"]
        if len(ifs) != 1:
            raise ShapeError("commit: one `if self.has_index()` expected")
        seen = False
        for st in ifs[0].body:
            for c in astlib.calls_in(st, "drop_duplicates"):
                kw = {k.arg: ast.unparse(k.value) for k in c.keywords}
                if kw.get("subset") == "self.idx_cols" and kw.get("keep") == "'last'" and \
                        "buffer_df" in ast.unparse(c.func):
                    seen = True
            if astlib.calls_in(st, "_create_index_from_cols"):
                return seen
        raise ShapeError("commit: _create_index_from_cols not called in the indexed branch")
    flag("dedup_last_key", dedup)

    def buffer_shape():
        t = table()
        ok = _unparse_body(astlib.find_func(t, "insert")) == ["self.buffer.append(y)"]
        ok &= _unparse_body(astlib.find_func(t, "insertb")) == ["self.buffer.extend(y)"]
        cb = astlib.body_no_doc(astlib.find_func(t, "commit"))
        ok &= ast.unparse(cb[0]) == "if not self.buffer:\n    return"
        ok &= ast.unparse(cb[-1]) == "self.buffer = []"
        ok &= sum(1 for n in ast.walk(astlib.find_func(t, "commit")) if isinstance(n, ast.Attribute) and n.attr == "buffer"
                  and isinstance(n.ctx, ast.Store)) == 1
        ok &= _unparse_body(astlib.find_func(t, "get_dataframe")) == ["self.commit()", "return self._df"]
        ok &= _unparse_body(astlib.find_func(t, "has_index"))[-1] == "return self.idx_cols is not None"
        init = ast.unparse(astlib.find_func(t, "__init__"))
        ok &= "self.buffer = []" in init and "self.idx_cols = None" in init
        return ok
    flag("buffer_shape_ok", buffer_shape)

    def wrappers():
        m = astlib.module(DB)
        t = table()
        ok = _unparse_body(astlib.find_func(t, "__getitem__")) == ["return self.get(x)"]
        ok &= _unparse_body(astlib.find_func(t, "__setitem__")) == ["return self.set(x, y)"]
        ins = ast.unparse(astlib.find_func(m, "eval_sys_fn_insert_table"))
        ok &= "batch = len(y.shape) > 1" in ins and "y_cols = len(y[0]) if batch else len(y)" in ins
        ok &= "if y_cols != len(x.columns):\n        raise" in ins
        ok &= "if batch:\n        x.insertb(y)\n    else:\n        x.insert(y)" in ins
        idx = ast.unparse(astlib.find_func(m, "eval_sys_fn_index"))
        ok &= "if x.has_index():\n        raise" in idx and "x.set_index(list(y))" in idx
        # the wrapper validates EVERY index column before anything is mutated
        ifn = astlib.find_func(m, "eval_sys_fn_index")
        loops = [n for n in astlib.body_no_doc(ifn) if isinstance(n, ast.For)]
        ok &= len(loops) == 1 and ast.unparse(loops[0]).startswith("for q in y:\n    if q not in x.columns:\n        raise")
        ok &= bool(loops) and all(not astlib.calls_in(st, "set_index") for st in astlib.body_no_doc(ifn)[:astlib.body_no_doc(ifn).index(loops[0]) + 1])
        ok &= bool(loops) and any(astlib.calls_in(st, "set_index") for st in astlib.body_no_doc(ifn)[astlib.body_no_doc(ifn).index(loops[0]) + 1:])
        rix = ast.unparse(astlib.find_func(m, "eval_sys_fn_reset_index"))
        ok &= "if x.has_index():\n        x.reset_index()\n        return 1\n    return 0" in rix
        d = astlib.module("klongpy/dyads.py")
        find = ast.unparse(astlib.find_func(d, "eval_dyad_find"))
        ok &= "elif is_dict(a):\n        v = a.get(b)" in find
        join = ast.unparse(astlib.find_func(d, "eval_dyad_join"))
        ok &= "if isinstance(a, dict):\n        a[b[0]] = b[1]\n        return a" in join
        return ok
    flag("wrappers_shape_ok", wrappers)
    return "\n".join(out) + "\n"


# ---------------------------------------------------------------- cases
# a cell is ("n", quarters) or ("s", text); a case = dict(cols=[names], types=[i|r|s], rows=[[cell]], ops=[op])
INTS = [-2, 0, 1, 2, 3, 5, 7]
REALS = [-6, 1, 2, 5, 6, 10, 13]          # quarters: -1.5 0.25 0.5 1.25 1.5 2.5 3.25
STRS = ["", "a", "b", "ab", "B", "zz", "é", "k9"]
NAMES = ["a", "b", "c", "k", "s", "v", "w", "u"]


def gen_cell(rng, ty):
    if ty == "i":
        return ("n", 4 * rng.choice(INTS))
    if ty == "r":
        return ("n", rng.choice(REALS))
    return ("s", rng.choice(STRS))


class PySpec:
    """pure-Python list-of-rows reference (generation aid and cross-check of the extracted Spec.v)"""

    def __init__(self, cols, rows):
        self.cols, self.rows, self.idx = list(cols), [list(r) for r in rows], None

    @staticmethod
    def ck(c):
        return (0, c[1], "") if c[0] == "n" else (1, 0, c[1])

    def key(self, r, idx=None):
        idx = self.idx if idx is None else idx
        return tuple(self.ck(r[self.cols.index(c)]) for c in idx)

    def insert(self, r):
        if self.idx is None:
            self.rows.append(list(r))
        else:
            k = self.key(r)
            self.rows = [x for x in self.rows if self.key(x) != k] + [list(r)]
            self.rows.sort(key=self.key)

    @staticmethod
    def squeeze(width, rows):
        if not rows:
            return ["cells"]
        if len(rows) == 1:
            return ["cell", rows[0][0]] if len(rows[0]) == 1 else ["cells"] + rows[0]
        if width == 1:
            return ["cells"] + [r[0] for r in rows]
        return ["rows"] + rows

    def dom(self, op):
        k = op[0]
        if k == "index" and self.idx is None and all(c in self.cols for c in op[1]):
            ks = [self.key(r, op[1]) for r in self.rows]
            return len(set(ks)) == len(ks)
        if k == "set" and self.idx is not None:
            return op[1] not in self.idx
        return True

    def step(self, op):
        k = op[0]
        if k == "ins":
            if len(op[1]) != len(self.cols):
                return ["err"]
            self.insert(op[1])
            return ["unit"]
        if k == "insb":
            if not op[1] or len(op[1][0]) != len(self.cols):
                return ["err"]
            for r in op[1]:
                self.insert(r)
            return ["unit"]
        if k == "read":
            if op[1] not in self.cols:
                return ["undef"]
            i = self.cols.index(op[1])
            return ["cells"] + [r[i] for r in self.rows]
        if k == "count":
            return ["int", len(self.rows)]
        if k == "schema":
            return ["names"] + self.cols
        if k == "index":
            if self.idx is not None or not all(c in self.cols for c in op[1]):
                return ["err"]
            self.idx = list(op[1])
            rows, self.rows = self.rows, []
            for r in rows:
                self.insert(r)
            return ["names"] + list(op[1])
        if k == "rindex":
            if self.idx is None:
                return ["int", 0]
            self.idx = None
            return ["int", 1]
        if k == "set":
            if len(op[2]) != len(self.rows):
                return ["err"]
            if op[1] in self.cols:
                i = self.cols.index(op[1])
                for r, v in zip(self.rows, op[2]):
                    r[i] = v
            else:
                self.cols.append(op[1])
                for r, v in zip(self.rows, op[2]):
                    r.append(v)
            return ["unit"]
        if k == "qall":
            return self.squeeze(len(self.cols), [list(r) for r in self.rows])
        if k == "qcount":
            return ["int", len(self.rows)]
        if k == "qcols":
            if not op[1] or not all(c in self.cols for c in op[1]):
                return ["err"]
            ps = [self.cols.index(c) for c in op[1]]
            return self.squeeze(len(ps), [[r[i] for i in ps] for r in self.rows])
        raise ValueError(k)


class TableGen:
    """generator of operations on ONE table, driven by the python reference"""

    def __init__(self, rng, stay_in_domain=0.85):
        self.rng, self.stay = rng, stay_in_domain
        ncols = rng.choice([1, 2, 2, 3, 3, 4])
        self.cols0 = rng.sample(NAMES[:6], ncols)
        self.types0 = [rng.choice("iirs") for _ in self.cols0]
        if rng.random() < 0.3:
            self.types0 = ["i"] * ncols
        nrows = rng.choice([0, 0, 1, 2, 3, 4])
        self.rows0 = [[gen_cell(rng, t) for t in self.types0] for _ in range(nrows)]
        self.spec = PySpec(self.cols0, self.rows0)
        self.tys = dict(zip(self.cols0, self.types0))
        self.want_index = rng.random() < 0.7

    def table(self):
        return {"cols": self.cols0, "types": self.types0, "rows": self.rows0}

    def next_op(self):
        """one operation (already applied to the reference), or None when the draw is rejected"""
        rng, spec, tys = self.rng, self.spec, self.tys
        r = rng.random()
        cur = spec.cols
        ty = None

        def newrow():
            row = [gen_cell(rng, tys[c]) for c in cur]
            # re-use an existing key often
            if spec.rows and rng.random() < 0.45:
                src = rng.choice(spec.rows)
                kc = spec.idx if spec.idx is not None else cur[:1]
                for c in kc:
                    row[cur.index(c)] = src[cur.index(c)]
            return row
        if r < 0.34:
            row = newrow()
            if rng.random() < 0.04:
                row = row[:-1] if rng.random() < 0.5 else row + [gen_cell(rng, "i")]
            op = ("ins", row)
        elif r < 0.46:
            k = rng.randint(1, 3)
            rs = [newrow() for _ in range(k)]
            if rng.random() < 0.3 and k > 1:
                rs[-1] = list(rs[0][:])          # same key twice in one batch
                rs[-1][-1] = gen_cell(rng, tys[cur[-1]])
            if rng.random() < 0.03:
                rs = [x[:-1] for x in rs] if len(cur) > 1 else [x + x for x in rs]
            op = ("insb", rs)
        elif r < 0.58:
            op = ("read", rng.choice(cur) if rng.random() < 0.93 else "zz")
        elif r < 0.65:
            op = ("count",)
        elif r < 0.68:
            op = ("schema",)
        elif r < 0.78:
            if not self.want_index and rng.random() < 0.7:
                return None
            k = 1 if (len(cur) == 1 or rng.random() < 0.6) else 2
            cs = rng.sample(cur, k)
            q = rng.random()
            if q < 0.04:
                cs = ["q"]                                   # the only name is unknown
            elif q < 0.10:
                cs = [rng.choice(cur), "zz"]                 # rejected on its SECOND name
            elif q < 0.14:
                cs = ["zz", rng.choice(cur)]                 # rejected on its first name
            op = ("index", cs)
        elif r < 0.83:
            op = ("rindex",)
        elif r < 0.89:
            free = [x for x in NAMES if x not in cur]
            nm = rng.choice(free) if (free and rng.random() < 0.8) else rng.choice(cur)
            ty = tys.get(nm) or rng.choice("irs")
            # (pandas lets a column of ANY length be assigned to a frame without rows; that corner is not modelled and not generated)
            ln = len(spec.rows) if (rng.random() < 0.9 or not spec.rows) else len(spec.rows) + rng.choice([-1, 1])
            op = ("set", nm, [gen_cell(rng, ty) for _ in range(ln)])
            if len(cur) >= 6 and nm not in cur:
                return None
        else:
            q = rng.random()
            if q < 0.45:
                op = ("qall",)
            elif q < 0.65:
                op = ("qcount",)
            else:
                k = rng.randint(1, min(3, len(cur)))
                cs = rng.sample(cur, k)
                if rng.random() < 0.05:
                    cs = cs + ["nope"]
                op = ("qcols", cs)
        if not spec.dom(op) and rng.random() < self.stay:
            return None
        res = spec.step(op)
        if op[0] == "set" and res == ["unit"]:
            tys.setdefault(op[1], ty)
        return op


def gen_case(rng, maxlen, stay_in_domain=0.85):
    g = TableGen(rng, stay_in_domain)
    ops = []
    n = rng.randint(1, maxlen)
    while len(ops) < n:
        op = g.next_op()
        if op is not None:
            ops.append(op)
    return dict(g.table(), ops=ops)


def gen_multi(rng, maxlen, stay_in_domain=0.9):
    """2-3 tables in ONE database; operations interleaved over the tables, .schema(db), queries on an unknown table"""
    k = rng.choice([2, 2, 3])
    gens = [TableGen(rng, stay_in_domain) for _ in range(k)]
    ops = []
    n = rng.randint(2, maxlen)
    while len(ops) < n:
        r = rng.random()
        if r < 0.04:
            ops.append(["dschema"])
            continue
        if r < 0.07:
            ops.append([7, ("qall",) if rng.random() < 0.5 else ("qcount",)])      # no table T7 in the database
            continue
        i = rng.randrange(k)
        op = gens[i].next_op()
        if op is not None:
            ops.append([i, op])
    return {"tables": [g.table() for g in gens], "ops": ops}


def fixed_cases():
    """always-run cases: the histories of DESIGN R13 and of the stale-read defect, plus the repo's documented examples"""
    n = lambda v: ("n", 4 * v)
    ab = {"cols": ["a", "b"], "types": ["i", "i"], "rows": [[n(1), n(2)], [n(2), n(3)], [n(3), n(4)]]}
    out = []
    out.append(dict(ab, ops=[("index", ["a"]), ("ins", [n(9), n(1)]), ("ins", [n(9), n(2)]), ("count",), ("qall",)], tag="R13-new-key-twice"))
    out.append(dict(ab, ops=[("index", ["a"]), ("ins", [n(2), n(1)]), ("ins", [n(2), n(2)]), ("count",), ("qall",)], tag="R13-existing-key-twice"))
    out.append(dict(ab, ops=[("index", ["a"]), ("insb", [[n(2), n(1)], [n(7), n(7)], [n(2), n(5)]]), ("read", "b"), ("qall",)], tag="R13-batch"))
    out.append(dict(ab, ops=[("ins", [n(4), n(5)]), ("read", "a"), ("count",), ("read", "a")], tag="read-after-insert"))
    out.append(dict(ab, ops=[("ins", [n(4), n(5)]), ("set", "c", [n(1), n(2), n(3), n(4)]), ("qall",), ("ins", [n(5), n(5), n(5)]), ("count",)], tag="set-after-insert"))
    out.append(dict(ab, ops=[("index", ["a"]), ("ins", [n(0), n(5)]), ("read", "a"), ("read", "b")], tag="indexed-read-after-insert"))
    out.append(dict(ab, ops=[("ins", [n(2), n(3)]), ("index", ["a", "b"]), ("rindex",), ("qall",)], tag="index-drops-equal-rows"))
    # rejected operations leave no trace: .index rejected on its second / first / only name, a row of the wrong width,
    # an unknown column, an added column of the wrong length - each followed by inserts and reads
    out.append(dict(ab, ops=[("index", ["a", "zz"]), ("schema",), ("qall",), ("ins", [n(4), n(5)]), ("count",), ("read", "a"), ("qall",),
                             ("index", ["zz", "b"]), ("ins", [n(5), n(6)]), ("read", "b"), ("index", ["q"]), ("ins", [n(1)]), ("ins", [n(1), n(2), n(3)]),
                             ("read", "nosuch"), ("set", "c", [n(1)]), ("schema",), ("ins", [n(6), n(7)]), ("qall",),
                             ("index", ["a"]), ("index", ["b"]), ("ins", [n(0), n(0)]), ("index", ["a", "zz"]), ("read", "a"), ("rindex",), ("qcount",)],
                    tag="rejected-operations"))
    # two tables in one database: buffered inserts into BOTH, then a query on one of them, then reads of the other
    g = {"cols": ["c"], "types": ["i"], "rows": [[n(3)], [n(4)]]}
    out.append({"tables": [dict(ab), g], "tag": "two-tables",
                "ops": [[0, ("ins", [n(4), n(5)])], [1, ("ins", [n(5)])], [1, ("index", ["c"])], [1, ("ins", [n(0)])], [0, ("qall",)],
                        ["dschema"], [1, ("read", "c")], [0, ("set", "z", [n(1), n(1), n(1), n(1)])], ["dschema"], [1, ("qcount",)], [7, ("qall",)], [0, ("count",)]]})
    return out


# ---------------------------------------------------------------- model side
def sx_cell(c):
    return ["n", c[1]] if c[0] == "n" else ["s"] + [ord(ch) for ch in c[1]]


def sx_name(s):
    return [ord(ch) for ch in s]


def sx_op(op):
    k = op[0]
    if k == "ins":
        return ["ins", [sx_cell(c) for c in op[1]]]
    if k == "insb":
        return ["insb", [[sx_cell(c) for c in r] for r in op[1]]]
    if k == "read":
        return ["read", sx_name(op[1])]
    if k in ("count", "schema", "rindex", "qall", "qcount"):
        return [k]
    if k == "index":
        return ["index", [sx_name(c) for c in op[1]]]
    if k == "set":
        return ["set", sx_name(op[1]), [sx_cell(c) for c in op[2]]]
    if k == "qcols":
        return ["qcols", [sx_name(c) for c in op[1]]]
    raise ValueError(k)


def sx_case(case, flags="impl"):
    f = ["impl"] if flags == "impl" else ["flags"] + [int(b) for b in flags]
    return sx(["run", f, [sx_name(c) for c in case["cols"]], [[sx_cell(c) for c in r] for r in case["rows"]],
               [sx_op(o) for o in case["ops"]]])


def sx_multi(case, flags="impl"):
    f = ["impl"] if flags == "impl" else ["flags"] + [int(b) for b in flags]
    tbls = [[[sx_name(c) for c in t["cols"]], [[sx_cell(c) for c in r] for r in t["rows"]]] for t in case["tables"]]
    ops = [["dschema"] if o[0] == "dschema" else [o[0], sx_op(o[1])] for o in case["ops"]]
    return sx(["runm", f, tbls, ops])


def un_cell(x):
    return ("n", x[1]) if x[0] == "n" else ("s", "".join(chr(c) for c in x[1:]))


def un_obs(x):
    """parsed model/spec observation -> the same python form the implementation side produces"""
    t = x[0]
    if t in ("unit", "err", "undef"):
        return [t]
    if t == "int":
        return ["int", x[1]]
    if t == "cell":
        return ["cell", un_cell(x[1])]
    if t == "cells":
        return ["cells"] + [un_cell(c) for c in x[1:]]
    if t == "rows":
        return ["rows"] + [[un_cell(c) for c in r] for r in x[1:]]
    if t == "names":
        return ["names"] + ["".join(chr(c) for c in n) for n in x[1:]]
    if t == "schemas":
        return ["schemas"] + [["".join(chr(c) for c in n) for n in ns] for ns in x[1:]]
    return ["?", x]


def norm(o):
    """lists/tuples -> nested lists (json-like) for comparison"""
    if isinstance(o, (list, tuple)):
        return [norm(x) for x in o]
    return o


def weak(o):
    """order-insensitive form used outside the property's domain (order among equal keys is not specified)"""
    o = norm(o)
    if o and o[0] in ("cells", "rows"):
        return [o[0]] + sorted(o[1:], key=repr)
    return o


# ---------------------------------------------------------------- implementation side
def klong_val(c, ty):
    if c[0] == "s":
        return '"%s"' % c[1]
    if ty == "r":
        return repr(c[1] / 4.0)
    if c[1] % 4 == 0:
        return str(c[1] // 4)
    return repr(c[1] / 4.0)


def klong_row(row, tys):
    return "[" + " ".join(klong_val(c, t) for c, t in zip(row, tys)) + "]"


class Impl:
    """drives the real klongpy through Klong source text only"""

    def __init__(self):
        from klongpy import KlongInterpreter
        self.k = KlongInterpreter()
        self.k('.py("klongpy.db")')
        # one database over a Klong dictionary; each case rebinds "T" in that dictionary
        # (duckdb.connect costs ~70 ms, far more than a whole operation sequence)
        self.k('q:::{}')
        self.k('T::.table([["a" []]])')
        self.k('q,"T",,T')
        self.k('db::.db(q)')
        self.multi = set()

    def canon_cell(self, v):
        import numpy as np
        if isinstance(v, str):
            return ("s", v)
        if isinstance(v, (bool, np.bool_)):
            return ("bad", repr(v))
        if isinstance(v, (int, np.integer)):
            return ("n", 4 * int(v))
        if isinstance(v, (float, np.floating)):
            q = float(v) * 4
            if q != q or q in (float("inf"), float("-inf")) or q != int(q):
                return ("bad", repr(v))
            return ("n", int(q))
        return ("bad", type(v).__name__ + ":" + repr(v)[:40])

    def canon_seq(self, v):
        import numpy as np
        if isinstance(v, np.ndarray):
            return [self.canon_cell(x) for x in v.tolist()] if v.dtype != object else [self.canon_cell(x) for x in v]
        return [self.canon_cell(x) for x in list(v)]

    def types_of(self, case):
        """column name -> type letter, following added columns"""
        tys = dict(zip(case["cols"], case["types"]))
        return tys

    def make_table(self, name, tbl, qname):
        k = self.k
        parts = []
        for i, (c, t) in enumerate(zip(tbl["cols"], tbl["types"])):
            vals = " ".join(klong_val(r[i], t) for r in tbl["rows"])
            parts.append('["%s" [%s]]' % (c, vals))
        k(name + "::.table([" + " ".join(parts) + "])")
        k('%s,"%s",,%s' % (qname, name, name))
        # per-column literal style (real columns are written with a decimal point), current column list
        return {"style": dict(zip(tbl["cols"], tbl["types"])), "cur": list(tbl["cols"])}

    def do_op(self, T, st, op, dbname, qtable=None):
        """one operation on the Klong table named T through Klong source text -> canonical observation"""
        import numpy as np
        from klongpy.db.sys_fn_db import Table
        from klongpy.core import KLONG_UNDEFINED
        k = self.k
        style, cur = st["style"], st["cur"]
        kind = op[0]
        try:
            if kind == "ins":
                tys = [style.get(c, "i") for c in cur] + ["i"] * len(op[1])
                r = k(".insert(%s;%s)" % (T, klong_row(op[1], tys)))
                return ["unit"] if isinstance(r, Table) else ["other", type(r).__name__]
            if kind == "insb":
                tys = [style.get(c, "i") for c in cur] + ["i"] * 8
                r = k(".insert(%s;[%s])" % (T, " ".join(klong_row(x, tys) for x in op[1])))
                return ["unit"] if isinstance(r, Table) else ["other", type(r).__name__]
            if kind == "read":
                r = k('%s?"%s"' % (T, op[1]))
                return ["undef"] if r is KLONG_UNDEFINED else ["cells"] + self.canon_seq(r)
            if kind == "count":
                return ["int", int(k("#" + T))]
            if kind == "schema":
                return ["names"] + [str(x) for x in k(".schema(%s)" % T)]
            if kind == "index":
                r = k(".index(%s;[%s])" % (T, " ".join('"%s"' % c for c in op[1])))
                return ["names"] + [str(x) for x in r]
            if kind == "rindex":
                return ["int", int(k(".rindex(%s)" % T))]
            if kind == "set":
                ty = style.get(op[1]) or ("r" if any(c[0] == "n" and c[1] % 4 for c in op[2]) else "i")
                r = k('%s,"%s",,[%s]' % (T, op[1], " ".join(klong_val(c, ty) for c in op[2])))
                if isinstance(r, Table):
                    if op[1] not in cur:
                        cur.append(op[1])
                        style[op[1]] = ty
                    return ["unit"]
                return ["other", type(r).__name__]
            qt = qtable or T
            if kind == "qall":
                sql = "select * from " + qt
            elif kind == "qcount":
                sql = "select count(*) from " + qt
            else:
                sql = "select %s from %s" % (",".join(op[1]), qt)
            r = np.asarray(k('%s("%s")' % (dbname, sql)))
            if kind == "qcount":
                return ["int", int(r)]
            if r.ndim == 0:
                return ["cell", self.canon_cell(r.item() if r.dtype != object else r[()])]
            if r.size == 0:
                return ["cells"]
            if r.ndim == 1:
                return ["cells"] + self.canon_seq(r)
            return ["rows"] + [self.canon_seq(x) for x in r]
        except Exception as e:  # noqa: any failure is the observation "error"
            self.last_error = "%s: %s" % (type(e).__name__, str(e)[:200])
            return ["err"]

    def run(self, case):
        st = self.make_table("T", case, "q")
        return norm([self.do_op("T", st, op, "db") for op in case["ops"]])

    def run_multi(self, case):
        """several tables T0.. in ONE database (one Klong dictionary and one .db per table count, re-used)"""
        n = len(case["tables"])
        q, dbn = "q%d" % n, "db%d" % n
        if n not in self.multi:
            self.k(q + ":::{}")
            for i in range(n):
                self.k('T%d::.table([["a" []]])' % i)
                self.k('%s,"T%d",,T%d' % (q, i, i))
            self.k("%s::.db(%s)" % (dbn, q))
            self.multi.add(n)
        sts = [self.make_table("T%d" % i, t, q) for i, t in enumerate(case["tables"])]
        out = []
        for o in case["ops"]:
            if o[0] == "dschema":
                try:
                    d = self.k(".schema(%s)" % dbn)
                    out.append(["schemas"] + [[str(x) for x in d["T%d" % i]] for i in range(n)] if len(d) == n else ["other", sorted(d)])
                except Exception as e:  # noqa
                    out.append(["err"])
            elif o[0] < n:
                out.append(self.do_op("T%d" % o[0], sts[o[0]], o[1], dbn))
            else:
                out.append(self.do_op("T0", sts[0], o[1], dbn, qtable="T%d" % o[0]))
        return norm(out)


# ---------------------------------------------------------------- comparison
def evaluate(chk, impl, cases, flags="impl"):
    """returns per case dict(impl, model, spec, dom, prop_fail index|None, corr_fail index|None)"""
    res = chk.run_model([sx_multi(c, flags) if "tables" in c else sx_case(c, flags) for c in cases])
    out = []
    for case, r in zip(cases, res):
        if r[0] != "ok":
            raise RuntimeError("model runner rejected a case: %r" % (r,))
        mobs = norm([un_obs(x) for x in r[1][1:]])
        sobs = norm([un_obs(x) for x in r[2][1:]])
        dom = r[3][1]
        wf = r[4][1]
        iobs = impl.run_multi(case) if "tables" in case else impl.run(case)
        prop = corr = None
        for i in range(len(case["ops"])):
            if i < dom and wf:
                if prop is None and iobs[i] != sobs[i]:
                    prop = i
                if corr is None and iobs[i] != mobs[i]:
                    corr = i
            # beyond the property's domain (non-unique index, overwritten index column, ...) nothing is compared: pandas'
            # behaviour there (duplicate labels in .loc assignment, order among equal keys) is not part of the model's claim
        out.append({"impl": iobs, "model": mobs, "spec": sobs, "dom": dom, "prop": prop, "corr": corr})
    return out


def pyspec_obs(case):
    if "tables" in case:
        specs = [PySpec(t["cols"], t["rows"]) for t in case["tables"]]
        obs, dom = [], None
        for i, o in enumerate(case["ops"]):
            if o[0] == "dschema":
                obs.append(["schemas"] + [list(s.cols) for s in specs])
            elif o[0] >= len(specs):
                obs.append(["err"])
            else:
                if dom is None and not specs[o[0]].dom(o[1]):
                    dom = i
                obs.append(specs[o[0]].step(o[1]))
        return norm(obs), (len(case["ops"]) if dom is None else dom)
    s = PySpec(case["cols"], case["rows"])
    obs, dom = [], None
    for i, op in enumerate(case["ops"]):
        if dom is None and not s.dom(op):
            dom = i
        obs.append(s.step(op))
    return norm(obs), (len(case["ops"]) if dom is None else dom)


def shrink(chk, impl, case, still_fails, budget=80):
    """greedy removal of operations / initial rows while the failure persists"""
    cur = dict(case)
    changed = True
    while changed and budget > 0:
        changed = False
        for i in range(len(cur["ops"]) - 1, -1, -1):
            cand = dict(cur, ops=cur["ops"][:i] + cur["ops"][i + 1:])
            budget -= 1
            if cand["ops"] and still_fails(cand):
                cur, changed = cand, True
            if budget <= 0:
                break
    return cur


def describe(case):
    def cell(c):
        return c[1] / 4 if c[0] == "n" else c[1]
    def op(o):
        if o[0] == "ins":
            return ".insert(T;%r)" % [cell(c) for c in o[1]]
        if o[0] == "insb":
            return ".insert(T;%r)" % [[cell(c) for c in r] for r in o[1]]
        if o[0] == "read":
            return 'T?"%s"' % o[1]
        if o[0] == "set":
            return 'T,"%s",,%r' % (o[1], [cell(c) for c in o[2]])
        if o[0] == "index":
            return ".index(T;%r)" % (o[1],)
        if o[0] == "qcols":
            return 'db("select %s from T")' % ",".join(o[1])
        return {"count": "#T", "schema": ".schema(T)", "rindex": ".rindex(T)", "qall": 'db("select * from T")',
                "qcount": 'db("select count(*) from T")'}[o[0]]
    if "tables" in case:
        return {"tables": [{"name": "T%d" % i, "columns": t["cols"], "initial_rows": [[cell(c) for c in r] for r in t["rows"]]}
                           for i, t in enumerate(case["tables"])],
                "ops": [".schema(db)" if o[0] == "dschema" else op(o[1]).replace("T", "T%d" % o[0]) for o in case["ops"]]}
    return {"columns": case["cols"], "initial_rows": [[cell(c) for c in r] for r in case["rows"]],
            "ops": [op(o) for o in case["ops"]]}


def replay_body(case, r, i, what):
    return {"kind": what, "case": {k: case[k] for k in ("tables", "cols", "types", "rows", "ops") if k in case},
            "readable": describe(case), "first_bad_op": i,
            "expected_spec": r["spec"][i] if i is not None else None,
            "actual_impl": r["impl"][i] if i is not None else None,
            "model": r["model"][i] if i is not None else None, "in_domain_prefix": r["dom"]}


def op_kinds(case):
    if "tables" in case:
        return ["dschema" if o[0] == "dschema" else "%d:%s" % (o[0], o[1][0]) for o in case["ops"]]
    return [o[0] for o in case["ops"]]


def op_shape(case):
    if "tables" in case:
        return (tuple(tuple(t["types"]) for t in case["tables"]), tuple(op_kinds(case)))
    return (tuple(case["types"]), len(case["rows"]), tuple(o[0] for o in case["ops"]))


def nontrivial(case, r):
    kinds = [k.split(":")[-1] for k in op_kinds(case)]
    return any(k in ("ins", "insb") for k in kinds) and any(k in ("read", "count", "qall", "qcols", "qcount") for k in kinds[1:])


def run(tier, replay=None):
    chk = Check("C19", tier)
    rng = random.Random(chk.seed * 7919 + 19)
    chk.generate(generate())
    chk.build_model()
    hits = forbidden_scan("C19")
    proof = chk.build_proofs()
    if hits:
        proof.update(ok=False, error="forbidden declarations: %r" % hits, broken=hits[0])
    impl = Impl()

    maxlen = 10 if tier == "quick" else 18
    count = 5000 if tier == "quick" else 40000
    nmulti = 1200 if tier == "quick" else 8000
    cases = fixed_cases() + [gen_case(rng, maxlen) for _ in range(count)] + [gen_multi(rng, maxlen + 4) for _ in range(nmulti)]

    def sweep(cases, label):
        first_prop = first_corr = None
        results = evaluate(chk, impl, cases)
        seen = set()
        for case, r in zip(cases, results):
            chk.count("evaluations")
            chk.count("operations", len(case["ops"]))
            chk.count("in_domain_operations", r["dom"])
            if r["dom"] < len(case["ops"]):
                chk.count("sequences_leaving_domain")
            sh = op_shape(case)
            if sh not in seen and nontrivial(case, r):
                seen.add(sh)
                chk.count("distinct_nontrivial")
            # the extracted spec and the python reference must agree (harness sanity)
            pobs, pdom = pyspec_obs(case)
            if pdom != r["dom"] or pobs[:pdom] != r["spec"][:pdom]:
                raise RuntimeError("extracted Spec.v and the python reference disagree on %r" % (describe(case),))
            if r["prop"] is not None and first_prop is None:
                first_prop = (case, r)
            if r["corr"] is not None and first_corr is None:
                first_corr = (case, r)
            if "tables" in case:
                chk.count("multi_table_sequences")
            if any(k.endswith("index") for k in op_kinds(case)) and r["prop"] is None:
                chk.sample({"case": describe(case), "observed": r["impl"][-1]}, limit=5)
        return first_prop, first_corr

    first_prop, first_corr = sweep(cases, "main")
    if first_prop is None and (first_corr is not None or not proof["ok"]):
        # something no longer checks: look harder for an input on which the PROPERTY fails
        extra = [gen_case(random.Random(chk.seed + 1000 + j), 18, stay_in_domain=1.0) for j in range(6000 if tier == "quick" else 20000)] + \
                [gen_multi(random.Random(chk.seed + 500000 + j), 18, stay_in_domain=1.0) for j in range(1500 if tier == "quick" else 6000)]
        fp, fc = sweep(extra, "search")
        first_prop = fp
        first_corr = first_corr or fc

    if first_prop is not None:
        case, r = first_prop

        def still(c):
            rr = evaluate(chk, impl, [c])[0]
            return rr["prop"] is not None
        small = shrink(chk, impl, case, still)
        rr = evaluate(chk, impl, [small])[0]
        i = rr["prop"]
        chk.violation("table contents differ from the rows inserted: op %d of %s gives %s, the property prescribes %s"
                      % (i, describe(small)["ops"], json.dumps(rr["impl"][i])[:200], json.dumps(rr["spec"][i])[:200]),
                      replay_body(small, rr, i, "property"))
    else:
        if first_corr is not None:
            case, r = first_corr

            def still(c):
                return evaluate(chk, impl, [c])[0]["corr"] is not None
            small = shrink(chk, impl, case, still)
            rr = evaluate(chk, impl, [small])[0]
            chk.violation("correspondence between klongpy Table and coq/C19/Model.v broke; no failing input of the property found in %d sequences"
                          % chk.counters.get("evaluations", 0),
                          dict(replay_body(small, rr, rr["corr"], "correspondence"), broken="correspondence C19/Model.v"), no_input=True)
        if not proof["ok"] and not chk.violations:
            chk.violation("proof obligation no longer checks: %s" % proof["broken"],
                          {"broken_obligation": proof["broken"], "coq_error": proof["error"], "generated": chk.generated_text}, no_input=True)
    return chk.finish(
        rule="seeded random operation sequences (length <= %d; create from 1-4 int/real/string columns with 0-4 rows; insert, batch insert incl. a key twice in one batch, "
             "t?col, #t, .schema, .index on 1-2 columns, .rindex, added/overwritten column, db select */projection/count) through Klong source text, plus 9 fixed histories (incl. rejected operations of every kind followed by inserts and reads), plus sequences over 2-3 tables in ONE database (interleaved operations, .schema(db), query on a missing table); "
             "each compared op by op with the extracted spec (inside the property's domain) and the extracted model. distinct = distinct (column types, initial row count, op-kind sequence); "
             "non-trivial = at least one insert followed by a read" % maxlen,
        trusted_base=TRUSTED, assumptions=ASSUME)


def replay(path):
    body = json.load(open(path))
    rp = body.get("replay", {})
    case = rp.get("case")
    if not case:
        print(json.dumps(body, indent=1))
        return 0
    if "tables" in case:
        for t in case["tables"]:
            t["rows"] = [[tuple(c) for c in r] for r in t["rows"]]
    else:
        case["rows"] = [[tuple(c) for c in r] for r in case["rows"]]
    def fix(o):
        if o[0] == "ins":
            return ("ins", [tuple(c) for c in o[1]])
        if o[0] == "insb":
            return ("insb", [[tuple(c) for c in r] for r in o[1]])
        if o[0] == "set":
            return ("set", o[1], [tuple(c) for c in o[2]])
        return tuple(o)
    case["ops"] = [(o if o[0] == "dschema" else [o[0], fix(o[1])]) if "tables" in case else fix(o) for o in case["ops"]]
    chk = Check("C19", "quick")
    chk.generate(generate())
    chk.build_model()
    r = evaluate(chk, Impl(), [case])[0]
    print(json.dumps({"readable": describe(case), "expected_spec": r["spec"], "actual_impl": r["impl"], "model": r["model"],
                      "in_domain_prefix": r["dom"], "first_property_failure": r["prop"], "first_model_mismatch": r["corr"]}, indent=1, default=str))
    return 1 if r["prop"] is not None else 0
