"""C02 child process: runs in a fresh interpreter with PYTHONPATH=$VERIF_REPO:/verif.

For every case read from stdin (one JSON object per line) evaluate on the REAL klongpy
  T  the adverb expression as source text,
  E  the definitional expansion of the adverb as separately evaluated applications of the verb
     (the property's own observation; the expansion code below mirrors coq/C02/Spec.v),
and print one JSON line {"t":..., "e":..., "tlog":..., "elog":...}.

Values are reported in the canonical S-expression form of harness/canon.py (as nested lists).
"""
import json
import sys

import numpy as np

from klongpy import KlongInterpreter
from klongpy.core import KGChar, KGSym

from harness.canon import canon as _canon0, fbits

BUDGET = 1500          # interpreter evaluations per case (deterministic kill budget; never wall-clock)


def canon(v):
    """harness.canon.canon, except that the backend's own KGChar class (klongpy/backends/numpy_backend.py),
    which is not the klongpy.core.KGChar that canon.py tests for, is a character too"""
    if type(v).__name__ == "KGChar" and isinstance(v, str):
        return ["c", ord(str(v))]
    if isinstance(v, np.ndarray):
        if v.ndim == 0:
            return canon(v.item())
        return ["l"] + [canon(x) for x in v]
    if isinstance(v, (list, tuple)):
        return ["l"] + [canon(x) for x in v]
    if isinstance(v, dict):
        items = [[canon(k), canon(x)] for k, x in v.items()]
        items.sort(key=lambda kv: repr(kv[0]))
        return ["d"] + items
    return _canon0(v)


WORLD = None


class Budget(Exception):
    pass


class Outside(Exception):
    """the case is outside the documented domain of the adverb (no expansion prescribed)"""
    pass


# ------------------------------------------------------------------ values
def lit(v):
    """structured operand -> Klong literal text.  v: int | ["c",ch] | ["s",str] | ["l",items...] | ["d",[k,v]...]"""
    if isinstance(v, int):
        return str(v)
    if isinstance(v, float):
        return repr(v)
    t = v[0]
    if t == "c":
        return "0c" + v[1]
    if t == "s":
        return '"' + v[1].replace('"', '""') + '"'
    if t == "l":
        return "[" + " ".join(lit(x) for x in v[1:]) + "]"
    if t == "d":
        return ":{" + " ".join("[" + lit(k) + " " + lit(x) + "]" for k, x in v[1:]) + "}"
    raise ValueError(v)


def top(v):
    """literal text usable as an operand in an expression (a negative number literal needs parentheses)"""
    s = lit(v)
    return "(" + s + ")" if isinstance(v, (int, float)) and v < 0 else s


# ------------------------------------------------------------------ verbs
DYADS = {
    # id: (source text, application template over the variables p and q)
    "+": ("+", "p+q"), "-": ("-", "p-q"), "*": ("*", "p*q"), "%": ("%", "p%q"),
    "&": ("&", "p&q"), "|": ("|", "p|q"), "=": ("=", "p=q"), "<": ("<", "p<q"), ">": (">", "p>q"),
    ",": (",", "p,q"),
    "L+": ("{x+y}", "{x+y}(p;q)"), "L-": ("{x-y}", "{x-y}(p;q)"), "L*": ("{x*y}", "{x*y}(p;q)"),
    "L%": ("{x%y}", "{x%y}(p;q)"), "L&": ("{x&y}", "{x&y}(p;q)"), "L|": ("{x|y}", "{x|y}(p;q)"),
    "L=": ("{x=y}", "{x=y}(p;q)"), "L<": ("{x<y}", "{x<y}(p;q)"), "L>": ("{x>y}", "{x>y}(p;q)"),
    "L,": ("{x,y}", "{x,y}(p;q)"),
    "Lnc": ("{x-2*y}", "{x-2*y}(p;q)"),            # non-commutative, non-associative
    "Ldec": ("{(x*10)+y}", "{(x*10)+y}(p;q)"),      # non-associative
    "Lsnd": ("{y}", "{y}(p;q)"), "Lfst": ("{x}", "{x}(p;q)"),
    "Lnest": ("{(,x),y}", "{(,x),y}(p;q)"),
    # inline one-operator lambdas with swapped, repeated or single arguments (never the bare operator)
    "Ssub": ("{y-x}", "{y-x}(p;q)"), "Sdiv": ("{y%x}", "{y%x}(p;q)"), "Sjoin": ("{y,x}", "{y,x}(p;q)"),
    "Srem": ("{y!x}", "{y!x}(p;q)"), "Spow": ("{y^x}", "{y^x}(p;q)"), "Slt": ("{y<x}", "{y<x}(p;q)"),
    "Sidiv": ("{y:%x}", "{y:%x}(p;q)"), "Lxx": ("{x-x}", "{x-x}(p;q)"), "Lyy": ("{y-y}", "{y-y}(p;q)"),
    "proj": ("{x+y*z}(;;2)", "pj(p;q)"),
    "named": ("fd", "fd(p;q)"),                    # fd::{x-2*y}
    "nproj": ("pj", "pj(p;q)"),                    # pj::{x+y*z}(;;2)
    "py": ("pyd", "pyd(p;q)"),                     # Python callable, logs its calls
}
MONADS = {
    "-": ("-", "-p"), "#": ("#", "#p"), ",": (",", ",p"), "|": ("|", "|p"), "*": ("*", "*p"),
    "L-": ("{-x}", "{-x}(p)"), "L#": ("{#x}", "{#x}(p)"), "L,": ("{,x}", "{,x}(p)"),
    "Linc": ("{x+1}", "{x+1}(p)"), "Ldup": ("{x,x}", "{x,x}(p)"), "Lid": ("{x}", "{x}(p)"),
    "Lone": ("{1}", "{1}(p)"), "Ldbl": ("{x*2}", "{x*2}(p)"),
    "Lcap": ("{:[x>5;x;x+1]}", "{:[x>5;x;x+1]}(p)"),     # converges upward to 6
    "Lhalf": ("{x:%2}", "{x:%2}(p)"),                    # converges to 0
    "Lcons": ("{1,x}", "{1,x}(p)"),
    "Lflat": ("{,/x}", "{,/x}(p)"),
    "proj": ("{x+y}(1;)", "pm(p)"),
    "named": ("fm", "fm(p)"),                      # fm::{(x*3)+1}
    "Lnewton": ("{(x+2%x)%2}", "{(x+2%x)%2}(p)"),  # the reference's own Converge example (square root of 2)
    "py": ("pym", "pym(p)"),                       # Python callable, logs its calls
    "Ldrop": ("{1_x}", "{1_x}(p)"), "Linc2": ("{x+2}", "{x+2}(p)"),
    "pycap": ("pycap", "pycap(p)"),                # Python callable with a fixpoint (converges), logs its calls
}
PREDS = {
    "lt10": "{x<10}", "lt0": "{x<0}", "never": "{0}", "short": "{(#x)<4}", "lt30": "{x<30}",
    # tests whose answers are truth values other than 0 / 1 (Klong truth: 0, [] and "" are false, all else true)
    "size": "{#x}", "m4": "{x-4}", "rem10": "{10-x}", "realrem": "{(4-x)%1}", "self": "{x}",
}

ADVERBS = {
    # id: (text, context) ; context m = monadic use  F<adv>A ; d = dyadic use  L F<adv>A
    "each": ("'", "m"), "each2": ("'", "d"), "eachleft": (":\\", "d"), "eachright": (":/", "d"),
    "eachpair": (":'", "m"), "eachindex": ("@'", "m"), "over": ("/", "m"), "overn": ("/", "d"),
    "scan": ("\\", "m"), "scann": ("\\", "d"), "iterate": (":*", "d"), "scaniter": ("\\*", "d"),
    "converge": (":~", "m"), "while": (":~", "d"), "scanconv": ("\\~", "m"), "scanwhile": ("\\~", "d"),
}
VERB_ARITY = {"each": 1, "each2": 2, "eachleft": 2, "eachright": 2, "eachpair": 2, "eachindex": 1, "over": 2, "overn": 2,
              "scan": 2, "scann": 2, "iterate": 1, "scaniter": 1, "converge": 1, "while": 1, "scanconv": 1, "scanwhile": 1}


class World:
    def __init__(self):
        self.k = KlongInterpreter()
        self.log = []
        self.apps = []
        self.pans = []
        self.count = 0
        k = self.k
        k("fd::{x-2*y}")
        k("pj::{x+y*z}(;;2)")
        k("fm::{(x*3)+1}")
        k("pm::{x+y}(1;)")

        def pyd(x, y):
            self.log.append(["d", canon(x), canon(y)])
            return x * 2 + y

        def pym(x):
            self.log.append(["m", canon(x)])
            return x + 1
        def pycap(x):
            self.log.append(["m", canon(x)])
            return x if x > 5 else x + 1
        k["pyd"] = pyd
        k["pym"] = pym
        k["pycap"] = pycap
        # deterministic kill budget: every verb application and every function call passes through eval
        orig_eval = k.eval

        def counted(x, _o=orig_eval):
            self.count += 1
            if self.count > BUDGET:
                raise Budget()
            r = _o(x)
            if getattr(r, "size", 0) > 5000 or (isinstance(r, str) and len(r) > 5000):
                raise Budget()      # a value that grows without bound: treated like an orbit that never ends
            return r
        k.eval = counted

    def reset(self):
        self.log = []
        self.apps = []
        self.pans = []
        self.count = 0

    # one separately evaluated application of the verb
    def tick(self):
        self.count += 4            # an application made by the harness also counts
        if self.count > BUDGET:
            raise Budget()

    def app2(self, vid, x, y):
        self.tick()
        self.apps.append([2, canon(x), canon(y)])
        self.k["p"] = x
        self.k["q"] = y
        return self.k(DYADS[vid][1])

    def app1(self, vid, x):
        self.tick()
        self.apps.append([1, canon(x)])
        self.k["p"] = x
        r = self.k(MONADS[vid][1])
        if getattr(r, "size", 0) > 5000 or (isinstance(r, str) and len(r) > 5000):
            raise Budget()          # an orbit that grows without bound: treated like one that never ends
        return r

    def pred(self, pid, x):
        self.tick()
        self.apps.append(["p", canon(x)])
        self.k["p"] = x
        r = self.k(PREDS[pid] + "(p)")
        self.pans.append(canon(r))
        return r


# ------------------------------------------------------------------ the definitional expansions (mirror of Spec.v)
def is_str(a):
    return isinstance(a, str) and not isinstance(a, (KGChar, KGSym))


def is_listy(a):
    return isinstance(a, (list, np.ndarray)) and (not isinstance(a, np.ndarray) or a.ndim > 0)


def is_atom(a):
    if is_str(a) or is_listy(a):
        return len(a) == 0
    return True


def elems(a):
    """members of a non-atom: list items, or the characters of a string"""
    if is_str(a):
        return list(WORLD.k._backend.str_to_chr_arr(a))      # the interpreter's own character objects
    return list(a)


def pair(i, x):
    """the list [i;x] as the interpreter represents it"""
    return WORLD.k._backend.kg_asarray([i, x])


def truth(v):
    """Klong truth of a test's answer (the reference: 0, [] and "" are false, everything else is true)"""
    c = canon(v)
    if c[0] == "i":
        return c[1] != 0
    if c[0] == "r":
        return float(v) != 0.0
    if c[0] in ("l", "s"):
        return len(c) > 1
    return True


def same(x, y):
    """the fixpoint test f(x) = x of Converge / Scan-Converging: Klong's Match (x~y), evaluated separately"""
    w = WORLD
    w.tick()
    w.k["p"] = x
    w.k["q"] = y
    r = canon(w.k("p~q"))
    if r == ["i", 1]:
        return True
    if r == ["i", 0]:
        return False
    raise Outside("Match did not answer 0/1")


def pairable(a):
    """Each-2 of an atom with a list (the reference is silent; DOMAIN DECISION, the specification follows the
    implementation): a character is the one-character string of it, a dictionary stands for its keys, a number
    (or any other atom) cannot be paired: error"""
    if is_str(a) or is_listy(a):
        return elems(a)
    if type(a).__name__ == "KGChar":
        return [a]
    if isinstance(a, dict):
        return list(a.keys())
    raise TypeError("each-2: an atom that is not a character cannot be paired with a list")


def expansion(w, adv, vid, a, left=None):
    """s_A: returns a python value; lists are python lists of the separately evaluated results"""
    f1 = lambda x: w.app1(vid, x)
    f2 = lambda x, y: w.app2(vid, x, y)
    if adv == "each":
        if isinstance(a, dict):
            return [f1(w.k._backend.kg_asarray(list(kv))) for kv in a.items()]
        if is_atom(a):
            return a if (is_str(a) or is_listy(a)) else f1(a)
        return [f1(x) for x in elems(a)]
    if adv == "each2":
        b = a
        a = left
        ea = (is_str(a) or is_listy(a)) and len(a) == 0
        eb = (is_str(b) or is_listy(b)) and len(b) == 0
        if ea or eb:
            return []
        if is_atom(a) and is_atom(b):
            return f2(a, b)
        return [f2(x, y) for x, y in zip(pairable(a), pairable(b))]
    if adv in ("eachleft", "eachright"):
        b = a
        a = left
        g = (lambda y: f2(a, y)) if adv == "eachleft" else (lambda y: f2(y, a))
        if (is_str(b) or is_listy(b)) and len(b) == 0:
            return []
        if is_atom(b):
            return g(b)
        return [g(y) for y in elems(b)]
    if adv == "eachpair":
        if is_atom(a) or len(a) == 1:
            return a
        e = elems(a)
        return [f2(x, y) for x, y in zip(e, e[1:])]
    if adv == "eachindex":
        if is_atom(a):
            if is_str(a) or is_listy(a):
                return a
            # DOMAIN DECISION (reference silent): an atom is its own only member, index 0
            return f1(w.k._backend.kg_asarray([0, a]))
        return [f1(pair(i, x)) for i, x in enumerate(elems(a))]
    if adv == "over":
        if is_atom(a):
            return a
        e = elems(a)
        r = e[0]
        for y in e[1:]:
            r = f2(r, y)
        return r
    if adv == "overn":
        b = a
        r = left
        if (is_str(b) or is_listy(b)) and len(b) == 0:
            return r
        for y in ([b] if is_atom(b) else elems(b)):
            r = f2(r, y)
        return r
    if adv == "scan":
        if (is_str(a) or is_listy(a)) and len(a) == 0:
            return a
        if is_atom(a):
            return [a]
        e = elems(a)
        r = e[0]
        out = [r]
        for y in e[1:]:
            r = f2(r, y)
            out.append(r)
        return out
    if adv == "scann":
        b = a
        r = left
        if (is_str(b) or is_listy(b)) and len(b) == 0:
            return r
        out = [r]
        for y in ([b] if is_atom(b) else elems(b)):
            r = f2(r, y)
            out.append(r)
        return out
    if adv in ("iterate", "scaniter"):
        n = left
        if not (isinstance(n, (int, np.integer)) and n >= 0):
            raise Outside("iteration count is not a natural number")
        r = a
        out = [r]
        for _ in range(int(n)):
            r = f1(r)
            out.append(r)
        if adv == "iterate" or n == 0:
            return r
        return out
    if adv == "converge":
        x = f1(a)
        while True:
            xx = f1(x)
            if same(x, xx):
                return x
            x = xx
    if adv == "scanconv":
        x = a
        out = [x]
        while True:
            xx = f1(x)
            if same(x, xx):
                return out
            out.append(xx)
            x = xx
    if adv in ("while", "scanwhile"):
        x = a
        out = []
        while truth(w.pred(left, x)):
            out.append(x)
            x = f1(x)
        return x if adv == "while" else out
    raise ValueError(adv)


# ------------------------------------------------------------------ comparison form
def norm(c):
    """representation-free form of a canonical value:
       - a string is the list of its characters;
       - a rectangular all-numeric list containing a real is all real (NumPy homogenisation, a C01 matter)."""
    if not isinstance(c, list):
        return c
    t = c[0] if c else None
    if t == "r" and isinstance(c[1], int) and (c[1] >> 52) & 0x7FF == 0x7FF and c[1] & ((1 << 52) - 1):
        return ["r", "nan"]
    if t == "s":
        return ["l"] + [["c", x] for x in c[1:]]
    if t == "l":
        items = [norm(x) for x in c[1:]]
        r = ["l"] + items
        if has_real(r) and all_numeric(r):
            r = to_real(r)
        return r
    if t == "d":
        return ["d"] + [[norm(k), norm(v)] for k, v in c[1:]]
    return c


def all_numeric(c):
    if c[0] in ("i", "r"):
        return True
    if c[0] == "l":
        return len(c) > 1 and all(all_numeric(x) for x in c[1:])
    return False


def has_real(c):
    if c[0] == "r":
        return True
    if c[0] == "l":
        return any(has_real(x) for x in c[1:])
    return False


def to_real(c):
    if c[0] == "i":
        return ["r", fbits(float(c[1]))]
    if c[0] == "l":
        return ["l"] + [to_real(x) for x in c[1:]]
    return c


def build_text(case, a=None):
    adv = case["adv"]
    atext, ctx = ADVERBS[adv]
    chain = "".join(ADVERBS[x][0] for x in case.get("chain", []))
    verbs = MONADS if VERB_ARITY[adv] == 1 else DYADS
    vt = verbs[case["verb"]][0]
    a = top(case["a"]) if a is None else a
    if ctx == "m":
        return vt + atext + chain + a
    if adv in ("while", "scanwhile"):
        return PREDS[case["left"]] + vt + atext + chain + a
    return top(case["left"]) + vt + atext + chain + a


def run_case(w, case):
    global WORLD
    WORLD = w
    k = w.k
    out = {}
    text = build_text(case)
    out["text"] = text
    w.reset()
    # operand values as the interpreter reads them
    a = k(top(case["a"]))
    left = None
    if "left" in case and case["adv"] not in ("while", "scanwhile"):
        left = k(top(case["left"]))
    elif "left" in case:
        left = case["left"]
    out["a"] = canon(a)
    # T: source text
    w.reset()
    try:
        t = k(text)
        out["t"] = canon(t)
    except Budget:
        out["t"] = ["hang"]
    except Exception as e:  # noqa
        out["t"] = ["e", type(e).__name__]
    out["tlog"] = w.log
    # the same expression with the operand in a variable and as a function argument (a user cannot tell the
    # expression compiler, which only sees variables, from the interpreter)
    if not case.get("chain"):
        for key, prog in (("tv", ["va::" + top(case["a"]), build_text(case, "va")]),
                          ("tf", ["{" + build_text(case, "x") + "}(" + lit(case["a"]) + ")"])):
            w.reset()
            try:
                r = None
                for line in prog:
                    r = k(line)
                out[key] = canon(r)
            except Budget:
                out[key] = ["hang"]
            except Exception as e:  # noqa
                out[key] = ["e", type(e).__name__]
            out[key + "n"] = norm(out[key])
            out[key + "_text"] = "; ".join(prog)
    # E: expansion
    w.reset()
    try:
        chain = case.get("chain", [])
        if chain:
            e = chain_expansion(w, case, a, left)
        else:
            e = expansion(w, case["adv"], case["verb"], a, left)
        out["e"] = canon(e)
        # can the interpreter represent the list of results at all?  kg_asarray broadcasts results of
        # unequal rank ([5] and [[5]]) into one array: a value-representation matter (C01), not an adverb's
        if isinstance(e, list):
            try:
                out["unrep"] = norm(canon(k._backend.kg_asarray(tolists(e)))) != norm(out["e"])
            except Exception:
                out["unrep"] = True
    except Budget:
        out["e"] = ["hang"]
    except Outside as e:
        out["e"] = ["outside", str(e)]
    except Exception as e:  # noqa
        out["e"] = ["e", type(e).__name__]
    out["eapps"] = w.apps
    out["pans"] = w.pans
    out["tn"] = norm(out["t"])
    out["en"] = norm(out["e"])
    return out


def tolists(v):
    if isinstance(v, list):
        return [tolists(x) for x in v]
    return v


def chain_expansion(w, case, a, left):
    """(f A1) A2 ... : the first adverb makes a monad g; every later adverb is applied to that monad"""
    adv = case["adv"]
    g = lambda x: expansion(w, adv, case["verb"], x, None)
    for nxt in case["chain"]:
        g = (lambda g0, nx: (lambda x: generic_monadic(w, nx, g0, x)))(g, nxt)
    return g(a)


def generic_monadic(w, adv, f1, a):
    """expansion of a monadic-verb adverb over an arbitrary python monad"""
    def collect(v):
        # a derived verb returns python lists for collected results: make them Klong lists before re-use
        return w.k._backend.kg_asarray(v) if isinstance(v, list) else v
    f = lambda x: collect(f1(x))
    if adv == "each":
        if isinstance(a, dict):
            return [f(w.k._backend.kg_asarray(list(kv))) for kv in a.items()]
        if is_atom(a):
            return a if (is_str(a) or is_listy(a)) else f(a)
        return [f(x) for x in elems(a)]
    if adv == "eachindex":
        if is_atom(a):
            if is_str(a) or is_listy(a):
                return a
            return f(w.k._backend.kg_asarray([0, a]))
        return [f(pair(i, x)) for i, x in enumerate(elems(a))]
    if adv == "converge":
        x = f(a)
        while True:
            w.count += 1
            if w.count > BUDGET:
                raise Budget()
            xx = f(x)
            if same(x, xx):
                return x
            x = xx
    if adv == "scanconv":
        x = a
        out = [x]
        while True:
            w.count += 1
            if w.count > BUDGET:
                raise Budget()
            xx = f(x)
            if same(x, xx):
                return out
            out.append(xx)
            x = xx
    raise Outside("second adverb %s is not an adverb of monadic verbs" % adv)


def main():
    w = World()
    global WORLD
    WORLD = w
    for line in sys.stdin:
        line = line.strip()
        if not line:
            continue
        case = json.loads(line)
        try:
            out = run_case(w, case)
        except Exception as e:  # infrastructure problem of this case: report, the parent decides
            out = {"infra": "%s: %s" % (type(e).__name__, e)}
        out["id"] = case.get("id")
        sys.stdout.write(json.dumps(out) + "\n")
    sys.stdout.flush()


if __name__ == "__main__":
    main()
