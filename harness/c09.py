"""C09 — the interpreter is a faithful dictionary of Python values and functions.

Link 1 (Coq): coq/C09/Properties.v — exact positional argument passing for every signature among x,y,z
(with/without klong) in any scope stack and through every call form, store/read-back histories, the Python
wrapper of a Klong function, the import arity rule.
Link 2 (here): instrumented Python callables of every signature are stored with klong[name]=f and applied from
Klong text in every call form, at top level and inside a Klong function; store / redefine / delete / call
histories through klong[...] and wrappers; _handle_import on generated signatures.  Each case is run on the real
interpreter and on the extracted model and compared (call log and result).
"""
import ast
import itertools
import json
import random

from . import astlib
from .astlib import ShapeError
from .common import Check, sx, forbidden_scan, VERIF

TRUSTED = [
    "Coq 8.16.1 kernel (coqc); vm_compute only in the Example and the two _refuted witnesses",
    "Print Assumptions: all C09 theorems closed under the global context (no axioms)",
    "translator harness/c09.py:generate (Python ast): KGLambda.__init__/_get_pos_args/__call__, set_context_var, KlongContext.__setitem__/__getitem__/__delitem__, "
    "KlongInterpreter.__getitem__, KGFnWrapper.__call__, the frame construction / push / finally-pop of _eval_fn, reserved_fn_args",
    "extraction: ExtrOcamlBasic only; Z kept as inductive; ocaml/driver.ml",
    "correspondence harness: unique return tokens of the instrumented callables are expanded back to (callable, arguments)",
]
ASSUME = [
    "Python binds positional actuals to declared parameters in order (modelled by bind_params)",
    "arguments reaching _eval_fn are already evaluated values; evaluation of argument expressions, projection merging and the adverbs' traversal are C03/C02's subject "
    "(the call forms are modelled as the sequences of applications they perform)",
    "Python callables and Klong function bodies are opaque: the model returns the symbolic result of applying them",
    "top-level scope stack for store histories (one user scope; system scopes never hold user names)",
]

# ------------------------------------------------------------------------------------------------ translator
_NEW_INIT = ["self.fn = fn", "params = args or safe_inspect(fn)", "n_args = sum((1 for x in reserved_fn_args if x in params))",
             "self.args = reserved_fn_symbols[:n_args]", "self._provide_klong = provide_klong or 'klong' in params", "self._wildcard = wildcard"]
_OLD_INIT = ["self.fn = fn", "params = args or safe_inspect(fn)", "self.args = [reserved_fn_symbol_map[x] for x in reserved_fn_args if x in params]",
             "self._provide_klong = provide_klong or 'klong' in params", "self._wildcard = wildcard"]
_GET_POS = ["if self._wildcard:\n    pos_args = []\n    for sym in reserved_fn_symbols:\n        try:\n            pos_args.append(ctx[sym])\n        except KeyError:\n"
            "            break\nelse:\n    pos_args = [ctx[x] for x in self.args]", "return pos_args"]
_CALL = ["pos_args = self._get_pos_args(ctx)", "return self.fn(klong, *pos_args) if self._provide_klong else self.fn(*pos_args)"]
_SCV = ["assert isinstance(sym, KGSym)", "if callable(v) and (not issubclass(type(v), KGLambda)):\n    x = KGLambda(v)\n    v = KGCall(x, args=None, arity=x.get_arity())", "d[sym] = v"]
_SET_LOOP = "if k not in reserved_fn_symbols:\n    for d in self._context:\n        if in_map(k, d):\n            %s\n            return k"
_WRAP = ["if self._sym is not None:\n    try:\n        current = self.klong._context[self._sym]\n    except KeyError:\n        current = None\n"
         "    if isinstance(current, KGFn) and (not isinstance(current, KGCall)):\n        if len(args) != current.arity:\n"
         "            raise RuntimeError(f'Klong function called with {len(args)} but expected {current.arity}')\n"
         "        fn_args = self._convert_args(args)\n        return self.klong.call(KGCall(current.a, [*fn_args], current.arity))",
         "if len(args) != self.fn.arity:\n    raise RuntimeError(f'Klong function called with {len(args)} but expected {self.fn.arity}')",
         "fn_args = self._convert_args(args)", "return self.klong.call(KGCall(self.fn.a, [*fn_args], self.fn.arity))"]
# only the symbol lookup is inside the try (067b203): a KeyError raised by the called function is not "symbol deleted"
_CONVERT = ["backend = self.klong._backend", "return [KLONG_UNDEFINED if x is None else backend.kg_asarray(x) if isinstance(x, list) else x for x in args]"]


_MERGE = ["if len(arr) == 0:\n    return arr", "if len(arr) == 1 or not has_none(arr[0]):\n    return arr[0]", "sparse_fa = np.empty(len(arr[0]), dtype=object)",
          "for n, a in enumerate(arr[0]):\n    sparse_fa[n] = a",
          "for fa in arr[1:]:\n    i = 0\n    for a in fa:\n        while i < len(sparse_fa) and sparse_fa[i] is not None:\n            i += 1\n"
          "        if i >= len(sparse_fa):\n            break\n        sparse_fa[i] = a\n        i += 1", "return sparse_fa"]


_EF_FINALLY = "try:\n    return f(self, self._context) if issubclass(type(f), KGLambda) else self.call(f)\nfinally:\n    self._context.pop()"
_EF_PLAIN = ["r = f(self, self._context) if issubclass(type(f), KGLambda) else self.call(f)", "self._context.pop()", "return r"]


def _body(fn):
    return [ast.unparse(s) for s in astlib.body_no_doc(fn)]


def generate():
    out = ["From Coq Require Import Bool."]
    notes = []

    def flag(name, fn):
        try:
            v = bool(fn())
        except (ShapeError, OSError, SyntaxError, IndexError, KeyError) as e:
            v = False
            notes.append("%s: %s" % (name, str(e).replace("*", "x")))
        out.append("Definition %s : bool := %s." % (name, astlib.coq_bool(v)))
        return v

    def positional():
        m = astlib.module("klongpy/types.py")
        b = _body(astlib.find_func(astlib.find_class(m, "KGLambda"), "__init__"))
        if b == _NEW_INIT:
            return True
        if b == _OLD_INIT:
            return False
        raise ShapeError("KGLambda.__init__ has neither known shape")

    def wraps():
        i = astlib.module("klongpy/interpreter.py")
        b = _body(astlib.find_func(astlib.find_class(i, "KlongContext"), "__setitem__"))
        if len(b) < 2:
            raise ShapeError("KlongContext.__setitem__ too short")
        if b[1] == _SET_LOOP % "set_context_var(d, k, v)":
            return True
        if b[1] == _SET_LOOP % "d[k] = v":
            return False
        raise ShapeError("KlongContext.__setitem__ loop has neither known shape")

    def shape():
        m = astlib.module("klongpy/types.py")
        i = astlib.module("klongpy/interpreter.py")
        lam = astlib.find_class(m, "KGLambda")
        ok = _body(astlib.find_func(lam, "__init__")) in (_NEW_INIT, _OLD_INIT)
        ok = ok and _body(astlib.find_func(lam, "_get_pos_args")) == _GET_POS
        ok = ok and _body(astlib.find_func(lam, "__call__")) == _CALL
        ok = ok and _body(astlib.find_func(lam, "get_arity")) == ["return len(self.args)"]
        ok = ok and ast.unparse(astlib.module_assign(m, "reserved_fn_args")) == "['x', 'y', 'z']"
        ok = ok and ast.unparse(astlib.module_assign(m, "reserved_fn_symbols")) == "[KGSym(n) for n in reserved_fn_args]"
        ok = ok and _body(astlib.find_func(astlib.find_class(m, "KGFnWrapper"), "__call__")) == _WRAP
        ok = ok and _body(astlib.find_func(astlib.find_class(m, "KGFnWrapper"), "_convert_args")) == _CONVERT
        ok = ok and _body(astlib.find_func(i, "set_context_var")) == _SCV
        ctx = astlib.find_class(i, "KlongContext")
        sb = _body(astlib.find_func(ctx, "__setitem__"))
        ok = ok and sb[0] == "assert isinstance(k, KGSym)" and sb[-2:] == ["set_context_var(self._context[0], k, v)", "return k"]
        gb = _body(astlib.find_func(ctx, "__getitem__"))
        ok = ok and gb[1].startswith("for d in self._context:\n    v = d.get(k, self._MISSING)\n    if v is not self._MISSING:\n        return v\n") and gb[-1] == "raise KeyError(k)"
        ok = ok and _body(astlib.find_func(ctx, "__delitem__"))[1:] == [
            "for d in self._context:\n    if in_map(k, d) and (not isinstance(d, ReadonlyDict)):\n        del d[k]\n        return", "raise KeyError(k)"]
        ki = astlib.find_class(i, "KlongInterpreter")
        ok = ok and _body(astlib.find_func(ki, "__getitem__")) == ["k = k if isinstance(k, KGSym) else KGSym(k)", "r = self._context[k]",
                                                                   "return KGFnWrapper(self, r, sym=k) if issubclass(type(r), KGFn) else r"]
        ok = ok and _body(astlib.find_func(ki, "__setitem__"))[:2] == ["k = k if isinstance(k, KGSym) else KGSym(k)", "self._context[k] = v"]
        ok = ok and _body(astlib.find_func(ki, "__delitem__"))[:2] == ["k = k if isinstance(k, KGSym) else KGSym(k)", "del self._context[k]"]
        ef = _body(astlib.find_func(ki, "_eval_fn"))
        need = ["if (0 if f_args is None else len(f_args)) < f_arity or has_none(f_args):\n    return x",
                "ctx = {} if f_args is None else {reserved_fn_symbol_map[p]: self.call(q) for p, q in zip(reserved_fn_args, f_args)}",
                "self._context.push(ctx)"]
        pos = [ef.index(s) if s in ef else -1 for s in need]
        ok = ok and all(p >= 0 for p in pos) and pos == sorted(pos)
        tail = ef[pos[-1] + 1:] if pos[-1] >= 0 else None
        ok = ok and tail in ([_EF_FINALLY], _EF_PLAIN)
        return ok

    def pops_in_finally():
        ki = astlib.find_class(astlib.module("klongpy/interpreter.py"), "KlongInterpreter")
        ef = _body(astlib.find_func(ki, "_eval_fn"))
        if "self._context.push(ctx)" not in ef:
            raise ShapeError("_eval_fn: no push")
        tail = ef[ef.index("self._context.push(ctx)") + 1:]
        if tail == [_EF_FINALLY]:
            return True
        if tail == _EF_PLAIN:
            return False
        raise ShapeError("_eval_fn: call/pop has neither known shape")

    def merge_shape():
        m = astlib.module("klongpy/types.py")
        return _body(astlib.find_func(m, "merge_projections")) == _MERGE

    def follow():
        m = astlib.module("klongpy/types.py")
        si = astlib.find_func(m, "safe_inspect")
        if ast.unparse(si.args) != "fn, follow_wrapped=True" or _body(si) != [
                "try:\n    return inspect.signature(fn, follow_wrapped=follow_wrapped).parameters\nexcept ValueError:\n    return {'args': []}"]:
            raise ShapeError("safe_inspect has not the expected shape")
        s = astlib.module("klongpy/sys_fn.py")
        calls = [ast.unparse(c) for c in astlib.calls_in(astlib.find_func(s, "_handle_import"), "safe_inspect")]
        if calls == ["safe_inspect(item, follow_wrapped=True)"] or calls == ["safe_inspect(item)"]:
            return True
        if calls == ["safe_inspect(item, follow_wrapped=False)"]:
            return False
        raise ShapeError("_handle_import: unexpected safe_inspect call %r" % calls)

    flag("kglambda_args_positional", positional)
    flag("setitem_wraps_existing", wraps)
    flag("interop_shape_ok", shape)
    flag("merge_projections_positional", merge_shape)
    flag("eval_fn_pops_in_finally", pops_in_finally)
    flag("import_follows_wrapped", follow)
    for n in notes:
        out.append("(* shape not recognised: %s *)" % n)
    return "\n".join(out) + "\n"


# ------------------------------------------------------------------------------------------------ instrumented callables
TOK = 10 ** 9          # return tokens of instrumented callables: TOK + index in the call log
KID0 = 700             # Klong function ids 700..: body returns [kid a1 a2 ...]
SIGS = [list(p) for n in range(4) for p in itertools.permutations("xyz", n)]       # the 16 duplicate-free lists among x,y,z
PREFIX_SETS = [set(), {"x"}, {"x", "y"}, {"x", "y", "z"}]
NAME = {5: "pa", 6: "pb", 7: "pc"}


class World:
    """one interpreter + the call log of all instrumented callables created for it"""

    def __init__(self):
        from klongpy import KlongInterpreter
        self.k = KlongInterpreter()
        self.log = []          # (pid, tuple of raw args)
        self.fns = {}          # pid -> python function
        self.by_obj = {}

    def make(self, pid, sig, klong=False, boom=None, exc="ValueError", defaults=None, helper=False):
        """defaults: {name: value} for some of the x,y,z parameters; helper: a trailing defaulted parameter that is not x,y,z
        (the  lambda x, k=klong:  idiom)"""
        defaults = defaults or {}
        first = min([i for i, p_ in enumerate(sig) if p_ in defaults] or [len(sig)])
        params = (["klong"] if klong else []) + [p_ if i < first else "%s=%r" % (p_, defaults.get(p_, 0)) for i, p_ in enumerate(sig)] + \
                 (["k_=None"] if helper else [])
        src = ("def f%d(%s):\n    log.append((%d, (%s)))\n    if BOOM is not None and any(type(a_) in (int, np.int64) and a_ == BOOM for a_ in (%s)):\n"
               "        raise EXC('boom')\n    return TOK + len(log) - 1\n") % (
            pid, ", ".join(params), pid, "".join(p + ", " for p in sig), "".join(p + ", " for p in sig))
        import numpy as np
        class CustomError(Exception):
            pass
        g = {"log": self.log, "TOK": TOK, "BOOM": boom, "np": np,
             "EXC": {"ValueError": ValueError, "TypeError": TypeError, "KeyError": KeyError, "Custom": CustomError}[exc]}
        exec(src, g)
        fn = g["f%d" % pid]
        self.fns[pid] = fn
        self.by_obj[id(fn)] = pid
        return fn

    def canon(self, v):
        import numpy as np
        from klongpy.core import KGSym, KGFn, KGCall, KGLambda
        if isinstance(v, (bool, np.bool_, int, np.integer)):
            v = int(v)
            if v >= TOK:
                pid, args = self.log[v - TOK]
                return ["pyres", pid] + [self.canon(a) for a in args]
            return ["i", v]
        if v is None:
            return ["none"]
        if type(v).__name__ == "KGUndefined":
            return ["u"]
        if isinstance(v, KGSym):
            return ["sym", SYMS.get(str(v), 99)]
        if isinstance(v, str):
            return ["s"] + [ord(c) for c in v]
        if isinstance(v, np.ndarray):
            if v.ndim == 0:
                return self.canon(v.item())
            return ["l"] + [self.canon(x) for x in v]
        if isinstance(v, (list, tuple)):
            return ["l"] + [self.canon(x) for x in v]
        if id(v) in self.by_obj:
            return ["pyobj", self.by_obj[id(v)]]
        if type(v).__name__ == "KlongInterpreter":
            return ["klong"]
        if isinstance(v, KGCall):
            return ["callobj"]
        if isinstance(v, KGFn):
            return ["fnobj"]
        return ["other", type(v).__name__]

    def kres(self, c):
        """[kid a1 ...] returned by an instrumented Klong function -> (kres kid a1 ...)"""
        if c[0] == "l" and len(c) >= 2 and c[1][0] == "i" and KID0 <= c[1][1] < KID0 + 100:
            return ["kres", c[1][1]] + c[2:]
        return c

    def logs_from(self, start):
        return [[pid] + [self.canon(a) for a in args] for pid, args in self.log[start:]]


def lit(v):
    """Klong text of a canonical argument value"""
    if v[0] == "i":
        return str(v[1]) if v[1] >= 0 else "(%d)" % v[1]
    if v[0] == "s":
        return '"' + "".join(chr(c) for c in v[1:]) + '"'
    if v[0] == "l":
        return "[" + " ".join(lit(x).strip("()") for x in v[1:]) + "]"
    if v[0] == "sym":
        return ":" + [k_ for k_, n_ in SYMS.items() if n_ == v[1]][0]
    if v[0] == "u":
        return "(1%0)"
    raise ValueError(v)


def pyarg(v):
    if v[0] == "u":
        return None          # a Python None argument of a wrapper call is Klong's :undefined
    if v[0] == "sym":
        from klongpy.core import KGSym
        return KGSym([k_ for k_, n_ in SYMS.items() if n_ == v[1]][0])
    if v[0] == "i":
        return v[1]
    if v[0] == "s":
        return "".join(chr(c) for c in v[1:])
    return [pyarg(x) for x in v[1:]]


# symbols share the name space of variables: sa is bound in the known-finding replay only, qq / qr never
SYMS = {"sa": 40, "qq": 41, "qr": 42}
ARGS = [["i", 1], ["i", 2], ["i", 0], ["i", -4], ["s", 97, 98], ["s"], ["l", ["i", 1], ["i", 2]], ["l", ["s", 97], ["i", 3]], ["i", 12], ["sym", 41]]
SCALARS = [["i", 1], ["i", 2], ["i", 5], ["i", -4], ["s", 97, 98], ["s", 99], ["sym", 42]]


def params_sx(sig, klong):
    return (["klong"] if klong else []) + list(sig)


# ------------------------------------------------------------------------------------------------ part A: argument passing
def args_cases(rng, tier):
    """(sig, klong, form, args/holes, inside) — every signature x klong x applicable form x inside/top, arguments sampled"""
    reps = 6 if tier == "quick" else 40
    for sig in SIGS:
        for klong in (False, True):
            n = len(sig)
            forms = ["direct", "at"] if n >= 1 else ["direct"]
            if n >= 2:
                forms.append("proj")
            if n == 1:
                forms.append("each")
            if n == 2:
                forms.append("over")
            for form in forms:
                for inside in (False, True):
                    for _ in range(reps):
                        if form == "each":
                            a = [rng.choice(SCALARS) for _ in range(rng.randint(0, 4))]
                            if a and len({x[0] for x in a}) > 1 and rng.random() < 0.5:
                                a = [x for x in a if x[0] == "i"]
                        elif form == "over":
                            a = [rng.choice(SCALARS) for _ in range(rng.randint(1, 4))]
                        else:
                            a = [rng.choice(ARGS) for _ in range(n)]
                        holes = None
                        if form == "proj":
                            k = rng.randint(1, n - 1)
                            idx = sorted(rng.sample(range(n), k))
                            holes = [i in idx for i in range(n)]
                        yield sig, klong, form, a, holes, inside


def run_args_case(case):
    sig, klong, form, a, holes, inside = case
    w = World()
    fn = w.make(1, sig, klong)
    w.k["pa"] = fn
    outer = [["i", 7], ["i", 8], ["i", 9]]
    if form == "direct":
        text = ["pa(%s)" % ";".join(lit(x) for x in a)]
        mform = ["direct"] + a
    elif form == "at":
        text = ["pa@[%s]" % " ".join(lit(x).strip("()") for x in a)] if all(x[0] != "l" for x in a) and len({x[0] for x in a}) == 1 \
            else ["pa(%s)" % ";".join(lit(x) for x in a)]
        mform = ["at"] + a
    elif form == "proj":
        first = ";".join("" if h else lit(x) for x, h in zip(a, holes))
        rest = ";".join(lit(x) for x, h in zip(a, holes) if h)
        text = ["pq::pa(%s)" % first, "pq(%s)" % rest]
        mform = ["proj", [["none"] if h else ["some", x] for x, h in zip(a, holes)]] + [x for x, h in zip(a, holes) if h]
    elif form == "each":
        text = ["pa'[%s]" % " ".join(lit(x).strip("()") for x in a)]
        mform = ["each"] + a
    else:
        text = ["pa/[%s]" % " ".join(lit(x).strip("()") for x in a)]
        mform = ["over"] + a
    if inside:
        # a function whose whole body is one call with an array-literal argument does not parse (get_fn_arity hashes the
        # arguments: evaluator territory, C03); give such bodies a leading statement
        pre = "0;" if any(x[0] == "l" for x in a) and form in ("direct", "proj", "at") else ""
        text = [t if i < len(text) - 1 else "{%s%s}(7;8;9)" % (pre, t) for i, t in enumerate(text)]
    res = None
    try:
        for t in text:
            r = w.k(t)
        res = ["val", w.canon(r)]
    except Exception as e:  # noqa
        res = ["err"]
        exc = type(e).__name__
    frames = ["frames"]
    if inside:
        frames.append([[0, ["data", outer[0]]], [1, ["data", outer[1]]], [2, ["data", outer[2]]]])
    frames.append([[5, ["py", 1, params_sx(sig, klong)]]])
    req = sx(["form", frames, 5, mform])
    # what the property prescribes
    if form in ("direct", "at", "proj"):
        want_log = [[1] + a]
        want_res = ["val", ["pyres", 1] + a]
    elif form == "each":
        want_log = [[1, x] for x in a]
        want_res = ["val", ["l"] + [["pyres", 1, x] for x in a]]
    else:
        acc = a[0]
        want_log = []
        for x in a[1:]:
            want_log.append([1, acc, x])
            acc = ["pyres", 1, acc, x]
        want_res = ["val", acc]
    return {"text": text, "sig": params_sx(sig, klong), "form": form, "inside": inside, "impl_res": res, "impl_log": w.logs_from(0),
            "want_res": want_res, "want_log": want_log, "req": req}


# ------------------------------------------------------------------------------------------------ part A2: multi-stage projections
def stage_chains(arity):
    """all chains of argument lists (>= 2 lists) ending in a full application; entries are positions or None"""
    out = []

    def rec(chain, open_holes):
        for k in range(1, len(open_holes) + 1):
            for chosen in itertools.combinations(range(len(open_holes)), k):
                st = [open_holes[j] if j in chosen else None for j in range(len(open_holes))]
                rest = [h for j, h in enumerate(open_holes) if j not in chosen]
                if rest:
                    rec(chain + [st], rest)
                else:
                    out.append(chain + [st])
    rec([], list(range(arity)))
    return [c for c in out if len(c) >= 2]


def staged_cases(rng, tier):
    pool = [["i", 11], ["i", 22], ["i", 33], ["s", 97, 98], ["l", ["i", 1], ["i", 2]], ["i", -4]]
    for n in (2, 3):
        sigs = [s_ for s_ in SIGS if len(s_) == n]
        for chain in stage_chains(n):
            for sig in (sigs if tier != "quick" else rng.sample(sigs, 3)):
                for klong in (False, True):
                    for inside in (False, True):
                        args = rng.sample(pool, n)
                        yield sig, klong, chain, args, inside, False
                        if len(chain[-1]) == 1:
                            a2 = [x if x[0] != "l" else ["i", 5] for x in args]
                            yield sig, klong, chain, a2, inside, True


def run_staged_case(case):
    sig, klong, chain, args, inside, each = case
    w = World()
    w.k["pa"] = w.make(1, sig, klong)

    def arglist(st):
        return "(" + ";".join("" if h is None else lit(args[h]) for h in st) + ")"
    text = []
    cur = "pa"
    for i, st in enumerate(chain[:-1]):
        text.append("s%d::%s%s" % (i, cur, arglist(st)))
        cur = "s%d" % i
    last = chain[-1]
    stages = [[["none"] if h is None else ["some", args[h]] for h in st] for st in chain]
    if each:
        v = args[last[0]]
        final = "%s'[%s %s]" % (cur, lit(v).strip("()"), lit(v).strip("()"))
        mform = ["stagedeach", stages[:-1], v, v]
        want_log = [[1] + args, [1] + args]
        want_res = ["val", ["l", ["pyres", 1] + args, ["pyres", 1] + args]]
    else:
        final = cur + arglist(last)
        mform = ["staged"] + stages
        want_log = [[1] + args]
        want_res = ["val", ["pyres", 1] + args]
    if inside:
        final = "{0;%s}(7;8;9)" % final
    text.append(final)
    try:
        for t in text:
            r = w.k(t)
        res = ["val", w.canon(r)]
    except Exception:  # noqa
        res = ["err"]
    frames = ["frames"]
    if inside:
        frames.append([[0, ["data", ["i", 7]]], [1, ["data", ["i", 8]]], [2, ["data", ["i", 9]]]])
    frames.append([[5, ["py", 1, params_sx(sig, klong)]]])
    return {"text": text, "sig": params_sx(sig, klong), "form": "stagedeach" if each else "staged", "inside": inside, "impl_res": res,
            "impl_log": w.logs_from(0), "want_res": want_res, "want_log": want_log, "req": sx(["form", frames, 5, mform])}


# ------------------------------------------------------------------------------------------------ part D: imported modules
MODULE_SRC = '''
import functools
TOK = %d
calls = []

def traced(fn):
    @functools.wraps(fn)
    def wrapper(*args, **kwargs):
        return fn(*args, **kwargs)
    return wrapper

def _rec(i, args):
    calls.append((i, tuple(args)))
    return TOK + len(calls) - 1

def p0():                 return _rec(1, ())
def p1(a):                return _rec(2, (a,))
def p2(a, b):             return _rec(3, (a, b))
def p3(a, b, c):          return _rec(4, (a, b, c))
def k0(klong):            return _rec(5, ())
def k1(klong, a):         return _rec(6, (a,))
def k2(klong, a, b):      return _rec(7, (a, b))
def k3(klong, a, b, c):   return _rec(8, (a, b, c))
@traced
def dp0():                return _rec(9, ())
@traced
def dp1(x):               return _rec(10, (x,))
@traced
def dp2(x, y):            return _rec(11, (x, y))
@traced
def dp3(a, b, c):         return _rec(12, (a, b, c))
@traced
def dk1(klong, x):        return _rec(13, (x,))
@traced
def dk2(klong, a, b):     return _rec(14, (a, b))
def q2(y, x):             return _rec(15, (y, x))
def kwo(a, *, k=1):       return _rec(16, (a,))
def va(*args):            return _rec(17, args)
def opt(a=None, b=None):  return _rec(18, tuple(v for v in (a, b) if v is not None))
def many(a, b, c, d):     return _rec(19, (a, b, c, d))
@traced
def dk3(klong, x, y, z):  return _rec(20, (x, y, z))
def po(a, /, b):          return _rec(21, (a, b))

IDS = dict(p0=1, p1=2, p2=3, p3=4, k0=5, k1=6, k2=7, k3=8, dp0=9, dp1=10, dp2=11, dp3=12, dk1=13, dk2=14, q2=15, kwo=16, va=17, opt=18, many=19, dk3=20, po=21)
klongpy_exports = {n: globals()[n] for n in IDS}
klongpy_exports["calls"] = calls
''' % TOK

IN_DOMAIN = {"p0": 0, "p1": 1, "p2": 2, "p3": 3, "k0": 0, "k1": 1, "k2": 2, "k3": 3, "dp0": 0, "dp1": 1, "dp2": 2, "dp3": 3, "dk1": 1, "dk2": 2,
             "q2": 2, "kwo": 1, "dk3": 3, "po": 2}
OTHERS = {"va": None, "opt": None}      # wildcard by design: modelled, not judged by the property text


def module_world(how, workdir, n):
    """a fresh interpreter that imported the instrumented module through .py or .pyf"""
    import inspect
    import os
    import sys
    name = "c09mod_%d_%s_%d" % (os.getpid(), how, n)
    path = os.path.join(workdir, name + ".py")
    with open(path, "w") as f:
        f.write(MODULE_SRC)
    w = World()
    if how == "py":
        w.k('.py("%s")' % path)
    else:
        names = sorted(IN_DOMAIN) + sorted(OTHERS) + ["many", "calls"]
        w.k('.pyf("%s";[%s])' % (path, ";".join('"%s"' % x for x in names)))
    mod = sys.modules[name]
    w.log = w.k["calls"]
    items = {}
    for fname, iid in mod.IDS.items():
        fn = getattr(mod, fname)
        ps = []
        for pn, p_ in inspect.signature(fn, follow_wrapped=True).parameters.items():
            kind = {p_.POSITIONAL_ONLY: "posonly", p_.POSITIONAL_OR_KEYWORD: "pos", p_.VAR_POSITIONAL: "varpos", p_.KEYWORD_ONLY: "kwonly", p_.VAR_KEYWORD: "varkw"}[p_.kind]
            ps.append([pn if pn in ("x", "y", "z", "klong") else "other", 1 if pn == "args" else 0, kind, 0 if p_.default is p_.empty else 1])
        items[fname] = ["item", iid, 1 if hasattr(fn, "__wrapped__") else 0, ps]
    sys.modules.pop(name, None)
    return w, items


def registered(w, fname, iid):
    from klongpy.core import KGSym, KGLambda
    try:
        e = w.k._context[KGSym(fname)]
    except KeyError:
        return ["unbound"]
    if isinstance(e, KGLambda):
        return ["lam", iid, 0 if e._wildcard else len(e.args), 1 if e._provide_klong else 0, 1 if e._wildcard else 0]
    return ["unregistered"]


def module_cases(rng, tier, workdir):
    """(world, name, statements, model request, prescribed log/result or None, description)"""
    vals = [["i", 11], ["i", 22], ["i", 33]]
    out = []
    for n, how in enumerate(("py", "pyf")):
        w, items = module_world(how, workdir, n)
        for fname in sorted(IN_DOMAIN) + sorted(OTHERS):
            iid = items[fname][1]
            r = IN_DOMAIN.get(fname)
            judged = r is not None
            ar = r if judged else rng.randint(1, 2)
            a = vals[:ar]
            forms = [("direct", ["direct"] + a, "%s(%s)" % (fname, ";".join(lit(x) for x in a)), [[iid] + a], ["val", ["pyres", iid] + a])]
            if ar >= 2:
                forms.append(("proj", ["proj", [["some", x] for x in a[:-1]] + [["none"]], a[-1]], "prj(%s)" % lit(a[-1]), [[iid] + a], ["val", ["pyres", iid] + a]))
            if ar == 1:
                forms.append(("each", ["each"] + vals, "%s'[11 22 33]" % fname, [[iid, v] for v in vals], ["val", ["l"] + [["pyres", iid, v] for v in vals]]))
            if ar == 2:
                acc = ["pyres", iid, vals[0], vals[1]]
                forms.append(("over", ["over"] + vals, "%s/[11 22 33]" % fname, [[iid, vals[0], vals[1]], [iid, acc, vals[2]]], ["val", ["pyres", iid, acc, vals[2]]]))
            if ar >= 1:
                # one argument short (modelled, not judged): a KGLambda stored directly is called all the same and reads the
                # missing slot from an enclosing frame, or raises KeyError at top level
                forms.append(("under", ["direct"] + a[:-1], "%s(%s)" % (fname, ";".join(lit(x) for x in a[:-1])), None, None))
            for form, mform, text, wl, wr in forms:
                for inside in (False, True):
                    pre = ["prj::%s(%s;)" % (fname, ";".join(lit(x) for x in a[:-1]))] if form == "proj" else []
                    stmt = "{(0*(x+y+z));%s}(7;8;9)" % text if inside else text
                    frames = ["frames"]
                    if inside:
                        frames.append([[0, ["data", ["i", 7]]], [1, ["data", ["i", 8]]], [2, ["data", ["i", 9]]]])
                    frames.append([])
                    req = sx(["iform", frames, items[fname], 5, mform])
                    out.append((w, fname, iid, pre + [stmt], req, (wl, wr) if (judged and wl is not None) else None, how, form, inside))
        out.append((w, "many", items["many"][1], [], sx(["iform", ["frames", []], items["many"], 5, ["direct"]]), None, how, "register", False))
    return out


def run_module_case(case):
    w, fname, iid, stmts, req, want, how, form, inside = case
    start = len(w.log)
    res = None
    try:
        r = None
        for t in stmts:
            r = w.k(t)
        res = ["val", w.canon(r)] if stmts else None
    except Exception:  # noqa
        res = ["err"]
    return {"reg": registered(w, fname, iid), "res": res, "log": w.logs_from(start)}


# ------------------------------------------------------------------------------------------------ part A3: raising callables, wrong counts, stores from inside a call
OUTER = [[0, ["data", ["i", 7]]], [1, ["data", ["i", 8]]], [2, ["data", ["i", 9]]]]


def depth(w):
    return len(w.k._context._context)


def raising_cases(rng, tier):
    """callable raising when it receives BOOM: direct / each / over, top level and inside a function"""
    out = []
    BOOM = 13
    excs = ["ValueError", "TypeError", "KeyError", "Custom"]
    for sig in SIGS:
        n = len(sig)
        if n == 0:
            continue
        for klong in (False, True):
            for inside in (False, True):
                forms = ["direct", "at"] + (["each"] if n == 1 else []) + (["over", "each2"] if n == 2 else [])
                for form in forms:
                    w = World()
                    exc = excs[len(out) % 4]
                    w.k["pa"] = w.make(1, sig, klong, boom=BOOM, exc=exc)
                    if form == "direct":
                        a = [["i", rng.choice([1, 2, 5])] for _ in range(n)]
                        a[rng.randrange(n)] = ["i", BOOM]
                        text = "pa(%s)" % ";".join(lit(x) for x in a)
                        mform = ["direct"] + a
                        want_log = [[1] + a]
                    elif form == "at":
                        # the arguments are members of an array (numpy scalars)
                        a = [["i", rng.choice([1, 2, 5])] for _ in range(n)]
                        a[rng.randrange(n)] = ["i", BOOM]
                        text = "pa@[%s]" % " ".join(lit(x) for x in a)
                        mform = ["at"] + a
                        want_log = [[1] + a]
                    elif form == "each2":
                        k_ = rng.randint(1, 3)
                        xs = [["i", rng.choice([1, 2, 5])] for _ in range(k_)]
                        ys = [["i", rng.choice([1, 2, 5])] for _ in range(k_)]
                        j_ = rng.randrange(k_)
                        (xs if rng.random() < 0.5 else ys)[j_] = ["i", BOOM]
                        text = "[%s]pa'[%s]" % (" ".join(lit(x) for x in xs), " ".join(lit(x) for x in ys))
                        mform = ["each2", xs, ys]
                        want_log = [[1, x_, y_] for x_, y_ in list(zip(xs, ys))[:j_ + 1]]
                    elif form == "each":
                        pre = [["i", rng.choice([1, 2, 5])] for _ in range(rng.randint(0, 3))]
                        post = [["i", rng.choice([1, 2, BOOM])] for _ in range(rng.randint(0, 2))]
                        a = pre + [["i", BOOM]] + post
                        text = "pa'[%s]" % " ".join(lit(x) for x in a)
                        mform = ["each"] + a
                        want_log = [[1, x] for x in pre + [["i", BOOM]]]
                    else:
                        k_ = rng.randint(1, 3)
                        a = [["i", rng.choice([1, 2, 5])] for _ in range(k_)] + [["i", BOOM]] + [["i", 2]]
                        text = "pa/[%s]" % " ".join(lit(x) for x in a)
                        mform = ["over"] + a
                        want_log, acc = [], a[0]
                        for x in a[1:]:
                            want_log.append([1, acc, x])
                            if x == ["i", BOOM]:
                                break
                            acc = ["pyres", 1, acc, x]
                    if inside:
                        text = "{0;%s}(7;8;9)" % text
                    d0 = depth(w)
                    try:
                        r = w.k(text)
                        res = ["val", w.canon(r)]
                    except Exception as e:  # noqa
                        res = ["err"] if type(e).__name__ in (exc, "CustomError") else ["err", type(e).__name__]
                    leaked = depth(w) - d0
                    try:
                        after = w.canon(w.k("x"))     # a leaked call frame would answer for the variable x
                    except Exception:  # noqa
                        after = ["exc"]
                    frames = ["frames"] + ([OUTER] if inside else []) + [[[5, ["py", 1, params_sx(sig, klong), BOOM]]]]
                    out.append({"kind": "raising", "exc": exc, "text": [text], "sig": params_sx(sig, klong), "form": form, "inside": inside,
                                "impl_res": res, "impl_log": w.logs_from(0), "impl_depth": leaked, "x_after": after,
                                "want_res": ["err"], "want_log": want_log, "req": sx(["form", frames, 5, mform])})
    return out


def count_cases(rng, tier):
    """applications with fewer / more arguments than the callable declares (modelled, not judged by the property text)"""
    out = []
    for sig in SIGS:
        n = len(sig)
        for klong in (False, True):
            for k_ in range(0, 4):
                if k_ == n:
                    continue
                for inside in (False, True):
                    w = World()
                    w.k["pa"] = w.make(1, sig, klong)
                    a = [["i", 11 * (i + 1)] for i in range(k_)]
                    text = "pa(%s)" % ";".join(lit(x) for x in a)
                    if inside:
                        text = "{0;%s}(7;8;9)" % text
                    try:
                        res = ["val", w.canon(w.k(text))]
                    except Exception:  # noqa
                        res = ["err"]
                    if res == ["val", ["callobj"]]:
                        res = ["unapplied"]
                    frames = ["frames"] + ([OUTER] if inside else []) + [[[5, ["py", 1, params_sx(sig, klong)]]]]
                    out.append({"kind": "count", "text": [text], "sig": params_sx(sig, klong), "form": "count%d" % k_, "inside": inside,
                                "impl_res": res, "impl_log": w.logs_from(0), "req": sx(["form", frames, 5, ["direct"] + a])})
    return out


def scoped_cases(rng, tier):
    """klong[...] = v performed by a running Python callable (new name, existing global), read inside and after the return"""
    out = []
    for inside in (False, True):
        for v in (["i", 3], ["s", 97, 98], ["l", ["i", 1], ["i", 2]]):
            w = World()
            seen = {}

            def setter(klong, x, seen=seen, v=v):
                klong["nv"] = pyarg(v)
                seen["nv"] = klong["nv"]
                klong["gv"] = x
                seen["gv"] = klong["gv"]
                seen["gv_prog"] = klong("gv")
                return 0
            w.k["gv"] = 1
            w.k["setter"] = setter
            w.k("{setter(x)}(10)" if inside else "setter(10)")
            try:
                nv_after = ["rb", ["data", w.canon(w.k["nv"])]]
            except KeyError:
                nv_after = ["rb", ["keyerror"]]
            impl = [["done"], ["rb", ["data", w.canon(seen["nv"])]], ["done"], ["rb", ["data", w.canon(seen["gv"])]]] + \
                   [["done"]] * (2 if inside else 1) + [nv_after, ["rb", ["data", w.canon(w.k["gv"])]]]
            frames = ["frames", [[0, ["data", ["i", 10]]]]] + ([[[0, ["data", ["i", 10]]]]] if inside else []) + \
                     [[[51, ["data", ["i", 1]]], [52, ["py", 9, ["klong", "x"]]]]]
            steps = [["set", 50, ["data", v]], ["read", 50], ["set", 51, ["data", ["i", 10]]], ["read", 51]] + \
                    [["pop", 0]] * (2 if inside else 1) + [["read", 50], ["read", 51]]
            ok_prop = (w.canon(seen["nv"]) == v and w.canon(seen["gv"]) == ["i", 10] and w.canon(seen["gv_prog"]) == ["i", 10]
                       and w.canon(w.k["gv"]) == ["i", 10])
            out.append({"kind": "scoped", "text": ["setter(10) with klong['nv']=%r; klong['gv']=x inside" % (pyarg(v),)], "inside": inside,
                        "impl": impl, "ok_prop": ok_prop, "req": sx(["scoped", frames] + steps)})
    return out


def symbol_finding():
    """KNOWN FINDING replay: with sa::5, pa'[:sa :qq] hands the callable 5 instead of the symbol :sa"""
    w = World()
    w.k["pa"] = w.make(1, ["x"])
    w.k("sa::5")
    w.k("pa'[:sa :qq]")
    frames = ["frames", [[5, ["py", 1, ["x"]]], [40, ["data", ["i", 5]]]]]
    return {"impl_log": w.logs_from(0), "want_log": [[1, ["sym", 40]], [1, ["sym", 41]]],
            "req": sx(["form", frames, 5, ["each", ["sym", 40], ["sym", 41]]]), "text": ["sa::5", "pa'[:sa :qq]"]}


# ------------------------------------------------------------------------------------------------ part A4: dyadic adverbs, defaulted parameters
def adverb_cases(rng, tier):
    """order-sensitive logging dyadic callables under Each-Left / Each-Right / Each-Pair / Over-Neutral / Scan-Over(-Neutral),
    list and atom operands on each side; the call log must be the definitional expansion of the adverb"""
    out = []
    two = [s_ for s_ in SIGS if len(s_) == 2]
    atoms = [["i", 10], ["i", 4], ["i", -4], ["s", 97, 98]]
    lists = [[], [["i", 1]], [["i", 1], ["i", 2]], [["i", 3], ["i", 1], ["i", 2]], [["s", 97], ["s", 98, 99]]]

    def txt(v):
        return lit(v) if v[0] != "l" else "[" + " ".join(lit(x).strip("()") for x in v[1:]) + "]"
    reps = 1 if tier == "quick" else 4
    for sig in two:
        for klong in (False, True):
            for inside in (False, True):
                for _ in range(reps):
                    cases = []
                    a = rng.choice(atoms + [["l", ["i", 7], ["i", 8]]])
                    # (a string on the right is a list of characters for the adverbs, not an atom: kept on the left only)
                    for b in [rng.choice(atoms[:3]), ["l"] + rng.choice(lists), ["l"] + rng.choice(lists[2:])]:
                        bl = b[1:] if b[0] == "l" else None
                        cases.append(("%s pa:\\%s" % (txt(a), txt(b)), ["eachleft", a, b], [(a, x) for x in bl] if bl is not None else [(a, b)], bl is not None))
                        cases.append(("%s pa:/%s" % (txt(a), txt(b)), ["eachright", a, b], [(x, a) for x in bl] if bl is not None else [(b, a)], bl is not None))
                    vs = rng.choice(lists)
                    cases.append(("pa:'%s" % txt(["l"] + vs), ["eachpair"] + vs, list(zip(vs, vs[1:])) if len(vs) > 1 else None, True))
                    a0 = rng.choice(atoms[:3])
                    for b in [rng.choice(atoms[:3]), ["l"] + rng.choice(lists[:4])]:
                        bl = b[1:] if b[0] == "l" else [b]
                        cases.append(("%s pa/%s" % (txt(a0), txt(b)), ["overn", a0, b], ("fold", a0, bl), False))
                        cases.append(("%s pa\\%s" % (txt(a0), txt(b)), ["scann", a0, b], ("scan", a0, bl, [a0]), False))
                    vs = rng.choice(lists[:4])
                    cases.append(("pa\\%s" % txt(["l"] + vs), ["scan"] + vs, ("scan", vs[0], vs[1:], [vs[0]]) if vs else ("scan0",), False))
                    for text, mform, calls, listres in cases:
                        w = World()
                        w.k["pa"] = w.make(1, sig, klong)
                        stmt = "{0;%s}(7;8;9)" % text if inside else text
                        try:
                            res = ["val", w.canon(w.k(stmt))]
                        except Exception:  # noqa
                            res = ["err"]
                        # the definitional expansion
                        if calls is None:                       # Each-Pair of fewer than two elements: the list itself
                            want_log, want_res = [], ["val", ["l"] + mform[1:]]
                        elif isinstance(calls, tuple) and calls[0] == "scan0":
                            want_log, want_res = [], ["val", ["l"]]
                        elif isinstance(calls, tuple):
                            acc, want_log, run = calls[1], [], []
                            for x in calls[2]:
                                want_log.append([1, acc, x])
                                acc = ["pyres", 1, acc, x]
                                run.append(acc)
                            if calls[0] == "fold":
                                want_res = ["val", acc]
                            else:
                                want_res = ["val", ["l"] + calls[3] + run] if (calls[2] or mform[0] == "scan") else ["val", calls[1]]
                        else:
                            want_log = [[1, x, y] for x, y in calls]
                            rs = [["pyres", 1, x, y] for x, y in calls]
                            want_res = ["val", ["l"] + rs] if listres else ["val", rs[0]]
                        frames = ["frames"] + ([OUTER] if inside else []) + [[[5, ["py", 1, params_sx(sig, klong)]]]]
                        out.append({"text": [stmt], "sig": params_sx(sig, klong), "form": mform[0], "inside": inside, "impl_res": res,
                                    "impl_log": w.logs_from(0), "want_res": want_res, "want_log": want_log, "req": sx(["form", frames, 5, mform])})
    return out


def default_cases(rng, tier):
    """stored callables whose x/y/z parameters partly have default values, and the  lambda x, k=klong:  idiom: every argument
    supplied must reach the callable (a defaulted x/y/z parameter counts as declared; a defaulted helper parameter does not exist
    for the interpreter)"""
    out = []
    shapes = [(["x", "y"], False, {"y": 7}, False), (["x", "y", "z"], True, {"z": 100}, False), (["x", "y", "z"], False, {"y": 5, "z": 6}, False),
              (["x"], False, {}, True), (["x", "y"], True, {"y": 3}, True), (["x"], False, {"x": 1}, False)]
    for sig, klong, defaults, helper in shapes:
        n = len(sig)
        a = [["i", 11 * (i + 1)] for i in range(n)]
        forms = [("direct", "pa(%s)" % ";".join(lit(x) for x in a), ["direct"] + a),
                 ("at", "pa@[%s]" % " ".join(lit(x) for x in a), ["at"] + a)]
        if n >= 2:
            forms.append(("proj", None, ["proj", [["none"]] + [["some", x] for x in a[1:]], a[0]]))
        if n == 2:
            forms.append(("overn", "%s pa/[%s]" % (lit(a[0]), lit(a[1])), ["overn", a[0], ["l", a[1]]]))
            forms.append(("eachleft", "%s pa:\\[%s]" % (lit(a[0]), lit(a[1])), ["eachleft", a[0], ["l", a[1]]]))
        if n == 1:
            forms.append(("each", "pa'[%s]" % lit(a[0]), ["each", a[0]]))
        forms.append(("python", None, None))
        for form, text, mform in forms:
            for inside in (False, True):
                w = World()
                w.k["pa"] = w.make(1, sig, klong, defaults=defaults, helper=helper)
                want_log = [[1] + a]
                one = ["pyres", 1] + a
                want_res = ["val", ["l", one] if form in ("eachleft", "each") else one]
                try:
                    if form == "python":
                        if inside:
                            continue
                        stmts = ["klong['pa'](%s)" % ", ".join(str(x[1]) for x in a)]
                        res = ["val", w.canon(w.k["pa"](*[x[1] for x in a]))]
                    else:
                        stmts = ["pq::pa(;%s)" % ";".join(lit(x) for x in a[1:]), "pq(%s)" % lit(a[0])] if form == "proj" else [text]
                        if inside:
                            stmts[-1] = "{0;%s}(7;8;9)" % stmts[-1]
                        for t_ in stmts:
                            r = w.k(t_)
                        res = ["val", w.canon(r)]
                except Exception as e:  # noqa
                    res = ["err", type(e).__name__]
                frames = ["frames"] + ([OUTER] if inside else []) + [[[5, ["py", 1, params_sx(sig, klong)]]]]
                out.append({"text": stmts, "sig": params_sx(sig, klong) + ["defaults=%r" % defaults] + (["k_=None"] if helper else []), "form": form,
                            "inside": inside, "impl_res": res, "impl_log": w.logs_from(0), "want_res": want_res, "want_log": want_log,
                            "req": sx(["form", frames, 5, mform if mform is not None else ["direct"] + a])})
    return out


# ------------------------------------------------------------------------------------------------ part B: histories
def hist_case(rng, length, forced=None):
    """a history over names pa/pb mixing klong[n]=data, klong[n]=callable, n::{..}, del, read, Klong call, wrapper calls"""
    w = World()
    steps = []       # (kind, python thunk, model step, oracle expectation or None)
    bound = {}       # the property oracle: name -> ("data", v) | ("call", pid, sig, klong) | ("kfn", kid, arity)
    wrappers = []    # (python wrapper object, sym, captured descriptor)
    npid = [1]
    nkid = [KID0]
    out = {"script": [], "impl": [], "model": [], "expect": []}

    def add(desc, thunk, mstep, expect):
        out["script"].append(desc)
        start = len(w.log)
        try:
            r = thunk()
            kind = "ok"
        except KeyError:
            r, kind = None, "keyerror"
        except Exception as e:  # noqa
            r, kind = type(e).__name__, "err"
        out["impl"].append((kind, r, start, len(w.log)))
        out["model"].append(mstep)
        out["expect"].append(expect)

    def entry_sx(d):
        if d[0] == "call":
            return ["py", d[1], params_sx(d[2], d[3])]
        return ["kfn", d[1], d[2]]

    for stepi in range(len(forced) if forced else length):
        n = rng.choice([5, 6])
        op = rng.choice(["data", "call", "call", "kfn", "kfn", "kfn", "del", "read", "read", "read", "apply", "apply", "wcall", "wcall", "wcall", "wcall", "rbcall"])
        force = None
        if forced:
            op, n, force = forced[stepi]      # force: arity of a Klong function / wrong-arity switch of a wrapper call
        nm = NAME[n]
        if op == "data":
            v = rng.choice(ARGS)
            bound[n] = ("data", v)
            add("klong[%r] = %r" % (nm, pyarg(v)), lambda nm=nm, v=v: w.k.__setitem__(nm, pyarg(v)), ["set", n, ["data", v]], ("done",))
        elif op == "call":
            sig = rng.choice(SIGS)
            kl = rng.random() < 0.3
            pid = npid[0]
            npid[0] += 1
            fn = w.make(pid, sig, kl)
            bound[n] = ("call", pid, sig, kl)
            add("klong[%r] = <callable %d(%s)>" % (nm, pid, ",".join(params_sx(sig, kl))), lambda nm=nm, fn=fn: w.k.__setitem__(nm, fn),
                ["set", n, ["call", pid, params_sx(sig, kl)]], ("done",))
        elif op == "kfn":
            ar = rng.randint(0, 3) if force is None else force
            kid = nkid[0]
            nkid[0] += 1
            body = ",%d" % kid if ar == 0 else "[%d],%s" % (kid, ",".join("xyz"[:ar]))
            bound[n] = ("kfn", kid, ar)
            add("%s::{%s}" % (nm, body), lambda nm=nm, body=body: w.k("%s::{%s}" % (nm, body)) and None, ["set", n, ["kfn", kid, ar]], ("done",))
        elif op == "del":
            exp = ("done",) if n in bound else ("unspecified",)     # deleting an unbound name: the property text is silent (model: KeyError)
            bound.pop(n, None)
            add("del klong[%r]" % nm, lambda nm=nm: w.k.__delitem__(nm), ["del", n], exp)
        elif op == "read":
            d = bound.get(n)

            def rd(nm=nm, n=n, d=d):
                r = w.k[nm]
                if d is not None and d[0] in ("call", "kfn") and type(r).__name__ == "KGFnWrapper":
                    wrappers.append((r, n, d))
                return r
            exp = ("rb", "keyerror") if d is None else (("rb", "data", d[1]) if d[0] == "data" else ("rb", "wrapper", n, entry_sx(d)))
            add("klong[%r]" % nm, rd, ["read", n], exp)
        elif op == "apply":
            d = bound.get(n)
            if d is None or d[0] == "data":
                continue
            ar = len(d[2]) if d[0] == "call" else d[2]
            a = [rng.choice(SCALARS if d[0] == "call" else [["i", 1], ["i", 2], ["i", 5]]) for _ in range(ar)]
            if d[0] == "call":
                exp = ("res", ["val", ["pyres", d[1]] + a], [[d[1]] + a])
            else:
                exp = ("res", ["val", ["kres", d[1]] + a], [])
            add("%s(%s)" % (nm, ";".join(lit(x) for x in a)), lambda nm=nm, a=a: w.k("%s(%s)" % (nm, ";".join(lit(x) for x in a))),
                ["apply", n] + a, exp)
        elif op in ("wcall", "rbcall"):
            if op == "rbcall":
                d = bound.get(n)
                if d is None or d[0] == "data":
                    continue
                ar = len(d[2]) if d[0] == "call" else d[2]
                if rng.random() < 0.25:
                    ar = (ar + 1) % 4
                a = [rng.choice([["i", 1], ["i", 2], ["i", 5], ["u"], ["u"]]) for _ in range(ar)]
                right = ar == (len(d[2]) if d[0] == "call" else d[2])
                if not right:
                    exp = ("res", ["err"], [])
                elif d[0] == "call":
                    exp = ("res", ["val", ["pyres", d[1]] + a], [[d[1]] + a])
                else:
                    exp = ("klongcall", nm, a)
                add("klong[%r](%s)" % (nm, ", ".join(repr(pyarg(x)) for x in a)), lambda nm=nm, a=a: w.k[nm](*[pyarg(x) for x in a]),
                    ["rbcall", n] + a, exp)
            else:
                if not wrappers:
                    continue
                wi = rng.randrange(len(wrappers)) if not forced else 0
                cap = wrappers[wi][2]
                sym = wrappers[wi][1]
                cur = bound.get(sym)
                target = cur if (cur is not None and cur[0] == "kfn") else cap
                ar = len(target[2]) if target[0] == "call" else target[2]
                if (rng.random() < 0.25) if force is None else force:
                    ar = (ar + 1) % 4
                a = [rng.choice([["i", 1], ["i", 2], ["i", 5], ["u"], ["u"]]) for _ in range(ar)]
                right = ar == (len(target[2]) if target[0] == "call" else target[2])
                if not right:
                    exp = ("res", ["err"], [])
                elif target[0] == "call":
                    exp = ("res", ["val", ["pyres", target[1]] + a], [[target[1]] + a])
                elif cur is not None and cur[0] == "kfn":
                    exp = ("klongcall", NAME[sym], a)
                else:
                    exp = ("res", ["val", ["kres", target[1]] + a], [])
                add("w%d(%s)   # wrapper of %s read earlier" % (wi, ", ".join(repr(pyarg(x)) for x in a), NAME[sym]),
                    lambda wi=wi, a=a: wrappers[wi][0](*[pyarg(x) for x in a]), ["wcall", sym, entry_sx(cap)] + a, exp)
        # the Klong-level twin of a wrapper call, evaluated right after it (same state)
        if out["expect"] and out["expect"][-1][0] == "klongcall":
            _, nm2, a2 = out["expect"][-1]
            try:
                twin = w.kres(w.canon(w.k("%s(%s)" % (nm2, ";".join(lit(x) for x in a2)))))
            except Exception as e:  # noqa
                twin = ["exc", type(e).__name__]
            out["expect"][-1] = ("res", ["val", twin], [])
    # canonical implementation outputs
    impl = []
    for (kind, r, start, stop), m in zip(out["impl"], out["model"]):
        tag = m[0]
        if tag in ("set", "del"):
            impl.append(["done"] if kind == "ok" else ["keyerror"] if kind == "keyerror" else ["err"])
        elif tag == "read":
            if kind == "keyerror":
                impl.append(["rb", ["keyerror"]])
            elif kind == "err":
                impl.append(["err"])
            elif type(r).__name__ == "KGFnWrapper":
                f = r.fn
                cap = None
                if type(f).__name__ == "KGCall" and type(f.a).__name__ == "KGLambda":
                    pid = w.by_obj.get(id(f.a.fn))
                    if pid is not None:
                        import inspect
                        ps = [p if p in ("x", "y", "z", "klong") else "other" for p in inspect.signature(f.a.fn).parameters]
                        cap = ["py", pid, ps]
                else:
                    cap = ["kfnobj"]
                impl.append(["rb", ["wrapper", m[1], cap]])
            elif id(r) in w.by_obj:
                impl.append(["rb", ["rawcallable", w.by_obj[id(r)]]])
            else:
                impl.append(["rb", ["data", w.canon(r)]])
        else:
            if kind == "ok":
                res = ["val", w.kres(w.canon(r))]
            else:
                res = ["err"]
            impl.append(["res", res, ["log"] + [[pid] + [w.canon(a) for a in args] for pid, args in w.log[start:stop]]])
    out["impl_canon"] = impl
    out["req"] = sx(["hist"] + out["model"])
    return out


def hist_compare(out, mo):
    """returns (property failure, correspondence failure) as step indices / None"""
    bad_prop = bad_corr = None
    if mo[0] != "ok" or len(mo) - 1 != len(out["model"]):
        raise RuntimeError("model rejected a history: %r" % (mo,))
    for i, (imp, m, exp) in enumerate(zip(out["impl_canon"], mo[1:], out["expect"])):
        # property oracle
        ok = True
        if exp[0] in ("done", "keyerror"):
            ok = imp == [exp[0]]
        elif exp[0] == "rb":
            if exp[1] == "keyerror":
                ok = imp == ["rb", ["keyerror"]]
            elif exp[1] == "data":
                ok = imp == ["rb", ["data", exp[2]]]
            else:
                # any callable standing for the stored one satisfies the property text (how it is wrapped is the model's business)
                ok = imp[0] == "rb" and (imp[1][0] == "wrapper" or (imp[1][0] == "rawcallable" and exp[3][0] == "py" and imp[1][1] == exp[3][1]))
        elif exp[0] == "res":
            ok = imp[0] == "res" and imp[1] == exp[1] and imp[2][1:] == exp[2]
        if not ok and bad_prop is None:
            bad_prop = i
        # model equality (a wrapper's captured Klong function is compared by kind only)
        mm = m
        if imp[0] == "rb" and imp[1][0] == "wrapper" and imp[1][2] == ["kfnobj"] and m[0] == "rb" and m[1][0] == "wrapper" and m[1][2][0] == "kfn":
            mm = ["rb", ["wrapper", m[1][1], ["kfnobj"]]]
        if imp != mm and bad_corr is None:
            bad_corr = i
    return bad_prop, bad_corr


# ------------------------------------------------------------------------------------------------ part C: import
IMPORT_SIGS = [
    "()", "(a)", "(a, b)", "(a, b, c)", "(a, b, c, d)", "(klong, a)", "(klong, a, b, c)", "(klong)", "(a, klong)", "(klong, a, b, c, d)",
    "(a=1)", "(a, b=2)", "(a=1, b=2)", "(*args)", "(a, *args)", "(*a)", "(a, *rest)", "(**kw)", "(a, **kw)", "(a, /, b)", "(a=1, /, b=2)",
    "(a, *, k=1)", "(a, *, k)", "(x, y, z)", "(args)", "(a, b, *, c=3)", "(klong, a=1)", "(a, b, c, d=4)", "(a, b, c, d, e)",
]


def import_cases():
    import inspect
    from klongpy.sys_fn import _handle_import
    from klongpy.core import KGLambda
    for s in IMPORT_SIGS:
        g = {}
        exec("def f%s:\n    return 0\n" % s, g)
        fn = g["f"]
        ps = []
        for name, p in inspect.signature(fn).parameters.items():
            kind = {p.POSITIONAL_ONLY: "posonly", p.POSITIONAL_OR_KEYWORD: "pos", p.VAR_POSITIONAL: "varpos", p.KEYWORD_ONLY: "kwonly", p.VAR_KEYWORD: "varkw"}[p.kind]
            ps.append([name if name in ("x", "y", "z", "klong") else "other", 1 if name == "args" else 0, kind, 0 if p.default is p.empty else 1])
        try:
            r = _handle_import(fn)
            if isinstance(r, KGLambda):
                impl = ["wildcard"] if r._wildcard else ["lambda", len(r.args), 1 if r._provide_klong else 0]
                if not r._wildcard and [str(a) for a in r.args] != ["x", "y", "z"][:len(r.args)]:
                    impl = ["lambda-nonprefix"]
            elif callable(r) and r is not fn:
                impl = ["star"]
            else:
                impl = ["unchanged"]
        except Exception:  # noqa
            impl = ["error"]
        yield s, sx(["import", ps]), impl


# ------------------------------------------------------------------------------------------------ run
def sweep(chk, rng, tier, hist_count, hist_len):
    bad_prop = bad_corr = None
    cases = [run_args_case(c) for c in args_cases(rng, tier)] + [run_staged_case(c) for c in staged_cases(rng, tier)] + \
            adverb_cases(rng, tier) + default_cases(rng, tier)
    mouts = chk.run_model([c["req"] for c in cases])
    seen = set()
    for c, mo in zip(cases, mouts):
        chk.count("evaluations")
        chk.count("args_" + c["form"])
        key = (tuple(c["sig"]), c["form"], c["inside"])
        if key not in seen:
            seen.add(key)
            chk.count("distinct_nontrivial")
        if mo[0] != "ok":
            raise RuntimeError("model rejected %r: %r" % (c["req"], mo))
        if (c["impl_res"] != c["want_res"] or c["impl_log"] != c["want_log"]) and bad_prop is None:
            bad_prop = {"kind": "arguments", "signature": "(" + ", ".join(c["sig"]) + ")", "statements": c["text"], "call_form": c["form"],
                        "inside_function_with_x_y_z_7_8_9": c["inside"], "call_log": sx(c["impl_log"]), "result": sx(c["impl_res"]),
                        "prescribed_log": sx(c["want_log"]), "prescribed_result": sx(c["want_res"])}
        if (c["impl_res"] != mo[1] or c["impl_log"] != mo[2][1:]) and bad_corr is None:
            bad_corr = {"kind": "arguments-correspondence", "signature": "(" + ", ".join(c["sig"]) + ")", "statements": c["text"],
                        "impl": sx([c["impl_res"], c["impl_log"]]), "model": sx(mo[1:])}
        chk.sample({"signature": c["sig"], "statements": c["text"], "log": sx(c["impl_log"])[:100]}, limit=4)
    # the scripted wrapper life cycle: define, read, call, redefine (other arity), call, wrong arity, delete, call (captured one),
    # rebind to data, call, rebind to a Python callable, call, define again, call
    life = [("kfn", 5, 2), ("read", 5, None), ("wcall", 5, False), ("kfn", 5, 3), ("wcall", 5, False), ("wcall", 5, True), ("del", 5, None),
            ("wcall", 5, False), ("wcall", 5, True), ("data", 5, None), ("wcall", 5, False), ("call", 5, None), ("wcall", 5, False),
            ("kfn", 5, 1), ("wcall", 5, False), ("rbcall", 5, None)]
    extra = raising_cases(rng, tier) + count_cases(rng, tier)
    for c, mo in zip(extra, chk.run_model([c["req"] for c in extra])):
        chk.count("evaluations")
        chk.count(c["kind"] + "_cases")
        chk.count("distinct_nontrivial")
        if mo[0] != "ok":
            raise RuntimeError("model rejected %r: %r" % (c["req"], mo))
        if c["kind"] == "raising":
            if (c["impl_res"] != c["want_res"] or c["impl_log"] != c["want_log"] or c["impl_depth"] != 0 or c["x_after"] != ["sym", 99]) and bad_prop is None:
                bad_prop = {"kind": "arguments", "signature": "(" + ", ".join(c["sig"]) + ") logging, then raising %s on 13" % c.get("exc", ""), "statements": c["text"], "call_form": c["form"],
                            "inside_function_with_x_y_z_7_8_9": c["inside"], "call_log": sx(c["impl_log"]),
                            "result": sx(c["impl_res"]) + " frames_left_on_scope_stack=%d x_afterwards=%s" % (c["impl_depth"], sx(c["x_after"])),
                            "prescribed_log": sx(c["want_log"]), "prescribed_result": "(err) propagated once, scope stack restored"}
            same = c["impl_res"][:1] == mo[1][:1] and c["impl_log"] == mo[2][1:] and c["impl_depth"] == mo[3][1]
        else:
            same = c["impl_res"] == mo[1] and c["impl_log"] == mo[2][1:]
        if not same and bad_corr is None:
            bad_corr = {"kind": c["kind"] + "-correspondence", "signature": "(" + ", ".join(c["sig"]) + ")", "statements": c["text"],
                        "impl": sx([c["impl_res"], c["impl_log"]]), "model": sx(mo[1:])}
    sc = scoped_cases(rng, tier)
    for c, mo in zip(sc, chk.run_model([c["req"] for c in sc])):
        chk.count("evaluations", len(c["impl"]))
        chk.count("scoped_store_cases")
        if mo[0] != "ok":
            raise RuntimeError("model rejected %r: %r" % (c["req"], mo))
        if not c["ok_prop"] and bad_prop is None:
            bad_prop = {"kind": "history", "script": c["text"], "failing_step": 0, "statement": c["text"][0], "implementation": sx(c["impl"]),
                        "prescribed": "values stored from inside the call read back at once and the global keeps its new value"}
        if c["impl"] != mo[1:] and bad_corr is None:
            bad_corr = {"kind": "scoped-store-correspondence", "script": c["text"], "inside": c["inside"], "impl": sx(c["impl"]), "model": sx(mo[1:])}
    hists = [hist_case(rng, 0, forced=life) for _ in range(3)] + [hist_case(rng, hist_len) for _ in range(hist_count)]
    mouts = chk.run_model([h["req"] for h in hists])
    for h, mo in zip(hists, mouts):
        chk.count("evaluations", len(h["model"]))
        chk.count("histories")
        for m, e in zip(h["model"], h["expect"]):
            chk.count("hist_" + m[0] + ("_err" if e[0] == "res" and e[1] == ["err"] else ""))
        if len(h["model"]) >= 3:
            chk.count("distinct_nontrivial")
        bp, bc = hist_compare(h, mo)
        if bp is not None and bad_prop is None:
            bad_prop = {"kind": "history", "script": h["script"][:bp + 1], "failing_step": bp, "statement": h["script"][bp],
                        "implementation": sx(h["impl_canon"][bp]), "prescribed": repr(h["expect"][bp])}
        if bc is not None and bad_corr is None:
            bad_corr = {"kind": "history-correspondence", "script": h["script"][:bc + 1], "failing_step": bc,
                        "impl": sx(h["impl_canon"][bc]), "model": sx(mo[1 + bc])}
        chk.sample({"history": h["script"][:8]}, limit=6)
    # imported modules: registration and application of plain / decorated / star-args / keyword-only / 4-parameter functions
    import os
    import shutil
    workdir = os.path.join(VERIF, ".work", "C09-%d" % os.getpid())
    os.makedirs(workdir, exist_ok=True)
    try:
        mcases = module_cases(rng, tier, workdir)
        mres = [run_module_case(c) for c in mcases]
    finally:
        shutil.rmtree(workdir, ignore_errors=True)
    mouts = chk.run_model([c[4] for c in mcases])
    for c, r, mo in zip(mcases, mres, mouts):
        w, fname, iid, stmts, req, want, how, form, inside = c
        chk.count("evaluations")
        chk.count("module_" + form)
        chk.count("distinct_nontrivial")
        desc = {"kind": "imported", "function": fname, "imported_with": "." + how, "statements": stmts, "call_log": sx(r["log"]), "result": sx(r["res"] or ["none"]),
                "registered_as": sx(r["reg"])}
        if want is not None and (r["log"] != want[0] or r["res"] != want[1]) and bad_prop is None:
            bad_prop = dict(desc, prescribed_log=sx(want[0]), prescribed_result=sx(want[1]), signature=fname, call_form=form,
                            inside_function_with_x_y_z_7_8_9=inside)
            bad_prop["kind"] = "arguments"
        if mo[0] == "unregistered":
            same = r["reg"] == ["unregistered"]
        elif mo[0] == "ok":
            mreg = mo[1]
            same = r["reg"][0] == "lam" and mreg[0] == "lam" and r["reg"][3:] == mreg[3:] and (mreg[4] == 1 or r["reg"][2] == mreg[2])
            if stmts:
                same = same and r["res"] == mo[2] and r["log"] == mo[3][1:]
        else:
            raise RuntimeError("model rejected %r: %r" % (req, mo))
        if not same and bad_corr is None:
            bad_corr = dict(desc, kind="imported-correspondence", model=sx(mo))
    imps = list(import_cases())
    mouts = chk.run_model([r for _, r, _ in imps])
    for (s, _, impl), mo in zip(imps, mouts):
        chk.count("evaluations")
        chk.count("import_signatures")
        if impl != mo and bad_corr is None:
            bad_corr = {"kind": "import-correspondence", "signature": "def f%s" % s, "impl": sx(impl), "model": sx(mo)}
    return bad_prop, bad_corr


def describe(bp):
    if bp["kind"] == "arguments":
        return ("Python callable %s applied by %s%s was called with log %s and gave %s; the property prescribes log %s and result %s"
                % (bp["signature"], " ; ".join(bp["statements"]), " (inside a function)" if bp["inside_function_with_x_y_z_7_8_9"] else "",
                   bp["call_log"], bp["result"], bp["prescribed_log"], bp["prescribed_result"]))
    return "step %d `%s` of the replayed history gives %s; the property prescribes %s" % (bp["failing_step"], bp["statement"], bp["implementation"], bp["prescribed"])


def run(tier, replay=None):
    chk = Check("C09", tier)
    rng = random.Random(chk.seed * 65537 + 9)
    chk.generate(generate())
    chk.build_model()
    hits = forbidden_scan("C09")
    proof = chk.build_proofs()
    if hits:
        proof["ok"] = False
        proof["error"] = "forbidden declarations: %r" % hits
        proof["broken"] = hits[0]
    sf = symbol_finding()
    smo = chk.run_model([sf["req"]])[0]
    chk.count("evaluations")
    if sf["impl_log"] != sf["want_log"]:
        if smo[0] == "ok" and smo[2][1:] == sf["impl_log"]:
            chk.finding("C09-symbol-argument-reevaluated",
                        "a symbol argument naming a bound variable is evaluated a second time: %s calls the callable with %s" % (" ; ".join(sf["text"]), sx(sf["impl_log"])),
                        {"kind": "symbol-argument", "statements": sf["text"], "call_log": sx(sf["impl_log"]), "prescribed_log": sx(sf["want_log"])})
        else:
            chk.violation("symbol arguments: %s gives call log %s, neither the prescribed %s nor the model's %s"
                          % (" ; ".join(sf["text"]), sx(sf["impl_log"]), sx(sf["want_log"]), sx(smo)),
                          {"kind": "symbol-argument", "statements": sf["text"], "call_log": sx(sf["impl_log"])})
    hc, hl = (700, 10) if tier == "quick" else (6000, 16)
    bad_prop, bad_corr = sweep(chk, rng, tier, hc, hl)
    if bad_prop is None and (bad_corr is not None or not proof["ok"]):
        bp2, bc2 = sweep(chk, random.Random(chk.seed * 31 + 1234567), "thorough", 4 * hc, hl + 4)
        bad_prop = bp2
        bad_corr = bad_corr or bc2
    if bad_prop is not None:
        chk.violation("interop is not faithful: " + describe(bad_prop), bad_prop)
    elif bad_corr is not None:
        chk.violation("correspondence between klongpy and the Coq interop model broke (%s); no failing input of the property found in %d evaluations"
                      % (bad_corr["kind"], chk.counters.get("evaluations", 0)), {"broken": "correspondence C09/Model.v", "detail": bad_corr}, no_input=True)
    elif not proof["ok"]:
        chk.violation("proof obligation no longer checks: %s" % proof["broken"],
                      {"broken_obligation": proof["broken"], "coq_error": proof["error"], "generated": chk.generated_text}, no_input=True)
    return chk.finish(
        rule="arguments: all 16 duplicate-free parameter lists among x,y,z x with/without leading klong x applicable call forms (direct, @, projection with every "
             "hole pattern sampled, each for arity 1, over for arity 2) x top level / inside {..}(7;8;9), arguments sampled from ints, strings, lists; "
             "histories: seeded sequences over two names of klong[n]=data / =callable of any signature / n::{..} of arity 0-3 / del / klong[n] / Klong call / "
             "call of what klong[n] returns (right and wrong arity) / call of wrappers read earlier (after redefinition, deletion, rebinding), each wrapper call "
             "also compared with the Klong call name(a;b;c) in the same state; import: %d signatures through _handle_import. "
             "distinct = (signature, form, inside) triples + histories of length >= 3" % len(IMPORT_SIGS),
        trusted_base=TRUSTED, assumptions=ASSUME)


def replay(path):
    body = json.load(open(path))
    print(json.dumps(body, indent=1)[:4000])
    return 0
