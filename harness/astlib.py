"""Helpers for the fail-closed `ast` translators (DESIGN.md 1.2).

A translator reads /repo sources with Python's ast module and emits Coq
definitions for literal tables, constants and structural flags.  Anything that
does not have the expected shape makes the translator emit `<name>_shape_ok :=
false` (or raise ShapeError, which the caller turns into that), never a guess.
"""
import ast
import os

from .common import REPO


class ShapeError(Exception):
    pass


_cache = {}


def module(relpath):
    p = os.path.join(REPO, relpath)
    key = (p, os.path.getmtime(p))
    if key not in _cache:
        with open(p, encoding="utf-8") as f:
            _cache[key] = ast.parse(f.read(), filename=p)
    return _cache[key]


def find_class(mod, name):
    for n in mod.body:
        if isinstance(n, ast.ClassDef) and n.name == name:
            return n
    raise ShapeError("class %s not found" % name)


def find_func(scope, name):
    """function (sync or async) directly inside a module / class / function body"""
    for n in scope.body:
        if isinstance(n, (ast.FunctionDef, ast.AsyncFunctionDef)) and n.name == name:
            return n
    raise ShapeError("function %s not found" % name)


def find_func_deep(scope, name):
    for n in ast.walk(scope):
        if isinstance(n, (ast.FunctionDef, ast.AsyncFunctionDef)) and n.name == name:
            return n
    raise ShapeError("function %s not found" % name)


def has_method(cls, name):
    return any(isinstance(n, (ast.FunctionDef, ast.AsyncFunctionDef)) and n.name == name for n in cls.body)


def module_assign(mod, name):
    for n in mod.body:
        if isinstance(n, ast.Assign) and len(n.targets) == 1 and isinstance(n.targets[0], ast.Name) and n.targets[0].id == name:
            return n.value
    raise ShapeError("module-level assignment %s not found" % name)


def calls_in(node, fname):
    """all Call nodes whose callee is Name(fname) or Attribute(..., fname)"""
    out = []
    for n in ast.walk(node):
        if isinstance(n, ast.Call):
            f = n.func
            if (isinstance(f, ast.Name) and f.id == fname) or (isinstance(f, ast.Attribute) and f.attr == fname):
                out.append(n)
    return out


def const(node):
    if isinstance(node, ast.Constant):
        return node.value
    raise ShapeError("constant expected, got %s" % ast.dump(node)[:80])


def body_no_doc(fn):
    b = fn.body
    if b and isinstance(b[0], ast.Expr) and isinstance(getattr(b[0], "value", None), ast.Constant) and isinstance(b[0].value.value, str):
        return b[1:]
    return b


def coq_bool(b):
    return "true" if b else "false"


def coq_string(s):
    return '"' + s.replace('"', '""') + '"'


def coq_list(items):
    return "[" + "; ".join(items) + "]"


def try_flag(fn):
    """run fn(); ShapeError -> (False, reason)"""
    try:
        return fn(), None
    except ShapeError as e:
        return None, str(e)
