"""C13 — remote evaluation over IPC equals evaluation on the server; framing.

Link 1 (Coq): coq/C13/Properties.v  (frame_delivery, cut_delivery, length round trip, transport identity)
Link 2 (here): the real encode_message / stream_recv_msg on a real asyncio.StreamReader, and a live
server + client pair against a twin local interpreter, compared with the extracted model.
"""
import ast
import asyncio
import itertools
import json
import os
import pickle
import random
import subprocess
import sys
import uuid

from . import astlib
from .astlib import ShapeError
from .common import Check, sx, forbidden_scan, PY, VERIF, REPO

TRUSTED = [
    "Coq 8.16.1 kernel (coqc), vm_compute used only in the non-vacuity Example",
    "Print Assumptions: all C13 theorems closed under the global context (no axioms)",
    "translator harness/c13.py:generate (Python ast) for id/length sizes, struct format and KGUndefined.__reduce__",
    "extraction: ExtrOcamlBasic only (Extract Inductive bool/option/unit/list/prod/sumbool/sumor, inlined andb/orb/fst/snd); Z kept as inductive; ocaml/driver.ml",
    "correspondence harness: asyncio.StreamReader.feed_data/feed_eof semantics, pickle, canon.py",
]
ASSUME = [
    "asyncio.StreamReader.readexactly(n) returns exactly the next n buffered bytes once n are available (modelled, sampled by link 2)",
    "pickle.loads(pickle.dumps(v)) is structurally v and preserves identity only for objects reduced to module globals (modelled by `transport`)",
    "real TCP segmentation is represented by arbitrary chunking of the byte stream",
    "T13.remote (server dispatch) is validated differentially against a twin interpreter, not proved",
]


# ---------------------------------------------------------------- translator
def generate():
    out = ["From Coq Require Import ZArith List.", "Import ListNotations."]
    # KGUndefined.__reduce__ returns the name of the module-level singleton
    def undef_flag():
        m = astlib.module("klongpy/types.py")
        cls = astlib.find_class(m, "KGUndefined")
        if not astlib.has_method(cls, "__reduce__"):
            return False
        fn = astlib.find_func(cls, "__reduce__")
        body = astlib.body_no_doc(fn)
        if len(body) != 1 or not isinstance(body[0], ast.Return):
            raise ShapeError("__reduce__ body is not a single return")
        name = astlib.const(body[0].value)
        if not isinstance(name, str):
            raise ShapeError("__reduce__ does not return a global name")
        val = astlib.module_assign(m, name)
        if not (isinstance(val, ast.Call) and isinstance(val.func, ast.Name) and val.func.id == "KGUndefined"):
            raise ShapeError("global %s is not KGUndefined()" % name)
        # identity tests in the code base use KLONG_UNDEFINED
        return name == "KLONG_UNDEFINED"
    flag, why = astlib.try_flag(undef_flag)
    out.append("Definition undef_reduces_to_global : bool := %s.%s" % (
        astlib.coq_bool(bool(flag)), "" if why is None else "  (* shape not recognised: %s *)" % why))

    def single_write():
        m = astlib.module("klongpy/sys_fn_ipc.py")
        fn = astlib.find_func(m, "stream_send_msg")
        body = astlib.body_no_doc(fn)
        writes = astlib.calls_in(fn, "write")
        if len(writes) != 1:
            return False
        w = writes[0]
        if not (len(w.args) == 1 and isinstance(w.args[0], ast.Call) and isinstance(w.args[0].func, ast.Name)
                and w.args[0].func.id == "encode_message"):
            return False
        # the write is the first statement: no suspension point (await) before or inside it
        first = body[0]
        if not (isinstance(first, ast.Expr) and first.value is w):
            return False
        return not any(isinstance(n, (ast.Await, ast.Yield, ast.YieldFrom)) for n in ast.walk(first))
    sw, why_sw = astlib.try_flag(single_write)
    out.append("Definition send_is_single_write : bool := %s.%s" % (
        astlib.coq_bool(bool(sw)), "" if why_sw is None else "  (* shape not recognised: %s *)" % why_sw))

    def ids():
        m = astlib.module("klongpy/sys_fn_ipc.py")
        nc = astlib.find_class(m, "NetworkClient")
        lis = astlib.find_func(nc, "_listen")
        # msg_id, msg = await stream_recv_msg(self.reader)
        recv_ok = False
        for n in ast.walk(lis):
            if isinstance(n, ast.Assign) and isinstance(n.value, ast.Await) and isinstance(n.value.value, ast.Call) \
                    and getattr(n.value.value.func, "id", None) == "stream_recv_msg":
                t = n.targets[0]
                recv_ok = isinstance(t, ast.Tuple) and [getattr(e, "id", None) for e in t.elts] == ["msg_id", "msg"]
        sends = astlib.calls_in(lis, "stream_send_msg")
        reply_ok = recv_ok and len(sends) >= 1 and all(len(c.args) == 3 and getattr(c.args[1], "id", None) == "msg_id" for c in sends)
        # no re-assignment of msg_id inside _listen
        stores = [n for n in ast.walk(lis) if isinstance(n, ast.Name) and n.id == "msg_id" and isinstance(n.ctx, ast.Store)]
        reply_ok = reply_ok and len(stores) == 1
        # matched by id: `if msg_id in self.pending_responses:` ... `.pop(msg_id)`
        pops = [c for c in astlib.calls_in(lis, "pop") if len(c.args) == 1 and getattr(c.args[0], "id", None) == "msg_id"]
        reply_ok = reply_ok and len(pops) == 1
        call = astlib.find_func(nc, "call")
        assigns = [n for n in ast.walk(call) if isinstance(n, ast.Assign) and len(n.targets) == 1]
        uu = [n for n in assigns if getattr(n.targets[0], "id", None) == "msg_id" and isinstance(n.value, ast.Call)
              and ast.unparse(n.value.func) == "uuid.uuid4"]
        reg = [n for n in assigns if isinstance(n.targets[0], ast.Subscript) and ast.unparse(n.targets[0]) == "self.pending_responses[msg_id]"]
        csends = astlib.calls_in(call, "stream_send_msg")
        call_ok = len(uu) == 1 and len(reg) == 1 and len(csends) == 1 and getattr(csends[0].args[1], "id", None) == "msg_id" \
            and len([n for n in ast.walk(call) if isinstance(n, ast.Name) and n.id == "msg_id" and isinstance(n.ctx, ast.Store)]) == 1
        return reply_ok, call_ok
    idf, why_id = astlib.try_flag(ids)
    out.append("Definition reply_uses_request_id : bool := %s.%s" % (astlib.coq_bool(bool(idf and idf[0])), "" if why_id is None else "  (* %s *)" % why_id))
    out.append("Definition call_registers_and_sends_one_id : bool := %s." % astlib.coq_bool(bool(idf and idf[1])))

    def framing():
        m = astlib.module("klongpy/sys_fn_ipc.py")
        enc = astlib.find_func(m, "encode_message")
        packs = astlib.calls_in(enc, "pack")
        if len(packs) != 1:
            raise ShapeError("encode_message: expected one struct.pack")
        fmt_e = astlib.const(packs[0].args[0])
        dec = astlib.find_func(m, "decode_message_len")
        unp = astlib.calls_in(dec, "unpack")
        if len(unp) != 1:
            raise ShapeError("decode_message_len: expected one struct.unpack")
        fmt_d = astlib.const(unp[0].args[0])
        # return msg_id.bytes + length_bytes + data
        ret = [n for n in ast.walk(enc) if isinstance(n, ast.Return)]
        if len(ret) != 1:
            raise ShapeError("encode_message: one return expected")
        r = ret[0].value
        order = []
        def flat(e):
            if isinstance(e, ast.BinOp) and isinstance(e.op, ast.Add):
                flat(e.left); flat(e.right)
            else:
                order.append(ast.unparse(e))
        flat(r)
        rcv = astlib.find_func(m, "stream_recv_msg")
        sizes = []
        for c in astlib.calls_in(rcv, "readexactly"):
            a = c.args[0]
            sizes.append(a.value if isinstance(a, ast.Constant) else ast.unparse(a))
        return fmt_e, fmt_d, order, sizes
    fr, why = astlib.try_flag(framing)
    ok = fr is not None
    if ok:
        fmt_e, fmt_d, order, sizes = fr
        out.append("Definition len_format_is_network_u32 : bool := %s." % astlib.coq_bool(fmt_e == "!I" and fmt_d == "!I"))
        out.append("Definition frame_order_id_len_body : bool := %s." % astlib.coq_bool(order == ["msg_id.bytes", "length_bytes", "data"]))
        ok_sizes = len(sizes) == 3 and sizes[0] == 16 and sizes[1] == 4 and sizes[2] == "msglen"
        out.append("Definition id_len : nat := %s." % (sizes[0] if len(sizes) == 3 and isinstance(sizes[0], int) else 0))
        out.append("Definition len_len : nat := %s." % (sizes[1] if len(sizes) == 3 and isinstance(sizes[1], int) else 0))
        out.append("Definition reads_id_len_body : bool := %s." % astlib.coq_bool(ok_sizes))
    else:
        out.append("(* framing shape not recognised: %s *)" % why)
        out.append("Definition len_format_is_network_u32 : bool := false.")
        out.append("Definition frame_order_id_len_body : bool := false.")
        out.append("Definition id_len : nat := 0.\nDefinition len_len : nat := 0.")
        out.append("Definition reads_id_len_body : bool := false.")
    return "\n".join(out) + "\n"


# ---------------------------------------------------------------- implementation side: framing
def impl_feed(chunks, eof=True):
    """Feed chunks to a real StreamReader read by the real stream_recv_msg.
    Returns (delivered [(id_bytes, obj)], end) with end in {'clean','incomplete','error:<cls>'}."""
    from klongpy.sys_fn_ipc import stream_recv_msg

    async def run():
        reader = asyncio.StreamReader()
        delivered = []
        state = {"end": None}

        async def consumer():
            try:
                while True:
                    mid, body = await stream_recv_msg(reader)
                    delivered.append((mid.bytes, body))
            except asyncio.IncompleteReadError as e:
                state["end"] = "incomplete"
                state["partial"] = len(e.partial)
            except Exception as e:  # noqa
                state["end"] = "error:" + type(e).__name__

        task = asyncio.ensure_future(consumer())
        per_chunk = []
        for c in chunks:
            if c:
                reader.feed_data(bytes(c))
            for _ in range(4):
                await asyncio.sleep(0)
            per_chunk.append(len(delivered))
        if eof:
            reader.feed_eof()
            await asyncio.wait_for(task, 5)
        else:
            task.cancel()
        return delivered, state, per_chunk

    return asyncio.run(run())


def frame_cases(chk, rng, tier):
    """yield (frames [(id bytes, obj)], chunks [bytes]) — exhaustive small + seeded random."""
    from klongpy.sys_fn_ipc import encode_message
    ids = [uuid.UUID(int=i * 0x0101010101010101010101010101 + 7) for i in range(1, 4)]
    small_objs = [1, "ab", []]
    # exhaustive: 1..3 short frames, every cut into <= 3 reads (empty reads included at the ends)
    maxframes = 3
    for k in range(1, maxframes + 1):
        frames = [(ids[i], small_objs[i]) for i in range(k)]
        stream = b"".join(encode_message(i, o) for i, o in frames)
        n = len(stream)
        step = 1 if (tier == "thorough" or k == 1) else (2 if k == 2 else 3)
        for a in range(0, n + 1, step):
            for b in range(a, n + 1, step):
                yield frames, [stream[:a], stream[a:b], stream[b:]], "exh%d" % k
    # frames needing 2- and 3-byte lengths, random cuts into up to 40 reads
    big = ["x" * 300, list(range(70000)), "y" * 66000, {"a": [1, 2.5, "z"]}, 0]
    count = 60 if tier == "quick" else 600
    for j in range(count):
        k = rng.randint(1, 3)
        frames = [(uuid.UUID(int=rng.getrandbits(128)), rng.choice(big + small_objs)) for _ in range(k)]
        stream = b"".join(encode_message(i, o) for i, o in frames)
        ncuts = rng.randint(0, 39)
        # bias cut points toward header boundaries
        hot = []
        off = 0
        for i, o in frames:
            L = len(encode_message(i, o))
            hot += [off, off + 1, off + 15, off + 16, off + 17, off + 19, off + 20, off + 21, off + L - 1]
            off += L
        cuts = sorted(rng.choice(hot) if rng.random() < 0.5 else rng.randint(0, len(stream)) for _ in range(ncuts))
        cuts = [min(max(c, 0), len(stream)) for c in cuts]
        chunks = [stream[a:b] for a, b in zip([0] + cuts, cuts + [len(stream)])]
        yield frames, chunks, "rnd"
    # truncated streams (cut inside id / length / body / at a boundary)
    for j in range(count):
        k = rng.randint(1, 3)
        frames = [(uuid.UUID(int=rng.getrandbits(128)), rng.choice(small_objs + ["x" * 300])) for _ in range(k)]
        stream = b"".join(encode_message(i, o) for i, o in frames)
        cut = rng.randint(0, len(stream))
        stream = stream[:cut]
        ncuts = rng.randint(0, 3)
        cuts = sorted(rng.randint(0, len(stream)) for _ in range(ncuts))
        chunks = [stream[a:b] for a, b in zip([0] + cuts, cuts + [len(stream)])]
        yield frames, chunks, "trunc"


def expected_complete(frames, total_len):
    """the property's own oracle: frames wholly contained in the first total_len bytes"""
    from klongpy.sys_fn_ipc import encode_message
    out = []
    off = 0
    for i, o in frames:
        L = len(encode_message(i, o))
        if off + L <= total_len:
            out.append((i, o))
            off += L
        else:
            break
    return out, off == total_len


def check_framing(chk, rng):
    from klongpy.sys_fn_ipc import encode_message
    cases = list(frame_cases(chk, rng, chk.tier))
    # model side, one batch
    reqs = [sx(["feed", [list(c) for c in chunks]]) for _, chunks, _ in cases]
    model = chk.run_model(reqs)
    seen = set()
    bad_prop = None
    bad_corr = None
    for (frames, chunks, kind), mres in zip(cases, model):
        chk.count("evaluations")
        chk.count("framing_" + kind)
        key = (kind, tuple(len(c) for c in chunks))
        if key not in seen and sum(len(c) for c in chunks) > 0:
            seen.add(key)
            chk.count("distinct_nontrivial")
        total = sum(len(c) for c in chunks)
        delivered, st, per_chunk = impl_feed(chunks)
        exp, at_boundary = expected_complete(frames, total)
        got = [(i, o) for i, o in delivered]
        if not (len(got) == len(exp) and all(g[0] == e[0].bytes and g[1] == e[1] for g, e in zip(got, exp))
                and st["end"] == "incomplete"):
            if bad_prop is None:
                bad_prop = {"kind": "framing", "frames": [[i.hex, repr(o)[:80]] for i, o in frames],
                            "chunks_hex": [bytes(c).hex() for c in chunks] if total < 4000 else "omitted (%d bytes)" % total,
                            "chunk_lengths": [len(c) for c in chunks],
                            "expected_delivered": len(exp), "actual_delivered": len(got), "end": st}
            continue
        # correspondence with the model
        ok = mres[0] == "ok"
        if ok:
            mm = mres[1][1:]
            mb = mres[2][1]
            ok = (len(mm) == len(got) and all(bytes(m[0]) == g[0] and pickle.loads(bytes(m[1])) == g[1] for m, g in zip(mm, got))
                  and bool(mb) == at_boundary and list(mres[5][1:]) == per_chunk)
        if not ok and bad_corr is None:
            bad_corr = {"kind": "framing-correspondence", "chunk_lengths": [len(c) for c in chunks], "model": repr(mres)[:400],
                        "impl_delivered": len(got), "impl_end": st}
        chk.sample({"frames": len(frames), "chunk_lengths": [len(c) for c in chunks][:12], "delivered": len(got), "kind": kind}, limit=4)
    # encode correspondence (byte-exact)
    enc_bad = None
    from klongpy.core import KGChar, KGSym
    objs = [0, 1, -1, "a", KGChar("a"), KGSym("a"), "a", 1.0, 1, True, "", [], [1, [2, "x"]], {"k": 1}, 2.5, "q" * 255, "q" * 256, "q" * 70000,
            KGChar("q"), "q", KGSym("q")]
    reqs, want = [], []
    for o in objs:
        i = uuid.UUID(int=rng.getrandbits(128))
        body = pickle.dumps(o)
        reqs.append(sx(["encode", list(i.bytes), list(body)]))
        want.append(encode_message(i, o))
    for r, w, o in zip(chk.run_model(reqs), want, objs):
        chk.count("evaluations")
        chk.count("encode")
        if not (r[0] == "ok" and bytes(r[1]) == w) and enc_bad is None:
            enc_bad = {"kind": "encode-correspondence", "object": repr(o)[:60], "impl_hex": w[:40].hex(), "model": repr(r)[:200]}
    return bad_prop, (bad_corr or enc_bad)


# ---------------------------------------------------------------- implementation side: concurrent senders
def impl_concurrent_send(frames, yields):
    """k coroutines call the real stream_send_msg on one writer whose drain() yields `yields[i]` times;
    returns the sequence of write() payloads as the transport saw them"""
    from klongpy.sys_fn_ipc import stream_send_msg

    class W:
        def __init__(self):
            self.writes = []
            self.n = 0
        def write(self, data):
            self.writes.append(bytes(data))
        async def drain(self):
            self.n += 1
            for _ in range(yields[self.n % len(yields)]):
                await asyncio.sleep(0)

    async def run():
        w = W()
        await asyncio.gather(*[stream_send_msg(w, i, o) for i, o in frames])
        return w.writes
    return asyncio.run(run())


def check_senders(chk, rng):
    from klongpy.sys_fn_ipc import encode_message
    bad_prop = bad_corr = None
    objs = [1, "ab", [], [1, 2, 3], "x" * 300, {"k": [1, 2]}, 2.5]
    n = 40 if chk.tier == "quick" else 400
    reqs, wants = [], []
    for j in range(n):
        k = rng.randint(1, 4)
        frames = [(uuid.UUID(int=rng.getrandbits(128)), rng.choice(objs)) for _ in range(k)]
        yields = [rng.randint(0, 3) for _ in range(5)]
        writes = impl_concurrent_send(frames, yields)
        chk.count("evaluations"); chk.count("senders"); chk.count("distinct_nontrivial")
        # property oracle: reading the transport's bytes back delivers every message intact, once
        delivered, st, _ = impl_feed(writes)
        sent = sorted((i.bytes, repr(o)) for i, o in frames)
        got = sorted((i, repr(o)) for i, o in delivered)
        if sent != got and bad_prop is None:
            bad_prop = {"kind": "concurrent-senders", "frames": [[i.hex, repr(o)[:60]] for i, o in frames], "yields": yields,
                        "write_lengths": [len(w) for w in writes], "delivered": len(delivered), "sent": len(frames)}
        # model: the writes of ONE sender are exactly send_writes
        i, o = frames[0]
        reqs.append(sx(["sendwrites", list(i.bytes), list(pickle.dumps(o))]))
        wants.append(impl_concurrent_send([frames[0]], [0]))
    for r, w in zip(chk.run_model(reqs), wants):
        if [bytes(x) for x in r] != w and bad_corr is None:
            bad_corr = {"kind": "send-writes-correspondence", "model_write_lengths": [len(x) for x in r], "impl_write_lengths": [len(x) for x in w]}
    return bad_prop, bad_corr


# ---------------------------------------------------------------- implementation side: live server vs twin
LIVE_SCRIPT = r'''
import sys, os, json, random, threading, time, asyncio
sys.path.insert(0, %(verif)r)
import numpy as np
from klongpy.repl import create_repl, cleanup_repl
from klongpy import KlongInterpreter
from klongpy.core import KGSym, KLONG_UNDEFINED
from harness.canon import canon
from harness.common import sx

seed = int(sys.argv[1]); n_ops = int(sys.argv[2]); port = int(sys.argv[3]); mode = sys.argv[4] if len(sys.argv) > 4 else 'tcp'
rng = random.Random(seed)

server, sloops = create_repl()
client, cloops = create_repl()
twin = KlongInterpreter()

def on_loop(k, loops, text):
    fut = asyncio.run_coroutine_threadsafe(_eval(k, text), loops[3])
    return fut.result(20)
async def _eval(k, text):
    return k(text)

setup = ['sq::{x*x}', 'add::{x+y}', 'tri::{x,y,z}', 'nil::{42}', 'd:::{[1 2] ["a" "b"]}', 'v::[1 2 3]', 'und::{:{[1 2]}?x}', 'idf::{x}', 'lu::{[1],:{[1 2]}?x}', 'mulk::{x*1000}', 'dot::{+/x*y}']
if mode == 'tcp':
    on_loop(server, sloops, '.srv(%%d)' %% port)
for s in setup:
    on_loop(server, sloops, s); twin(s)
# Python callables held by the server (KGLambda), and a connection handle to a second server held in a server variable
server['whoami'] = lambda klong: str(klong['.cli.h'])      # which connection does this request run with?
for k_ in (server, twin):
    k_['pinc'] = lambda x: x + 1
    k_['padd'] = lambda x, y: [x, y]
# a second server in its own process (one IPC server per process): the first server holds a client handle to it (a gateway)
import subprocess as _sp
port2 = port + 37
S2 = ("import sys,os,asyncio,time\n"
      "from klongpy.repl import create_repl\n"
      "k,l=create_repl()\n"
      "async def e(t): return k(t)\n"
      "def on(t): return asyncio.run_coroutine_threadsafe(e(t), l[3]).result(20)\n"
      "ok=on('.srv(%%d)' %% int(sys.argv[1]))\n"
      "for s in sys.argv[2:]: on(s)\n"
      "print('READY', ok, flush=True)\n"
      "time.sleep(3000)\n")
server2 = _sp.Popen([sys.executable, "-W", "ignore", "-c", S2, str(port2)] + setup, stdout=_sp.PIPE, stderr=_sp.DEVNULL)
_line = server2.stdout.readline().decode()
if not _line.startswith("READY 1"):
    print("SERVER2 failed: " + _line); sys.stdout.flush(); server2.kill(); os._exit(3)
on_loop(server, sloops, 'up::.cli(%%d)' %% port2)
for nm0 in ['va', 'vb', 'vc']:
    on_loop(server, sloops, nm0 + '::0'); twin(nm0 + '::0')
# ---- 'pipe' mode: the real client and the real server-side connection handler joined by an in-memory
# byte pipe that cuts every write into seeded fragments (biased to header boundaries) fed to the peer's
# real asyncio.StreamReader one by one: the session of the Coq theorem C13_session_equals_local
from klongpy.sys_fn_ipc import (NetworkClient, NetworkClientDictHandle, ReaderWriterConnectionProvider, TcpServerConnectionHandler)
frag_rng = random.Random(seed * 7919 + 13)
pipe_stats = {"writes": 0, "chunks": 0, "max_chunks": 0}
SLOW_WRITES = (25, 26, 60)       # the k-th writes on the pipe whose second fragment is delayed
class PipeWriter:
    def __init__(self, peer_loop, peer_reader):
        self.peer_loop = peer_loop; self.peer_reader = peer_reader; self.closing = False
    def write(self, data):
        data = bytes(data); n = len(data)
        ncuts = frag_rng.choice([0, 0, 1, 2, 3, 5, 9])
        hot = [1, 15, 16, 17, 19, 20, 21, n - 1]
        cuts = sorted(min(max(frag_rng.choice(hot) if frag_rng.random() < 0.6 else frag_rng.randint(0, n), 0), n) for _ in range(ncuts))
        pieces = [data[a:b] for a, b in zip([0] + cuts, cuts + [n])]
        pipe_stats["writes"] += 1; pipe_stats["chunks"] += len(pieces); pipe_stats["max_chunks"] = max(pipe_stats["max_chunks"], len(pieces))
        slow = pipe_stats["writes"] in SLOW_WRITES and n > 22
        if slow:
            cut = frag_rng.choice([16, 18, 20, 21])
            pieces = [data[:cut], data[cut:]]
            pipe_stats["slow"] = pipe_stats.get("slow", 0) + 1
        for i_, pc in enumerate(pieces):
            if pc:
                if slow and i_ == 1:
                    # the rest of the frame arrives 1.5 s later (a slow network): delivery must still be intact
                    self.peer_loop.call_soon_threadsafe(self.peer_loop.call_later, 1.5, self.peer_reader.feed_data, pc)
                else:
                    self.peer_loop.call_soon_threadsafe(self.peer_reader.feed_data, pc)
    async def drain(self):
        await asyncio.sleep(0)
    def close(self):
        if not self.closing:
            self.closing = True
            self.peer_loop.call_soon_threadsafe(self.peer_reader.feed_eof)
    def is_closing(self):
        return self.closing
    async def wait_closed(self):
        return None
    def get_extra_info(self, name, default=None):
        return ("127.0.0.1", 1) if name == "peername" else default
keep_alive = []
def pipe_connect():
    s_io, s_kl = sloops[0], sloops[3]; c_io, c_kl = cloops[0], cloops[3]
    s_reader = asyncio.StreamReader(loop=s_io); c_reader = asyncio.StreamReader(loop=c_io)
    s_writer = PipeWriter(c_io, c_reader); c_writer = PipeWriter(s_io, s_reader)
    handler = TcpServerConnectionHandler(s_io, s_kl, server)
    fut = asyncio.run_coroutine_threadsafe(handler.handle_client(s_reader, s_writer), s_io)
    keep_alive.append((fut, handler))
    nc = NetworkClient.create_from_conn_provider(c_io, c_kl, client, ReaderWriterConnectionProvider(c_reader, c_writer, "pipe", 1)).run_client()
    keep_alive.append(nc)
    client['cli'] = nc
    client['dcli'] = NetworkClientDictHandle(nc)
def connect():
    if mode == 'pipe':
        pipe_connect()
        return
    on_loop(client, cloops, 'cli::.cli(%%d)' %% port)
    on_loop(client, cloops, 'dcli::.clid(%%d)' %% port)
connect()
reconnects = 0

lits = ['1', '-7', '2.5', '1.0e100', '0ca', '"hello"', '""', ':sym', '[]', '[1 2 3]', '[1 2.5]', '[[1 2] [3 4]]', '[1 [2 "x" [0cz :q]]]',
        '["a" "bc"]', ':{[1 2] ["k" [1 2]]}', '1%%0', '[1 "a" :s]', ':{["u" 1]}', '[[]]', '[1.5 [2 3]]',
        # values that compare/hash equal in Python but are of different Klong kinds (caches keyed by value must not conflate them)
        '"a"', ':a', '1.0', '[1.0 2.0 3.0]', '0cs', '"s"', ':s', '0', '0.0', '"sym"', '"1"', '0c1',
        # one-element lists (a list of one element is not that element) and other shape boundaries
        '[5]', '[2.5]', '["abc"]', '[[7]]', '[[]]', '[:s]', '[0ca]', '[[1 2 3]]', '[[1] [2]]']
names = ['va', 'vb', 'vc']
results = []
def record(form, text, remote, local):
    global reconnects
    if isinstance(remote, tuple) and remote and remote[0] == "EXC":
        # a server-side error tears the connection down (C14's subject); reconnect and go on
        reconnects += 1
        try:
            connect()
        except Exception:
            pass
    isx = lambda v: isinstance(v, tuple) and len(v) == 2 and v[0] == "EXC"
    results.append({"form": form, "text": text, "remote": "EXC" if isx(remote) else sx(canon(remote)),
                    "local": "EXC" if isx(local) else sx(canon(local))})

def rcall(fname, *lits_):
    # build the remote call message [:fname a1 a2 ...] with client-side evaluated arguments
    arr = np.empty(1 + len(lits_), dtype=object)
    arr[0] = KGSym(fname)
    for i_, l_ in enumerate(lits_):
        arr[1 + i_] = on_loop(client, cloops, l_)
    client['args'] = arr
    return on_loop(client, cloops, 'cli(args)')

hung = []
def safe(f):
    try:
        return f()
    except Exception as e:
        if type(e).__name__ in ("TimeoutError", "CancelledError"):
            hung.append(1)          # a call that does not come back: stop after recording it (each would cost the full deadline)
            try:
                import inspect as _insp
                src_ = _insp.getsource(f).strip()[:200]
            except Exception:
                src_ = "a remote operation"
            # recorded on its own, whether or not the caller records the outcome: a caller left waiting is a property failure
            results.append({"form": "hang", "text": "no answer within 20 s: " + src_, "remote": "EXC-HANG", "local": "(returns)"})
        return ("EXC", type(e).__name__)

# deterministic prelude: values that are ==/hash-equal in Python but of different Klong kinds, through every
# form and in both orders (a transport-level cache keyed by value would conflate them)
kind_groups = [['[5]', '5'], ['["abc"]', '"abc"'], ['[[7]]', '[7]'], ['[2.5]', '2.5'], ['0ca', '"a"', ':a'], ['1', '1.0'], ['0', '0.0'], ['"s"', '0cs', ':s'], ['[1 2 3]', '[1.0 2.0 3.0]'], ['"1"', '0c1']]
plan = []
for g in kind_groups:
    for order in (g, g[::-1]):
        for f_ in ('exprlit', 'fncall1', 'proxy', 'dset'):
            for l_ in order:
                plan.append((f_, l_))
for opi in range(n_ops):
    plan.append((rng.choice(['expr', 'expr', 'sym', 'proxyredef', 'pycall', 'fncall1', 'fncall2', 'fncall3', 'fncall0', 'proxy', 'dset', 'dget', 'assign', 'undef', 'undeftest']), None))
for u_ in range(6):
    plan.insert(0, ('sym', None))
for u_ in range(4):
    plan.insert(0, ('proxyredef', None)); plan.insert(0, ('pycall', None))
def deterministic_blocks():
    # ---- deterministic blocks added after the third round of seeded changes
    # (a) integer arrays as arguments / stored values followed by server-side element-wise arithmetic (the values must keep
    #     their integer width on the wire), (b) a proxy applied inside a client-side function whose frame binds MORE of
    #     x,y,z than the proxy takes, (c) two clients taking turns: the connection handle .cli.h is per request
    for arr_ in ['[100 100]', '[100 -200 300]', '[1 2 3]', '[127 128 255 256]', '[30000 40000]', '[2147483647 1]', '[0 0 0]', '[-128 127]']:
        if hung: return
        r = safe(lambda: rcall('sq', arr_)); l = safe(lambda: twin('sq(%%s)' %% arr_)); record('intarr', 'sq(%%s)' %% arr_, r, l)
        r = safe(lambda: rcall('mulk', arr_)); l = safe(lambda: twin('mulk(%%s)' %% arr_)); record('intarr', 'mulk(%%s)' %% arr_, r, l)
        r = safe(lambda: rcall('dot', arr_, arr_)); l = safe(lambda: twin('dot(%%s;%%s)' %% (arr_, arr_))); record('intarr', 'dot(%%s;%%s)' %% (arr_, arr_), r, l)
        r = safe(lambda: on_loop(client, cloops, 'q::cli(:sq);q(%%s)' %% arr_)); l = safe(lambda: twin('sq(%%s)' %% arr_)); record('intarr', 'proxy sq(%%s)' %% arr_, r, l)
        def dsetarr_():
            pr = np.empty(2, dtype=object); pr[0] = KGSym('va'); pr[1] = on_loop(client, cloops, arr_)
            client['pair'] = pr; on_loop(client, cloops, 'dcli,pair')
        safe(dsetarr_); twin[KGSym('va')] = on_loop(client, cloops, arr_)
        r = safe(lambda: on_loop(client, cloops, 'cli("va*va")')); l = safe(lambda: twin('va*va')); record('intarr', 'va::%%s; va*va' %% arr_, r, l)
    for t_ in ['1#v', 'v?2', ',7', '1#"abc"', '[1 2 3]?3', ',,7', '1_[1 2]']:
        if hung: return
        r = safe(lambda: on_loop(client, cloops, 'cli("%%s")' %% t_.replace('"', '""'))); l = safe(lambda: twin(t_)); record('singleton', t_, r, l)
    for body_, args_, tw_ in [('{q(x)+y}', '(3;4)', '{sq(x)+y}(3;4)'), ('{q(x)+y+z}', '(3;4;5)', '{sq(x)+y+z}(3;4;5)'),
                              ('{(q(y))+x}', '(3;4)', '{(sq(y))+x}(3;4)'), ('{n0()+x}', '(7)', '{nil()+x}(7)'),
                              ('{q2(x;y)+z}', '(1;2;3)', '{add(x;y)+z}(1;2;3)'), ("{q(x)}'", '[1 2 3]', "{sq(x)}'[1 2 3]")]:
        if hung: return
        t_ = 'q::cli(:sq);q2::cli(:add);n0::cli(:nil);%%s%%s' %% (body_, args_)
        r = safe(lambda: on_loop(client, cloops, t_)); l = safe(lambda: twin(tw_)); record('proxyscope', t_, r, l)
    if hung: return
    if mode == 'tcp':
        a1 = safe(lambda: on_loop(client, cloops, 'cli(,:whoami)'))
        safe(lambda: on_loop(client, cloops, 'cli2::.cli(%%d)' %% port))
        a2 = safe(lambda: on_loop(client, cloops, 'cli2(,:whoami)'))
        a1b = safe(lambda: on_loop(client, cloops, 'cli(,:whoami)'))
        a2b = safe(lambda: on_loop(client, cloops, 'cli2(,:whoami)'))
        # the handle a request runs with is the handle of ITS connection: stable per client, different between clients
        record('twoclients', 'who() stable for client 1', a1b, a1)
        record('twoclients', 'who() stable for client 2', a2b, a2)
        record('twoclients', 'who() differs between clients', 0 if (isinstance(a1, str) and isinstance(a2, str) and a1 != a2) else [a1, a2], 0)
        # and it is not left behind on the server after the call
        r = safe(lambda: on_loop(server, sloops, '.cli.h')); l = safe(lambda: twin('.cli.h')); record('twoclients', 'server-side .cli.h outside a call', r, l)

try:
    deterministic_blocks()
except Exception as e_:
    # a call that never comes back blocks the client's klong loop for good: record and stop (the hung call was recorded by safe())
    hung.append(1)
for form, fixed_lit in plan:
    if hung:
        break
    lit = rng.choice(lits); lit2 = rng.choice(lits); nm = rng.choice(names)
    if fixed_lit is not None:
        lit = fixed_lit
    if form == 'sym':
        # a bare symbol as the command: f(:name) evaluates the name on the server (bound data, bound function -> proxy
        # arity, and a name never bound, which evaluates to itself and becomes bound)
        sname = rng.choice(names + ['sq', 'add', 'tri', 'nil', 'v', 'zq%%d' %% rng.randint(0, 40)])
        def rsym_():
            client['symarg'] = KGSym(sname)
            return on_loop(client, cloops, 'cli(symarg)')
        r = safe(rsym_); l = safe(lambda: twin(sname))
        record(form, sname, r, l)
        r = safe(lambda: on_loop(client, cloops, 'dcli?:%%s' %% sname)); l = safe(lambda: twin[KGSym(sname)])
        record('dget', sname, r, l)
    elif form == 'exprlit':
        t = lit
        r = safe(lambda: on_loop(client, cloops, 'cli("%%s")' %% t.replace('"', '""'))) ; l = safe(lambda: twin(t))
        record(form, t, r, l)
    elif form == 'expr':
        t = rng.choice(['%%s' %% lit, '#%%s' %% lit, '%%s,%%s' %% (lit, lit2), 'sq(3)', 'v', nm, 'idf(%%s)' %% lit, ':_%%s' %% lit])
        r = safe(lambda: on_loop(client, cloops, 'cli("%%s")' %% t.replace('"', '""'))) ; l = safe(lambda: twin(t))
        record(form, t, r, l)
    elif form == 'fncall1':
        r = safe(lambda: rcall('idf', lit))
        l = safe(lambda: twin('idf(%%s)' %% lit))
        record(form, 'idf(%%s)' %% lit, r, l)
    elif form == 'fncall2':
        r = safe(lambda: on_loop(client, cloops, 'cli(:add,2,3)')); l = safe(lambda: twin('add(2;3)'))
        record(form, 'add(2;3)', r, l)
    elif form == 'fncall3':
        r = safe(lambda: rcall('tri', lit, lit2, '7')); l = safe(lambda: twin('tri(%%s;%%s;7)' %% (lit, lit2)))
        record(form, 'tri(%%s;%%s;7)' %% (lit, lit2), r, l)
    elif form == 'fncall0':
        r = safe(lambda: on_loop(client, cloops, 'cli(,:nil)')); l = safe(lambda: twin('nil()'))
        record(form, 'nil()', r, l)
    elif form == 'proxy':
        r = safe(lambda: on_loop(client, cloops, 'q::cli(:idf);q(%%s)' %% lit)); l = safe(lambda: twin('idf(%%s)' %% lit))
        record(form, 'proxy idf(%%s)' %% lit, r, l)
    elif form == 'proxyredef':
        # fetch a proxy, redefine the function on the server with another arity, fetch again, call with the new arguments
        ar = rng.choice([1, 2, 3]); body = {1: '{x}', 2: '{x,y}', 3: '{x,y,z}'}[ar]
        args = ';'.join([lit, lit2, '7'][:ar])
        dfn = 'rg::%%s' %% body
        safe(lambda: on_loop(client, cloops, 'cli("%%s")' %% dfn)); twin(dfn)
        how = rng.choice(['call', 'dict'])
        fetch = 'q::cli(:rg)' if how == 'call' else 'q::dcli?:rg'
        r = safe(lambda: on_loop(client, cloops, '%%s;q(%%s)' %% (fetch, args))); l = safe(lambda: twin('rg(%%s)' %% args))
        record(form, '%%s via %%s; rg(%%s)' %% (dfn, how, args), r, l)
    elif form == 'pycall':
        # functions that are not Klong functions: Python callables and a connection handle held by the server
        which = rng.choice(['pinc', 'padd', 'up', 'upd'])
        if which == 'pinc':
            r = safe(lambda: on_loop(client, cloops, 'q::cli(:pinc);q(41)')); l = safe(lambda: twin('pinc(41)'))
        elif which == 'padd':
            r = safe(lambda: on_loop(client, cloops, 'q::dcli?:padd;q(1;%%s)' %% lit)); l = safe(lambda: twin('padd(1;%%s)' %% lit))
        elif which == 'up':
            r = safe(lambda: on_loop(client, cloops, 'q::cli(:up);q("sq(9)")')); l = safe(lambda: twin('sq(9)'))
        else:
            r = safe(lambda: on_loop(client, cloops, 'q::dcli?:up;q("add(2;3)")')); l = safe(lambda: twin('add(2;3)'))
        record(form, which, r, l)
    elif form == 'dset':
        def dset_():
            arr = np.empty(2, dtype=object); arr[0] = KGSym(nm); arr[1] = on_loop(client, cloops, lit)
            client['pair'] = arr
            on_loop(client, cloops, 'dcli,pair')
            return arr[1]
        r = safe(dset_)
        def lset_():
            # the same operation locally on the server interpreter: klong[key] = value (Python API, as the server does)
            twin[KGSym(nm)] = on_loop(client, cloops, lit)
        l = safe(lset_)
        r2 = safe(lambda: on_loop(client, cloops, 'dcli?:%%s' %% nm)); l2 = safe(lambda: twin[KGSym(nm)])
        record(form, '%%s::%%s' %% (nm, lit), r2, l2)
    elif form == 'dget':
        r = safe(lambda: on_loop(client, cloops, 'dcli?:%%s' %% nm)); l = safe(lambda: twin[KGSym(nm)])
        record(form, nm, r, l)
    elif form == 'assign':
        t = '%%s::%%s' %% (nm, lit)
        r = safe(lambda: on_loop(client, cloops, 'cli("%%s")' %% t.replace('"', '""'))); l = safe(lambda: twin(t))
        record(form, t, r, l)
    elif form == 'undef':
        r = safe(lambda: on_loop(client, cloops, 'cli(:und,,9)')); l = safe(lambda: twin('und(9)'))
        record(form, 'und(9)', r, l)
    elif form == 'undeftest':
        r = safe(lambda: on_loop(client, cloops, ':_cli(:und,,9)')); l = safe(lambda: twin(':_und(9)'))
        record(form, ':_und(9)', r, l)
        r = safe(lambda: on_loop(client, cloops, ':_cli("1%%0")')); l = safe(lambda: twin(':_1%%0'))
        record(form, ':_1%%0', r, l)
        r = safe(lambda: on_loop(client, cloops, ':_(cli(:lu,,9)@1)')); l = safe(lambda: twin(':_(lu(9)@1)'))
        record(form, ':_ nested', r, l)
server2.kill()
print("PIPESTATS " + json.dumps(pipe_stats))
print("RESULTS " + json.dumps(results))
sys.stdout.flush()
os._exit(0)
'''


def check_live(chk, rng, mode="tcp"):
    n_ops = (150 if chk.tier == "quick" else 1500) if mode == "tcp" else (120 if chk.tier == "quick" else 1200)
    port = 20000 + (os.getpid() * 7 + rng.randint(0, 999)) % 20000
    script = LIVE_SCRIPT % {"verif": VERIF}
    env = dict(os.environ, PYTHONPATH=REPO + ":" + VERIF, PYTHONHASHSEED="0")
    for attempt in range(3):
        p = subprocess.run([PY, "-W", "ignore", "-c", script, str(chk.seed + 17), str(n_ops), str(port + attempt * 101), mode],
                           stdout=subprocess.PIPE, stderr=subprocess.PIPE, env=env, timeout=600)
        lines = [l for l in p.stdout.decode().split("\n") if l.startswith("RESULTS ")]
        if lines:
            break
    if not lines:
        raise RuntimeError("live IPC run produced no results: " + p.stderr.decode()[-1500:])
    results = json.loads(lines[0][8:])
    for l in p.stdout.decode().split("\n"):
        if l.startswith("PIPESTATS ") and mode == "pipe":
            ps = json.loads(l[10:])
            chk.count("pipe_writes", ps["writes"]); chk.count("pipe_chunks", ps["chunks"])
    # model: transport of the local (server-side) canonical value
    reqs = []
    for r in results:
        reqs.append("(transport " + r["local"] + ")" if r["local"].startswith("(") else "(transport (s))")
    trans = chk.run_model(reqs)
    bad_prop = bad_corr = None
    seen = set()
    for r, t in zip(results, trans):
        chk.count("evaluations")
        chk.count(("live_" if mode == "tcp" else "pipe_") + r["form"])
        if (r["form"], r["text"]) not in seen:
            seen.add((r["form"], r["text"]))
            chk.count("distinct_nontrivial")
        loc = r["local"]
        rem = r["remote"]
        # functions come back as references / proxies: compare arity only (canon gives (f arity) for both)
        if rem == "EXC" and loc == "EXC":
            chk.count("live_both_error")
            continue
        if rem != loc:
            if bad_prop is None:
                bad_prop = {"kind": "live" if mode == "tcp" else "live-fragmenting-pipe", "form": r["form"], "text": r["text"], "remote": rem, "server_local": loc}
            continue
        if loc.startswith("(") and "(f " not in loc and "(other" not in loc and "(none" not in loc:
            if sx(t) != rem and bad_corr is None:
                bad_corr = {"kind": "transport-correspondence", "text": r["text"], "model_transport": sx(t), "impl_remote": rem}
        chk.sample({"form": r["form"], "text": r["text"], "remote": rem[:120]}, limit=8)
    return bad_prop, bad_corr


def run(tier, replay=None):
    chk = Check("C13", tier)
    rng = random.Random(chk.seed)
    chk.generate(generate())
    chk.build_model()
    hits = forbidden_scan("C13")
    proof = chk.build_proofs()
    if hits:
        proof["ok"] = False
        proof["error"] = "forbidden declarations: %r" % hits
        proof["broken"] = hits[0]
    bad_prop_f, bad_corr_f = check_framing(chk, rng)
    bad_prop_l, bad_corr_l = check_live(chk, rng)
    bad_prop_p, bad_corr_p = check_live(chk, rng, mode="pipe")
    bad_prop_s, bad_corr_s = check_senders(chk, rng)
    for bp in (bad_prop_f, bad_prop_l, bad_prop_p, bad_prop_s):
        if bp is not None:
            chk.violation("remote/framing behaviour differs from the property's oracle on the implementation: %s" % bp["kind"], bp)
    if not chk.violations:
        for bc in (bad_corr_f, bad_corr_l, bad_corr_p, bad_corr_s):
            if bc is not None:
                chk.violation("correspondence between klongpy and the Coq model broke (%s); no failing input of the property found in %d cases"
                              % (bc["kind"], chk.counters.get("evaluations", 0)), {"broken": "correspondence C13/Model.v", "detail": bc}, no_input=True)
        if not proof["ok"] and not chk.violations:
            chk.violation("proof obligation no longer checks: %s" % proof["broken"],
                          {"broken_obligation": proof["broken"], "coq_error": proof["error"], "generated": chk.generated_text}, no_input=True)
    return chk.finish(
        rule="framing: every split of 1-3 short frames into <=3 reads (step 1 in thorough), seeded random cuts of long frames into <=40 reads, "
             "truncated streams; live: seeded remote operations of every form against a twin interpreter. distinct = distinct (kind, chunk-length vector) / (form, text)",
        trusted_base=TRUSTED, assumptions=ASSUME)


# ---------------------------------------------------------------- replay
def replay(path):
    """Re-execute one replay file against the implementation and print expected vs actual."""
    r = json.load(open(path))
    body = r.get("replay", {})
    kind = body.get("kind")
    print("replaying %s (%s): %s" % (path, kind, r.get("what")))
    if kind == "framing" and isinstance(body.get("chunks_hex"), list):
        chunks = [bytes.fromhex(h) for h in body["chunks_hex"]]
        delivered, st, per_chunk = impl_feed(chunks)
        print("expected delivered frames: %s" % body.get("expected_delivered"))
        print("actual   delivered frames: %d  (after each read: %s)  end=%s" % (len(delivered), per_chunk, st))
        chk = Check("C13", "quick")
        chk.generate(generate()); chk.build_model()
        print("model: %s" % sx(chk.run_model([sx(["feed", [list(c) for c in chunks]])])[0])[:600])
        return 0 if len(delivered) == body.get("expected_delivered") else 1
    if kind == "live":
        # one remote operation of the recorded form against a live server and its twin, after the same fixed set-up
        script = LIVE_SCRIPT % {"verif": VERIF}
        env = dict(os.environ, PYTHONPATH=REPO + ":" + VERIF, PYTHONHASHSEED="0")
        p = subprocess.run([PY, "-W", "ignore", "-c", script, "17", "0", str(21000 + os.getpid() % 20000)],
                           stdout=subprocess.PIPE, stderr=subprocess.PIPE, env=env, timeout=600)
        lines = [l for l in p.stdout.decode().split("\n") if l.startswith("RESULTS ")]
        res = json.loads(lines[0][8:]) if lines else []
        hit = [x for x in res if x["form"] == body.get("form") and x["text"] == body.get("text")]
        bad = [x for x in res if x["remote"] != x["local"]]
        print("recorded: form=%s text=%s remote=%s server_local=%s" % (body.get("form"), body.get("text"), body.get("remote"), body.get("server_local")))
        for x in (hit or bad)[:5]:
            print("now     : form=%s text=%s remote=%s server_local=%s" % (x["form"], x["text"], x["remote"], x["local"]))
        if not hit and not bad:
            print("the deterministic prelude of the live differential shows no difference now (the recorded case came from the seeded part; rerun ./check C13 with the same VERIF_SEED)")
        return 1 if any(x["remote"] != x["local"] for x in (hit or bad)) else 0
    if kind == "concurrent-senders":
        print(json.dumps(body, indent=1))
        print("rerun: ./check C13 quick (the sender schedules are derived from VERIF_SEED)")
        return 0
    print(json.dumps(r, indent=1)[:3000])
    return 0
