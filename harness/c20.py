"""C20 — web routes and websocket messages reach their Klong handler exactly once, intact.   (PARTIAL, see notes/C20.md)

Link 1 (Coq): coq/C20/Properties.v — klongpy's own dispatch and codec logic: route registration, closure capture,
one request = one dictionary lookup = one handler run with the request's parameters, 400 containment, the
websocket listen loop as a fold, NumpyEncoder at tree level.
Link 2 (here): the real server started by `.web` driven by an in-process aiohttp client, and the real `.ws` client fed by an
in-process `websockets` server, compared with the extracted model.  aiohttp routing, URL/form decoding, the
websocket protocol, JSON text and the thread hand-over are covered by these runs only.
"""
import ast
import json
import os
import random
import subprocess
import sys

from . import astlib
from .astlib import ShapeError
from .common import Check, sx, forbidden_scan, PY, VERIF, REPO

TRUSTED = [
    "Coq 8.16.1 kernel (coqc); vm_compute only in the Example and the _refuted witnesses",
    "Print Assumptions: all C20 theorems closed under the global context (no axioms)",
    "translator harness/c20.py:generate (Python ast): arity test, skipping of call objects, default-argument binding of fn/route in "
    "_get/_post, except -> 400, str(result) body, whole parameter dictionary, shape of _listen/decode_message/NumpyEncoder/KGFnWrapper",
    "extraction: ExtrOcamlBasic only; ocaml/driver.ml",
    "correspondence harness: scenario generators, the in-process aiohttp client and websockets server, canonicalisation",
]
ASSUME = [
    "PARTIAL CLAIM: the theorems cover klongpy's own dispatch/codec logic as modelled; aiohttp's router (404/405), URL and form decoding, "
    "the websocket protocol, json.dumps/json.loads text conversion and the hand-over between the io loop and the klong loop are runtime "
    "behaviour outside the model, sampled by the correspondence runs only",
    "a route dictionary has distinct paths (it is a dict); handler behaviour is an arbitrary function of the parameters (the theorems quantify over it)",
    "KGFnWrapper finds the symbol a handler is bound to by object identity; aliasing one function under two symbols is not generated",
    "KGFnWrapper converts a decoded JSON list with the backend's kg_asarray (modelled: every list stays a list of its elements, except that a flat list or equal-length rows of booleans AND numbers become a numeric array - known finding; the pre-fix np.asarray behaviour is `deliver old_wflags`) and null as :undefined; booleans are compared as booleans (true is not 1), JSON numbers by value",
    "numbers in generated JSON are multiples of 0.25 (exact in binary64); number text conversion is assumed",
    "no wall-clock in verdicts: completion is detected by a sentinel message / an answered request; time-outs (20 s) only bound a hang",
]

WEB = "klongpy/web/sys_fn_web.py"
WS = "klongpy/ws/sys_fn_ws.py"


# ---------------------------------------------------------------- translator
def _loops(fn):
    out = {}
    for n in astlib.body_no_doc(fn):
        if isinstance(n, ast.For) and ast.unparse(n.iter) in ("y.items()", "z.items()"):
            out[ast.unparse(n.iter)[0]] = n
    if set(out) != {"y", "z"}:
        raise ShapeError("two loops over y.items() and z.items() expected")
    if ast.unparse(out["y"].target) != "(route, fn)" or ast.unparse(out["z"].target) != "(route, fn)":
        raise ShapeError("loop targets are not (route, fn)")
    return out["y"], out["z"]


def _closure(loop):
    fs = [n for n in loop.body if isinstance(n, ast.AsyncFunctionDef)]
    if len(fs) != 1:
        raise ShapeError("one async closure per loop expected")
    return fs[0]


def _skip_if(loop, test_src):
    """the loop body has `if <test>: ...; continue` before the closure is defined"""
    for n in loop.body:
        if isinstance(n, ast.AsyncFunctionDef):
            return False
        if isinstance(n, ast.If) and ast.unparse(n.test) == test_src and n.body and isinstance(n.body[-1], ast.Continue) and not n.orelse:
            return True
    return False


def generate():
    out = []

    def flag(name, f):
        v, why = astlib.try_flag(f)
        out.append("Definition %s : bool := %s.%s" % (name, astlib.coq_bool(bool(v)),
                                                       "" if why is None else "  (* shape not recognised: %s *)" % why))

    def webfn():
        return astlib.find_func(astlib.module(WEB), "eval_sys_fn_create_web_server")

    def arity1():
        ok = True
        for lp in _loops(webfn()):
            first = lp.body[0]
            ok &= (isinstance(first, ast.Assign) and ast.unparse(first.targets[0]) == "arity" and
                   ast.unparse(first.value) == "fn.arity if isinstance(fn, KGFn) else fn.get_arity() if issubclass(type(fn), KGLambda) else 0")
            ok &= _skip_if(lp, "arity != 1")
        return ok
    flag("arity_must_be_one", arity1)
    flag("skip_calls", lambda: all(_skip_if(lp, "isinstance(fn, KGCall)") for lp in _loops(webfn())))

    def capture():
        ok = True
        for lp in _loops(webfn()):
            wraps = [n for n in lp.body if isinstance(n, ast.Assign) and ast.unparse(n.targets[0]) == "fn_wrapped"]
            ok &= len(wraps) == 1 and ast.unparse(wraps[0].value) == "KGFnWrapper(klong, fn) if isinstance(fn, KGFn) else fn"
            c = _closure(lp)
            names = [a.arg for a in c.args.args]
            defaults = [ast.unparse(d) for d in c.args.defaults]
            bound = dict(zip(names[len(names) - len(defaults):], defaults))
            ok &= bound.get("fn") == "fn_wrapped" and bound.get("route") == "route"
            # the body must use its own parameters only
            ok &= not any(isinstance(n, ast.Name) and n.id == "fn_wrapped" for s in c.body for n in ast.walk(s))
            ok &= any(isinstance(n, ast.Call) and isinstance(n.func, ast.Name) and n.func.id == "fn" for s in c.body for n in ast.walk(s))
            # registered right after, with the loop's own route
            regs = [n for n in lp.body if isinstance(n, ast.Expr) and "app.router.add_" in ast.unparse(n)]
            ok &= len(regs) == 1 and ast.unparse(regs[0]) in ("app.router.add_get(route, _get)", "app.router.add_post(route, _post)")
            ok &= lp.body.index(regs[0]) > lp.body.index(c)
        return ok
    flag("capture_per_iteration", capture)

    def wrapper_try():
        w = astlib.find_func(astlib.find_class(astlib.module("klongpy/types.py"), "KGFnWrapper"), "__call__")
        ifs = [n for n in astlib.body_no_doc(w) if isinstance(n, ast.If) and ast.unparse(n.test) == "self._sym is not None"]
        if len(ifs) != 1 or not ifs[0].body or not isinstance(ifs[0].body[0], ast.Try) or len(ifs[0].body) > 2 or \
                any(isinstance(n, ast.Try) for st in ifs[0].body[1:] for n in ast.walk(st)):
            raise ShapeError("KGFnWrapper.__call__: `if self._sym is not None:` starting with its only try expected")
        t = ifs[0].body[0]
        if t.finalbody or t.orelse:
            raise ShapeError("KGFnWrapper.__call__: try with else/finally")
        call_inside = any(astlib.calls_in(st, "call") for st in t.body)
        names = set()
        for h in t.handlers:
            if [ast.unparse(x) for x in h.body if not isinstance(x, ast.Expr) or not isinstance(getattr(x, "value", None), ast.Constant)] \
                    not in (["pass"], ["current = None"]):
                raise ShapeError("KGFnWrapper.__call__: except body is neither `pass` nor `current = None`")
            if h.type is None:
                names.add("*")
            elif isinstance(h.type, ast.Tuple):
                names |= {ast.unparse(x) for x in h.type.elts}
            else:
                names.add(ast.unparse(h.type))
        # after the try: the captured function self.fn is run
        rest = [ast.unparse(x) for x in astlib.body_no_doc(w)]
        if "return self.klong.call(KGCall(self.fn.a, [*fn_args], self.fn.arity))" not in rest[-1]:
            raise ShapeError("KGFnWrapper.__call__: does not end by calling the captured function")
        return call_inside, names
    # which exception classes raised by the CALL of the current definition are swallowed (then the old function runs);
    # an unrecognised shape counts as "swallows" (fail closed: the theorems need klong/other = false)
    def swallow_flag(name, pick):
        v, why = astlib.try_flag(lambda: (lambda ci, ns: ci and bool(pick(ns)))(*wrapper_try()))
        out.append("Definition %s : bool := %s.%s" % (name, astlib.coq_bool(True if why is not None else bool(v)),
                                                       "" if why is None else "  (* shape not recognised: %s *)" % why))
    swallow_flag("fallback_on_keyerror", lambda ns: ns & {"KeyError", "LookupError"})
    swallow_flag("fallback_on_klong_exception", lambda ns: ns & {"KlongException"})
    swallow_flag("fallback_on_other", lambda ns: ns - {"KeyError", "LookupError", "KlongException"})

    def tries():
        res = []
        for lp in _loops(webfn()):
            c = _closure(lp)
            if len(c.body) != 1 or not isinstance(c.body[0], ast.Try):
                raise ShapeError("closure body is not a single try")
            res.append(c.body[0])
        return res

    def e400():
        ok = True
        for t in tries():
            ok &= len(t.handlers) == 1 and ast.unparse(t.handlers[0].type) == "Exception" and not t.finalbody and not t.orelse
            last = t.handlers[0].body[-1]
            ok &= ast.unparse(last) == "return web.Response(text='Invalid request', status=400)"
        return ok
    flag("except_returns_400", e400)

    def body_str():
        g, p = tries()
        return (ast.unparse(g.body[-1]) == "return web.Response(text=str(fn(dict(request.rel_url.query))))" and
                ast.unparse(p.body[-1]) == "return web.Response(text=str(fn(parameters)))")
    flag("body_is_str_of_result", body_str)

    def params_whole():
        g, p = tries()
        ok = ast.unparse(g.body[0]) == "assert request.method == 'GET'" and len(g.body) == 2
        ok &= [ast.unparse(s) for s in p.body[:-1]] == ["assert request.method == 'POST'", "parameters = dict(await request.post())"]
        return ok
    flag("params_passed_whole", params_whole)

    def ws_shape():
        m = astlib.module(WS)
        nc = astlib.find_class(m, "NetworkClient")
        li = astlib.find_func(nc, "_listen")
        if len(li.body) != 1 or not isinstance(li.body[0], ast.Try):
            raise ShapeError("_listen is not a single try")
        t = li.body[0]
        src = [ast.unparse(s) for s in t.body]
        ok = src[0] == "msg = await self.websocket.recv()" and src[1] == "msg = decode_message(msg)"
        ok &= src[-1] == "await run_command_on_klongloop(self.klongloop, self.klong, '.ws.m', msg, self)"
        ok &= sum(1 for s in src if "run_command_on_klongloop" in s) == 1
        ok &= len(t.handlers) == 1 and ast.unparse(t.handlers[0].type) == "websockets.exceptions.ConnectionClosed"
        ok &= _unparse(astlib.find_func(m, "decode_message")) == ["return json.loads(data)"]
        run = ast.unparse(astlib.find_func(nc, "_run"))
        import re
        ok &= re.search(r"while self\.running:\s+await self\._listen\(on_message\)\n", run) is not None
        rc = ast.unparse(astlib.find_func(m, "run_command_on_klongloop"))
        ok &= "result = await result_future" in rc
        ex = ast.unparse(astlib.find_func(m, "execute_server_command"))
        ok &= "r = klong[sym]" in ex and "response = r(nc, command)" in ex
        return ok
    flag("ws_listen_shape_ok", ws_shape)

    def conv():
        """how KGFnWrapper converts the arguments: (lists through kg_asarray, None -> KLONG_UNDEFINED)"""
        cls = astlib.find_class(astlib.module("klongpy/types.py"), "KGFnWrapper")
        w = ast.unparse(astlib.find_func(cls, "__call__"))
        if "asarray" in w:
            # conversion written out in __call__ (the code before 3618fda): np.asarray, None passed on
            if w.count("fn_args = [np.asarray(x) if isinstance(x, list) else x for x in args]") != 2:
                raise ShapeError("KGFnWrapper.__call__: unknown inline conversion")
            return False, False
        if w.count("fn_args = self._convert_args(args)") != 2 or w.count("[*fn_args]") != 2:
            raise ShapeError("KGFnWrapper.__call__: both calls must convert with _convert_args")
        c = astlib.body_no_doc(astlib.find_func(cls, "_convert_args"))
        if [ast.unparse(x) for x in c[:-1]] != ["backend = self.klong._backend"] or not isinstance(c[-1], ast.Return):
            raise ShapeError("_convert_args: shape")
        r = ast.unparse(c[-1].value)
        if r == "[KLONG_UNDEFINED if x is None else backend.kg_asarray(x) if isinstance(x, list) else x for x in args]":
            return True, True
        if r == "[backend.kg_asarray(x) if isinstance(x, list) else x for x in args]":
            return True, False
        if r == "[np.asarray(x) if isinstance(x, list) else x for x in args]":
            return False, False
        raise ShapeError("_convert_args: unknown conversion %s" % r[:80])
    flag("wrapper_uses_kg_asarray", lambda: conv()[0])
    flag("none_is_undefined", lambda: conv()[1])

    def enc_shape():
        m = astlib.module(WS)
        d = astlib.find_func(astlib.find_class(m, "NumpyEncoder"), "default")
        ok = _unparse(d) == ["if isinstance(obj, np.ndarray):\n    return obj.tolist()", "if isinstance(obj, np.generic):\n    return obj.item()",
                             "return json.JSONEncoder.default(self, obj)"]
        ok &= _unparse(astlib.find_func(m, "encode_message")) == ["return json.dumps(msg, cls=NumpyEncoder)"]
        call = ast.unparse(astlib.find_func(astlib.find_class(m, "NetworkClient"), "call"))
        ok &= "msg = encode_message(msg)" in call and "self.websocket.send(msg)" in call
        return ok
    flag("encoder_shape_ok", enc_shape)
    return "\n".join(out) + "\n"


def _unparse(fn):
    return [ast.unparse(s) for s in astlib.body_no_doc(fn)]


# ---------------------------------------------------------------- scenarios
PATHS = ["/", "/a", "/b/c", "/x-y_z", "/k"]
KEYS = ["k", "a", "b", "klü", "x y"]
VALS = ["", "1", "vé", "a&b=c d+e%", "/?#x", "привет", "two words"]
CONSTS = ["one", "hello, world!", "über", "", "a b"]


def gen_web(rng, idx):
    """a web scenario: handlers (Klong text + model body id), route dictionaries, events"""
    behavs = []          # model behaviours, index = body id
    defs = []            # Klong definitions to evaluate before the dictionaries are built

    def new_body(only_failing=False):
        kind = rng.choice(["const", "const", "count", "get", "failo", "faill", "failk"] if not only_failing else ["failo", "faill", "faill", "failk"])
        bid = len(behavs)
        if kind == "const":
            t = rng.choice(CONSTS)
            behavs.append(["const", t])
            ret = '"%s"' % t
        elif kind == "count":
            behavs.append(["count"])
            ret = "#x"
        elif kind == "get":
            k = rng.choice(KEYS[:3])
            behavs.append(["get", k])
            ret = 'x?"%s"' % k
        elif kind == "failo":          # Python exception / TypeError / IndexError / AttributeError
            behavs.append(["failo"])
            ret = rng.choice(["boom(1)", '1+"a"', "[1 2]@9", '.fc("x")'])
        elif kind == "faill":          # KlongException (undefined function)
            behavs.append(["faill"])
            ret = "undefd(x)"
        else:                          # KeyError (a Python callable, or indexing the parameter dictionary with a missing key)
            behavs.append(["failk"])
            ret = rng.choice(["kerr(1)", 'x@5'])
        return bid, "{logf(%d;x);%s}" % (bid, ret)

    syms = []

    def handler():
        r = rng.random()
        if r < 0.45:
            bid, code = new_body()
            s = "h%d" % len(syms)
            syms.append(s)
            defs.append("%s::%s" % (s, code))
            return s, ["fn", 1, ["sym", s], bid]
        if r < 0.75:
            bid, code = new_body()
            return code, ["fn", 1, ["nosym"], bid]
        if r < 0.83:
            return "two", ["fn", 2, ["sym", "two"], 0]
        if r < 0.90:
            return "two(;1)", ["call", 1]
        if r < 0.95:
            return "{1}", ["fn", 0, ["nosym"], 0]
        return ',"text"', ["other"]

    def table():
        n = rng.choice([0, 1, 2, 2, 3, 3])
        return [(p,) + handler() for p in rng.sample(PATHS, n)]
    gets, posts = table(), table()
    if not gets and not posts:
        gets = [("/",) + handler()]
    events = []
    n = rng.randint(3, 9)
    known = [("get", p) for p, _, _ in gets] + [("post", p) for p, _, _ in posts]
    named = [("get", p) for p, _, h in gets if h[0] == "fn" and h[1] == 1 and h[2][0] == "sym"] + \
            [("post", p) for p, _, h in posts if h[0] == "fn" and h[1] == 1 and h[2][0] == "sym"]
    for _ in range(n):
        r = rng.random()
        if r < 0.2 and syms:
            s = rng.choice(syms)
            q = rng.random()
            if q < 0.6:
                bid, code = new_body(only_failing=rng.random() < 0.5)        # good -> failing and failing -> good histories
                events.append(["def", s, "%s::%s" % (s, code), ["fn", 1, bid]])
            elif q < 0.8:
                events.append(["def", s, "%s::{x+y}" % s, ["fn", 2, 0]])
            else:
                events.append(["def", s, "%s::5" % s, ["other"]])
            continue
        if r < 0.75 and known:
            m, p = rng.choice(named if (named and rng.random() < 0.5) else known)
        elif r < 0.87:
            m, p = rng.choice(["get", "post"]), rng.choice(PATHS + ["/nope", "/a/b"])
        else:
            m, p = rng.choice(known) if known else ("get", "/")
            m = "post" if m == "get" else "get"                     # right path, other method
        k = rng.choice([0, 0, 1, 2, 3])
        params = [[kk, rng.choice(VALS)] for kk in rng.sample(KEYS, k)]
        if params and rng.random() < 0.25:                       # a repeated key: dict() keeps its FIRST value
            kk = rng.choice(params)[0]
            params.insert(rng.randint(0, len(params)), [kk, rng.choice(VALS)])
        # parameters on the OTHER channel, which the handler must not see: query keys on the URL of a POST (disjoint from and
        # overlapping with the form keys, also with an empty form), a form body on a GET
        other = []
        if rng.random() < (0.4 if m == "post" else 0.15):
            ks = rng.sample(KEYS + ["token", "only"], rng.randint(1, 2))
            if params and rng.random() < 0.4:
                ks[0] = params[0][0]
            other = [[kk, rng.choice(VALS + ["q"])] for kk in ks]
        events.append(["req", m, p, params, other])
    return {"kind": "web", "id": idx, "defs": defs, "gets": gets, "posts": posts, "behavs": behavs, "events": events}


def cps(s):
    return [ord(c) for c in s]


def pairs(params):
    """request parameters as a list of [key, value] (a dict in the fixed scenarios)"""
    return [list(kv) for kv in params.items()] if isinstance(params, dict) else [list(kv) for kv in params]


def sx_hv(h):
    if h[0] == "fn":
        sym = ["sym"] + cps(h[2][1]) if h[2][0] == "sym" else ["nosym"]
        return ["fn", h[1], sym, h[3]]
    return list(h)


def sx_web(sc, flags="impl"):
    f = ["impl"] if flags == "impl" else ["flags"] + list(flags)
    def tbl(name, t):
        return [name] + [[cps(p), sx_hv(h)] for p, _, h in t]
    bs = ["behavs"] + [[b[0]] if len(b) == 1 else [b[0], cps(b[1])] for b in sc["behavs"]]
    evs = ["events"]
    for e in sc["events"]:
        if e[0] == "req":
            evs.append(["req", e[1], cps(e[2]), [[cps(k), cps(v)] for k, v in pairs(e[3])]])
        else:
            evs.append(["def", cps(e[1]), list(e[3])])
    return sx(["web", f, tbl("gets", sc["gets"]), tbl("posts", sc["posts"]), bs, evs])


def un_str(x):
    return "".join(chr(c) for c in x)


def un_web(r):
    """model answer -> (responses [(status, text|None)], log [(id, dict)], spec log)"""
    if r[0] != "ok":
        raise RuntimeError("model rejected a web scenario: %r" % (r,))
    resps = []
    for st, body in r[1][1:]:
        if body[0] == "text":
            resps.append([st, un_str(body[1])])
        elif body[0] == "num":
            resps.append([st, str(body[1])])
        else:
            resps.append([st, ":undefined"])
    def log(x):
        return [[e[0], {un_str(k): un_str(v) for k, v in e[1]}] for e in x[1:]]
    return resps, log(r[2]), log(r[3])


# JSON trees:  python value -> model jv
def jv_of(v):
    if v is None:
        return ["null"]
    if v is True:
        return ["t"]
    if v is False:
        return ["f"]
    if isinstance(v, (int, float)):
        q = v * 4
        if q != int(q):
            raise ValueError("not a multiple of 0.25: %r" % (v,))
        return ["n", int(q)]
    if isinstance(v, str):
        return ["s"] + cps(v)
    if isinstance(v, list):
        return ["a"] + [jv_of(x) for x in v]
    if isinstance(v, dict):
        return ["o"] + [[cps(k), jv_of(x)] for k, x in v.items()]
    raise ValueError(type(v))


def py_of_jv(x):
    t = x[0]
    if t == "null":
        return None
    if t == "t":
        return True
    if t == "f":
        return False
    if t == "n":
        return x[1] / 4 if x[1] % 4 else x[1] // 4
    if t == "s":
        return un_str(x[1:])
    if t == "a":
        return [py_of_jv(e) for e in x[1:]]
    if t == "o":
        return {un_str(k): py_of_jv(v) for k, v in x[1:]}
    raise ValueError(t)


SCALARS = [0, 1, -2, 2.5, -0.25, 1000, "", "hé", "abc", True, False]
CLEAN_MSGS = [[1, 2, 3], [0.5, 2], ["a", "b"], [], [[1, 2], [3, 4]], {}, {"a": 1}, {"a": [1, {"c": None}], "b": "x"},
              {"k": [1, "x", [2]]}, [{"a": 1}, {"b": None}], ["x"], [7],
              [None], [1, None, "x"], [[1, 2], ["a", "b"]], [True, "x"], [[]], [1, [2, [3, [4, "deep"]]]], [[1, 2], [3]], [[], [1]],
              [0.5, "0.5"], {"n": None}, [[1.5, 2], [3, 4]], [["a"], ["b", "c"]]]
K_NULL, K_RAGGED, K_MIXED = None, [1, [2]], [1, "x"]
SENTINEL = "__end__"


def gen_ws(rng, idx):
    n = rng.randint(1, 8)
    msgs = []
    for _ in range(n):
        r = rng.random()
        if r < 0.45:
            msgs.append(rng.choice(SCALARS))
        elif r < 0.85:
            msgs.append(rng.choice(CLEAN_MSGS))
        elif r < 0.89:
            msgs.append(K_NULL)
        elif r < 0.93:
            msgs.append(rng.choice([K_MIXED, [True, 2], ["a", 1.5], [False, 0.5, 1], [[True, 2], [3, 4]], [[True, False], [1, 0]],
                                    [True, False], [True, "x"], [True, None], [True, [1]]]))
        elif r < 0.96:
            msgs.append(rng.choice([K_RAGGED, [[1, 2], [3]], [[1], 2]]))
        else:
            msgs.append("boom")
    sends = rng.sample(SENDS, rng.randint(1, 4))
    return {"kind": "ws", "id": idx, "msgs": msgs, "sends": sends}


def gen_burst(rng, idx, k):
    """the peer sends k messages back-to-back and hangs up at once"""
    pool = SCALARS + CLEAN_MSGS
    msgs = [rng.choice(pool) if rng.random() < 0.5 else {"seq": i, "v": rng.choice(SCALARS)} for i in range(k)]
    return {"kind": "ws", "id": "burst-%s-%d" % (idx, k), "msgs": msgs, "sends": [], "burst": True}


# Klong source of a value to send, and the JSON tree it must arrive as
# expected values are TYPED: a Python int is a JSON integer (no fraction), a float a JSON real, a bool true/false
SENDS = [("42", 42), ("-7", -7), ("2.5", 2.5), ('"hé"', "hé"), ('""', ""), ("[1 2 3]", [1, 2, 3]), ("[]", []),
         ('[1 [2 "x"]]', [1, [2, "x"]]), ('["a" "bc"]', ["a", "bc"]), ("[[1 2] [3 4]]", [[1, 2], [3, 4]]),
         (':{["a" 1]}', {"a": 1}), (':{["k" [1 2]] ["s" "t"]}', {"k": [1, 2], "s": "t"}), ("0cx", "x"), (":sym", "sym"), ("0", 0),
         (':{["n" [1 [2 "y"]]]}', {"n": [1, [2, "y"]]}), ("[1.5 2]", [1.5, 2.0]),
         # computed numbers are numpy scalars, not Python numbers: integers must stay integers, reals reals
         ("-7", -7), ("1+1", 2), ("#[1 2 3]", 3), ("2.5*2", 5.0), ("1+[1 2]", [2, 3]), ("(1+1),,(0-3)", [2, -3]),
         ("+/[2 3]", 5), ("[4 5 6]@1", 5), ("_2.75", 2), ("9007199254740992+1", 9007199254740993), ("9223372036854775806+1", 9223372036854775807),
         ("0-9007199254740993", -9007199254740993), ('(+/[2 3]),,"a"', [5, "a"]), (':{},"k",,+/[2 3]', {"k": 5}),
         (':{},"k",,(9007199254740992+1),,"z"', {"k": [9007199254740993, "z"]}), ("1%4", 0.25), ("+/[0.5 0.25]", 0.75),
         ("(+/[2 3]),,1%4", [5.0, 0.25]), ("npi", 7), ("npf", 0.5), ("npb", True), ("npbig", 9007199254740993)]


def typed_equal(a, b):
    """JSON values equal INCLUDING the kind of every number (integer / real / boolean)"""
    if isinstance(a, bool) or isinstance(b, bool):
        return isinstance(a, bool) and isinstance(b, bool) and a == b
    if isinstance(a, int) or isinstance(b, int):
        return isinstance(a, int) and isinstance(b, int) and a == b
    if isinstance(a, float) and isinstance(b, float):
        return a == b
    if isinstance(a, list) and isinstance(b, list):
        return len(a) == len(b) and all(typed_equal(x, y) for x, y in zip(a, b))
    if isinstance(a, dict) and isinstance(b, dict):
        return a.keys() == b.keys() and all(typed_equal(a[k], b[k]) for k in a)
    return type(a) == type(b) and a == b


def fixed_scenarios():
    w = {"kind": "web", "id": "fixed-two-routes", "defs": ['h0::{logf(0;x);"zero"}', 'h1::{logf(1;x);x?"k"}'],
         "gets": [("/", "h0", ["fn", 1, ["sym", "h0"], 0]), ("/a", "h1", ["fn", 1, ["sym", "h1"], 1])],
         "posts": [("/", "h1", ["fn", 1, ["sym", "h1"], 1]), ("/f", "{logf(2;x);boom(1)}", ["fn", 1, ["nosym"], 2])],
         "behavs": [["const", "zero"], ["get", "k"], ["failo"], ["const", "neu"]],
         "events": [["req", "get", "/", {}], ["req", "get", "/a", {"k": "vé", "x y": "a&b=c d+e%"}], ["req", "post", "/f", {"k": "1"}],
                    ["req", "post", "/", {"k": "after failure"}], ["def", "h0", 'h0::{logf(3;x);"neu"}', ["fn", 1, 3]],
                    ["req", "get", "/", {"a": ""}], ["req", "get", "/f", {}], ["req", "post", "/nope", {}],
                    ["req", "get", "/a", [["k", "first"], ["a", ""], ["k", "second"]]], ["req", "post", "/", [["x", "1"], ["k", ""], ["k", "2"], ["x", "3"]]],
                    # the URL of a POST carries query keys, a GET carries a body: the handler sees the form (POST) / the query (GET) only
                    ["req", "post", "/", [["k", "form"], ["m", "2"]], [["token", "t"]]], ["req", "post", "/", [], [["k", "only-query"]]],
                    ["req", "post", "/", [["k", "form"]], [["k", "query"], ["z", "9"]]], ["req", "get", "/a", [["k", "query"]], [["k", "body"], ["b", "1"]]],
                    ["req", "get", "/a", [], [["k", "body"]]]]}
    out = [w]
    # good -> failing (each error class) -> good redefinitions of a named handler; never-redefined failing handlers
    out.append({"kind": "web", "id": "fixed-redefine-into-failing",
                "defs": ['h0::{logf(0;x);"v1"}', 'h1::{logf(1;x);undefd(x)}', 'h2::{logf(2;x);1+"a"}'],
                "gets": [("/h", "h0", ["fn", 1, ["sym", "h0"], 0]), ("/f", "h1", ["fn", 1, ["sym", "h1"], 1]), ("/t", "h2", ["fn", 1, ["sym", "h2"], 2])],
                "posts": [("/p", "h1", ["fn", 1, ["sym", "h1"], 1])],
                "behavs": [["const", "v1"], ["faill"], ["failo"], ["faill"], ["failo"], ["const", "v2"], ["const", "p2"]],
                "events": [["req", "get", "/h", {}], ["def", "h0", 'h0::{logf(3;x);undefd(x)}', ["fn", 1, 3]], ["req", "get", "/h", {"k": "1"}],
                           ["req", "get", "/f", {}], ["req", "post", "/p", {"a": "b"}], ["req", "get", "/t", {}],
                           ["def", "h0", 'h0::{logf(4;x);[1 2]@9}', ["fn", 1, 4]], ["req", "get", "/h", {}],
                           ["def", "h0", 'h0::{logf(5;x);"v2"}', ["fn", 1, 5]], ["req", "get", "/h", {}],
                           ["def", "h1", 'h1::{logf(6;x);"p2"}', ["fn", 1, 6]], ["req", "post", "/p", {}], ["req", "get", "/f", {}]]})
    out.append({"kind": "web", "id": "K-keyerror",
                "defs": ['h0::{logf(0;x);x@5}', 'h1::{logf(1;x);"ok"}'],
                "gets": [("/k", "h0", ["fn", 1, ["sym", "h0"], 0]), ("/o", "h1", ["fn", 1, ["sym", "h1"], 1]),
                         ("/i", '{logf(2;x);kerr(1)}', ["fn", 1, ["nosym"], 2])],
                "posts": [], "behavs": [["failk"], ["const", "ok"], ["failk"], ["failk"]],
                "events": [["req", "get", "/k", {"a": "1"}], ["req", "get", "/i", {}], ["req", "get", "/o", {}],
                           ["def", "h1", 'h1::{logf(3;x);kerr(1)}', ["fn", 1, 3]], ["req", "get", "/o", {}]]})
    out.append({"kind": "ws", "id": "K-null", "msgs": [1, None, 2], "sends": [SENDS[0]]})
    out.append({"kind": "ws", "id": "K-ragged", "msgs": [1, [1, [2]], 2], "sends": []})
    out.append({"kind": "ws", "id": "K-mixed", "msgs": [[1, "x"], 3], "sends": [SENDS[5]]})
    out.append({"kind": "ws", "id": "K-bool-number", "msgs": [True, [True, 2], False, [True, False], [[True, 2], [3, 4]], 1, 0], "sends": [SENDS[0]]})
    out.append({"kind": "ws", "id": "burst-24", "burst": True, "sends": [],
                "msgs": [{"seq": i, "v": [i, "x", True, None, 2.5, [i]][i % 6]} for i in range(24)]})
    out.append({"kind": "ws", "id": "all-kinds", "msgs": [0, -2, 2.5, "hé", True, False, [1, 2, 3], [], ["a"], [[1, 2], [3, 4]], {"a": [1, {"c": None}]}, {}],
                "sends": SENDS[:]})
    return out


# ---------------------------------------------------------------- implementation side (child process)
CHILD = r'''
import asyncio, json, os, socket, sys, threading, time
sys.path.insert(0, %(verif)r)
import numpy as np
import aiohttp, websockets
from klongpy.repl import create_repl
from klongpy.core import KLONG_UNDEFINED

scenarios = json.load(open(sys.argv[1]))
klong, loops = create_repl()
io_loop, klong_loop = loops[0], loops[3]

def K(text):
    async def _e():
        return klong(text)
    return asyncio.run_coroutine_threadsafe(_e(), klong_loop).result(60)

calls = []
def logf(x, y):
    calls.append([int(x), {str(k): str(v) for k, v in dict(y).items()}])
    return 0
def boom(x):
    raise ZeroDivisionError("boom")
def kerr(x):
    raise KeyError("kerr")
klong['logf'] = logf
klong['boom'] = boom
klong['kerr'] = kerr
K('.py("klongpy.web")')
K('.py("klongpy.ws")')
K('two::{x+y}')

def free_port():
    s = socket.socket(socket.AF_INET, socket.SOCK_STREAM)
    s.bind(("127.0.0.1", 0))
    p = s.getsockname()[1]
    s.close()
    return p

def kstr(s):
    return '"' + s + '"'

async def run_web(sc, port):
    out = {"resps": [], "up": False}
    base = "http://127.0.0.1:%%d" %% port
    async with aiohttp.ClientSession(timeout=aiohttp.ClientTimeout(total=20)) as s:
        for i in range(400):                        # the site starts asynchronously after .web returns
            try:
                async with s.get(base + "/__probe__") as r:
                    await r.read()
                    out["up"] = True
                    break
            except aiohttp.ClientConnectorError:
                await asyncio.sleep(0.05)
        for e in sc["events"]:
            if e[0] == "def":
                await asyncio.get_event_loop().run_in_executor(None, K, e[2])
                continue
            m, p, params = e[1], e[2], e[3]
            params = [tuple(kv) for kv in (params.items() if isinstance(params, dict) else params)]
            other = [tuple(kv) for kv in (e[4] if len(e) > 4 else [])]
            try:
                if m == "get":
                    # `other` = a form body the GET handler must not see
                    async with s.get(base + p, params=params, data=(other or None)) as r:
                        out["resps"].append([r.status, await r.text()])
                else:
                    # `other` = query keys on the URL the POST handler must not see
                    async with s.post(base + p, params=(other or None), data=params) as r:
                        out["resps"].append([r.status, await r.text()])
            except Exception as ex:
                out["resps"].append(["EXC", type(ex).__name__])
        out["webc"] = await asyncio.get_event_loop().run_in_executor(None, K, ".webc(wh)")
        try:
            async with s.get(base + "/") as r:
                out["after_webc"] = [r.status]
        except aiohttp.ClientConnectorError:
            out["after_webc"] = "refused"
        except Exception as ex:
            out["after_webc"] = type(ex).__name__
        out["webc_again"] = await asyncio.get_event_loop().run_in_executor(None, K, ".webc(wh)")
    return out

def do_web(sc):
    del calls[:]
    for d in sc["defs"]:
        K(d)
    K('get:::{}'); K('post:::{}')
    for p, code, _ in sc["gets"]:
        K('get,%%s,%%s' %% (kstr(p), code))
    for p, code, _ in sc["posts"]:
        K('post,%%s,%%s' %% (kstr(p), code))
    port = free_port()
    K('wh::.web("127.0.0.1:%%d";get;post)' %% port)
    out = asyncio.run(run_web(sc, port))
    out["log"] = [list(c) for c in calls]
    return out

# ---- websockets: one in-process server, one connection per scenario
srv_loop = asyncio.new_event_loop()
srv_up = threading.Event()
ws_state = {"port": None, "conn": None, "received": [], "connected": threading.Event()}

async def ws_handler(ws):
    ws_state["conn"] = ws
    ws_state["received"] = []
    burst = ws_state.get("burst")
    if burst is not None:
        # send everything back-to-back and hang up at once (returning closes the connection)
        ws_state["burst"] = None
        for t in burst:
            await ws.send(t)
        ws_state["connected"].set()
        return
    ws_state["connected"].set()
    try:
        async for m in ws:
            ws_state["received"].append(m)
    except Exception:
        pass

async def ws_serve():
    server = await websockets.serve(ws_handler, "127.0.0.1", 0)
    ws_state["port"] = server.sockets[0].getsockname()[1]
    srv_up.set()

def srv_thread():
    asyncio.set_event_loop(srv_loop)
    srv_loop.run_until_complete(ws_serve())
    srv_loop.run_forever()

def canon(v):
    if isinstance(v, np.ndarray):
        return canon(v.tolist())
    if isinstance(v, (np.bool_,)):
        return bool(v)
    if isinstance(v, np.integer):
        return int(v)
    if isinstance(v, np.floating):
        return float(v)
    if isinstance(v, (list, tuple)):
        return [canon(x) for x in v]
    if isinstance(v, dict):
        return {str(k): canon(x) for k, x in v.items()}
    if v is KLONG_UNDEFINED:
        return None                       # JSON null arrives as :undefined
    if v is None or isinstance(v, (bool, int, float, str)):
        return v
    return {"__other__": type(v).__name__}

ws_calls = []
def wslog(x, y):
    ws_calls.append(canon(y))
    if isinstance(y, str) and y == "boom":
        raise RuntimeError("boom")
    return 0
def wsecho(y):
    # echo everything that has a JSON encoding (null arrives as :undefined, which has none) except the sentinel
    return 0 if (y is None or y is KLONG_UNDEFINED or (isinstance(y, str) and y == %(sentinel)r)) else 1
klong['wslog'] = wslog
klong['wsecho'] = wsecho
klong['npi'] = np.int32(7)
klong['npf'] = np.float32(0.5)
klong['npb'] = np.bool_(True)
klong['npbig'] = np.int64(9007199254740993)

def wait_for(pred, timeout):
    t0 = time.monotonic()
    while not pred():
        if time.monotonic() - t0 > timeout:
            return False
        time.sleep(0.005)
    return True

def do_ws(sc):
    del ws_calls[:]
    ws_state["connected"].clear()
    texts = [json.dumps(m) for m in sc["msgs"]] + [json.dumps(%(sentinel)r)]
    burst = bool(sc.get("burst"))
    if burst:
        K('.ws.m::{wslog(x;y)}')
        ws_state["burst"] = texts
    else:
        # the handler logs the message and sends it back through the connection
        K('.ws.m::{wslog(x;y);:[wsecho(y);x(y);0]}')
    nc = K('c::.ws("ws://127.0.0.1:%%d")' %% ws_state["port"])
    if not ws_state["connected"].wait(20):
        return {"error": "no connection"}
    conn = ws_state["conn"]
    if not burst:
        async def push():
            for t in texts:
                await conn.send(t)
        asyncio.run_coroutine_threadsafe(push(), srv_loop).result(20)
    have_sentinel = lambda: %(sentinel)r in [c for c in ws_calls if isinstance(c, str)]
    if burst:
        # all frames and the close arrive together: done when the sentinel was handled or the client's loop has ended
        ended = getattr(nc, "_run_exit_event", None)
        wait_for(lambda: have_sentinel() or (ended is not None and ended.is_set()), 20)
        time.sleep(0.05)
        done = have_sentinel()
    else:
        done = wait_for(have_sentinel, sc["wait"])
    out = {"calls": list(ws_calls), "sentinel": done, "sent": [], "echo": []}
    if done and not burst:
        n_echo = sum(1 for c in ws_calls if wsecho(c))
        wait_for(lambda: len(ws_state["received"]) >= n_echo, 10)
        out["echo"] = list(ws_state["received"])
        for i, (src, _) in enumerate(sc["sends"]):
            n0 = len(ws_state["received"])
            try:
                K("c(%%s)" %% src)
            except Exception as ex:
                out["sent"].append(["EXC", type(ex).__name__])
                continue
            ok = wait_for(lambda: len(ws_state["received"]) > n0, 10)
            out["sent"].append(ws_state["received"][n0] if ok else ["TIMEOUT"])
    try:
        out["wsc"] = K(".wsc(c)")
    except Exception as ex:
        out["wsc"] = type(ex).__name__
    out["calls_final"] = list(ws_calls)
    return out

threading.Thread(target=srv_thread, daemon=True).start()
srv_up.wait(30)
results = []
for sc in scenarios:
    try:
        t0 = time.monotonic()
        results.append(do_web(sc) if sc["kind"] == "web" else do_ws(sc))
        results[-1]["secs"] = round(time.monotonic() - t0, 3)
    except Exception as ex:
        import traceback
        results.append({"error": "%%s: %%s" %% (type(ex).__name__, ex), "trace": traceback.format_exc()[-800:]})
json.dump(results, open(sys.argv[2], "w"))
sys.stdout.flush()
os._exit(0)
'''


def run_child(chk, scenarios):
    work = os.path.join(VERIF, ".work", "C20-%d" % os.getpid())
    os.makedirs(work, exist_ok=True)
    inp, outp = os.path.join(work, "in.json"), os.path.join(work, "out.json")
    try:
        with open(inp, "w") as f:
            json.dump(scenarios, f)
        script = CHILD % {"verif": VERIF, "sentinel": SENTINEL}
        env = dict(os.environ, PYTHONPATH=REPO + ":" + VERIF, PYTHONHASHSEED="0")
        p = subprocess.run([PY, "-W", "ignore", "-c", script, inp, outp], stdout=subprocess.PIPE, stderr=subprocess.PIPE,
                           env=env, timeout=1500)
        if not os.path.exists(outp):
            raise RuntimeError("C20 child produced no results: " + p.stderr.decode()[-2000:])
        return json.load(open(outp))
    finally:
        for f in (inp, outp):
            if os.path.exists(f):
                os.remove(f)
        try:
            os.rmdir(work)
        except OSError:
            pass


# ---------------------------------------------------------------- comparison
def msg_class(m):
    if isinstance(m, list) and m:
        rows = m if all(isinstance(x, list) for x in m) and len({len(x) for x in m}) == 1 else None
        lv = [y for x in m for y in x] if rows is not None else m
        if all(isinstance(y, (bool, int, float)) for y in lv) and any(isinstance(y, bool) for y in lv) \
                and any(not isinstance(y, bool) for y in lv):
            return "C20-ws-bool-number-array"
    if m is None:
        return "C20-ws-null-message"
    if isinstance(m, list):
        if any(isinstance(x, list) for x in m):
            rect = all(isinstance(x, list) and len(x) == len(m[0]) and all(isinstance(y, (int, float)) and not isinstance(y, bool) for y in x) for x in m)
            return None if rect else "C20-ws-ragged-array-message"
        num = any(isinstance(x, (int, float)) and not isinstance(x, bool) for x in m)
        st = any(isinstance(x, str) for x in m)
        bo = any(isinstance(x, bool) for x in m)
        if st and (num or bo):
            return "C20-ws-mixed-array-message"
    return None


def same_json(a, b):
    """by value, numbers numerically"""
    if isinstance(a, bool) or isinstance(b, bool):
        return isinstance(a, bool) and isinstance(b, bool) and a == b          # true/false are not 1/0
    if isinstance(a, (int, float)) and isinstance(b, (int, float)):
        return float(a) == float(b)
    if isinstance(a, list) and isinstance(b, list):
        return len(a) == len(b) and all(same_json(x, y) for x, y in zip(a, b))
    if isinstance(a, dict) and isinstance(b, dict):
        return a.keys() == b.keys() and all(same_json(a[k], b[k]) for k in a)
    return type(a) == type(b) and a == b


def check_web(chk, sc, got, m_impl, m_good):
    """-> (property failure | None, correspondence failure | None)"""
    if "error" in got:
        return None, {"scenario": sc, "error": got}
    resps_i, log_i, _ = m_impl
    resps_g, log_g, spec_g = m_good
    prop = corr = None
    reqs = [e for e in sc["events"] if e[0] == "req"]     # e[4], when present: parameters on the channel the handler must NOT see

    def cmp_resps(model):
        for i, (g, m) in enumerate(zip(got["resps"], model)):
            if g[0] != m[0] or (m[0] in (200, 400) and g[1] != m[1]):
                return {"request": reqs[i], "index": i, "expected": m, "actual": g}
        if len(got["resps"]) != len(model):
            return {"expected_count": len(model), "actual_count": len(got["resps"])}
        return None

    def cmp_log(model):
        if got["log"] != [[a, b] for a, b in model]:
            return {"expected_call_log": model, "actual_call_log": got["log"]}
        return None
    if not got.get("up"):
        prop = {"what": "the server started by .web never answered"}
    p = cmp_resps(resps_g) or cmp_log(log_g) or cmp_log(spec_g)
    if p and prop is None:
        prop = p
    if prop is None and not (got.get("webc") == 1 and got.get("after_webc") == "refused" and got.get("webc_again") == 0):
        prop = {"what": ".webc did not stop the server", "webc": got.get("webc"), "after_webc": got.get("after_webc"), "webc_again": got.get("webc_again")}
    c = cmp_resps(resps_i) or cmp_log(log_i)
    if c:
        corr = c
    if prop is not None and corr is None and any(b == ["failk"] for b in sc["behavs"]) and "what" not in prop:
        # the implementation does exactly what the model predicts for a handler failing with KeyError
        prop = dict(prop, known_class="C20-web-keyerror-handler-runs-twice")
    return prop, corr


def check_ws(chk, sc, got, model):
    """-> (property failure | None, known-finding ids shown, correspondence failure | None)"""
    if "error" in got:
        return None, [], {"scenario": sc, "error": got}
    if model[0] != "ok":
        raise RuntimeError("model rejected a ws scenario: %r" % (model,))
    inv = [py_of_jv(x) for x in model[1][1:]]
    alive = bool(model[2][1])
    classes = model[3][1:]
    msgs = sc["msgs"] + [SENTINEL]
    calls = got["calls_final"]
    # property oracle: every message, once, in order, intact (a failing handler is outside the property text: expected to stop at it)
    expected = []
    for m in msgs:
        expected.append(m)
        if m == "boom":
            break
    prop_ok = len(calls) == len(expected) and all(same_json(a, b) for a, b in zip(calls, expected))
    # a message belongs to a known-finding class only if the MODEL of the current code says it is not delivered intact
    known = sorted({msg_class(m) or "unclassified" for m, c in zip(sc["msgs"], classes) if c != "intact"})
    # model equality: same invocations (changed messages: the model only says that the value is NOT the original)
    corr = None
    if len(calls) != len(inv):
        corr = {"expected_invocations": inv, "actual": calls}
    else:
        deliv = [c for m, c in zip(msgs, classes) if c in ("intact", "changed")]
        for a, b, c in zip(calls, inv, deliv):
            if (c == "intact" and not same_json(a, b)) or (c == "changed" and same_json(a, b)):
                corr = {"message": b, "class": c, "handler_received": a}
                break
    if corr is None and alive != bool(got["sentinel"]):
        corr = {"model_alive": alive, "sentinel_arrived": got["sentinel"]}
    # values sent through the connection
    sent_bad = None
    if got["sentinel"]:
        for (src, want), text in zip(sc["sends"], got["sent"]):
            ok = isinstance(text, str)
            if ok:
                try:
                    ok = typed_equal(json.loads(text), want)
                except ValueError:
                    ok = False
            if not ok:
                sent_bad = {"klong_value": src, "expected_json": want, "arrived": text}
                break
        if sent_bad is None and len(got["sent"]) != len(sc["sends"]):
            sent_bad = {"expected_sends": len(sc["sends"]), "arrived": got["sent"]}
    # echoes: the handler sends every message back; the text that arrives is the JSON encoding of what it received
    echo_bad = None
    if got["sentinel"] and not sc.get("burst"):
        echoable = [(m, c) for m, c in zip(expected, calls) if c is not None and c != SENTINEL and c != "boom"] if len(calls) == len(expected) else []
        for (m, c), text in zip(echoable, got.get("echo", [])):
            try:
                back = json.loads(text)
            except (ValueError, TypeError):
                back = ["<unparsable>", text]
            if not same_json(back, c) and corr is None:
                corr = {"handler_received": c, "echoed_text": text}
            if not same_json(back, m) and not known and echo_bad is None:
                echo_bad = {"message": m, "echoed_text": text, "what": "a message echoed by the handler did not come back as its JSON encoding"}
        if echoable and len(got.get("echo", [])) < len(echoable) and echo_bad is None and not known:
            echo_bad = {"what": "not every echoed message arrived", "expected": len(echoable), "arrived": got.get("echo")}
    prop = None
    if echo_bad is not None:
        prop = echo_bad
    elif sent_bad is not None:
        prop = dict(sent_bad, what="a value sent through the connection did not arrive as its JSON encoding")
    elif not prop_ok:
        prop = {"what": "messages were not handed to .ws.m exactly once, in order, intact", "messages": sc["msgs"], "handler_received": calls,
                "known_classes_present": known}
    return prop, known, corr


def kv_of(v):
    """typed python value -> the model's kv"""
    if isinstance(v, bool):
        return ["t"] if v else ["f"]
    if isinstance(v, int):
        return ["i", v]
    if isinstance(v, float):
        return ["n", int(v * 4)]
    if isinstance(v, str):
        return ["s"] + cps(v)
    if isinstance(v, list):
        return ["l"] + [kv_of(x) for x in v]
    return ["d"] + [[cps(k), kv_of(x)] for k, x in v.items()]


def typed_of_jv(x):
    """model jv -> typed python value ((i z) integer, (n q) real)"""
    t = x[0]
    if t == "i":
        return int(x[1])
    if t == "n":
        return x[1] / 4.0
    if t == "t":
        return True
    if t == "f":
        return False
    if t == "null":
        return None
    if t == "s":
        return un_str(x[1:])
    if t == "a":
        return [typed_of_jv(e) for e in x[1:]]
    return {un_str(k): typed_of_jv(v) for k, v in x[1:]}


def enc_requests():
    return [sx(["enc", kv_of(want)]) for _, want in SENDS]


def run(tier, replay=None):
    chk = Check("C20", tier)
    rng = random.Random(chk.seed * 104729 + 20)
    chk.generate(generate())
    chk.build_model()
    hits = forbidden_scan("C20")
    proof = chk.build_proofs()
    if hits:
        proof.update(ok=False, error="forbidden declarations: %r" % hits, broken=hits[0])

    nweb, nws = (150, 60) if tier == "quick" else (1200, 400)
    bursts = [gen_burst(rng, j, k) for j in range(2 if tier == "quick" else 10) for k in (1, 2, 8, 24, 100)]
    scenarios = fixed_scenarios() + [gen_web(rng, i) for i in range(nweb)] + [gen_ws(rng, i) for i in range(nws)] + bursts
    first_prop, first_corr = evaluate(chk, scenarios)
    if first_prop is None and (first_corr is not None or not proof["ok"]):
        rng2 = random.Random(chk.seed + 77)
        extra = [gen_web(rng2, i) for i in range(600)] + [gen_ws(rng2, i) for i in range(200)]
        fp, fc = evaluate(chk, extra)
        first_prop, first_corr = fp, first_corr or fc
    if first_prop is not None:
        sc, p = first_prop
        chk.violation("C20 property fails on the implementation: %s" % json.dumps(p, ensure_ascii=False)[:300], {"scenario": sc, "failure": p})
    else:
        if first_corr is not None:
            sc, c = first_corr
            chk.violation("correspondence between klongpy web/ws dispatch and coq/C20/Model.v broke; no failing input of the property found in %d scenarios"
                          % chk.counters.get("evaluations", 0), {"broken": "correspondence C20/Model.v", "scenario": sc, "detail": c}, no_input=True)
        if not proof["ok"] and not chk.violations:
            chk.violation("proof obligation no longer checks: %s" % proof["broken"],
                          {"broken_obligation": proof["broken"], "coq_error": proof["error"], "generated": chk.generated_text}, no_input=True)
    return chk.finish(
        rule="web: seeded scenarios of <=3 GET + <=3 POST routes (named / inline / arity-2 / arity-0 / projection / non-function handlers; const, count, lookup and raising bodies), "
             "3-9 events each (requests to registered, unknown and wrong-method paths with empty / several / non-ASCII / URL-special parameters and repeated keys, POSTs whose URL also carries query keys and GETs that also carry a form body, handler redefinitions), then .webc and a refused connect, "
             "against the real aiohttp server started by .web; ws: seeded message sequences over all JSON kinds pushed by an in-process websockets server, then values sent through the connection. "
             "distinct = distinct (route kinds, event kinds) / (message class sequence); non-trivial = at least one handled request / one delivered message",
        trusted_base=TRUSTED, assumptions=ASSUME,
        extra={"partial": "theorems cover klongpy's own dispatch and codec logic; aiohttp/websockets/json runtime behaviour is covered by the correspondence runs only"})


def evaluate(chk, scenarios):
    for sc in scenarios:
        if sc["kind"] == "ws":
            # sequences the model predicts to end the loop are waited for briefly; all others until the sentinel arrives
            sc["wait"] = 20
    webs = [s for s in scenarios if s["kind"] == "web"]
    wss = [s for s in scenarios if s["kind"] == "ws"]
    m_impl = chk.run_model([sx_web(s) for s in webs])
    m_good = chk.run_model([sx_web(s, (1, 1, 1, 1, 0, 0, 0)) for s in webs])
    m_ws = chk.run_model([sx(["ws"] + [jv_of(m) for m in s["msgs"] + [SENTINEL]]) for s in wss])
    for s, r in zip(wss, m_ws):
        if r[0] == "ok" and not r[2][1]:
            s["wait"] = 1.0
    for r, (_, want) in zip(chk.run_model(enc_requests()), SENDS):
        chk.count("encoder_trees")
        if r[0] != "ok" or not typed_equal(typed_of_jv(r[1]), want) or r[2][1] != 1:
            raise RuntimeError("extracted to_json disagrees with the expected JSON tree of %r: %r" % (want, r))
    got = run_child(chk, scenarios)
    gw = [g for s, g in zip(scenarios, got) if s["kind"] == "web"]
    gs = [g for s, g in zip(scenarios, got) if s["kind"] == "ws"]
    first_prop = first_corr = None
    seen = set()
    for sc, g, mi, mg in zip(webs, gw, m_impl, m_good):
        chk.count("evaluations")
        chk.count("web_scenarios")
        chk.count("http_requests", sum(1 for e in sc["events"] if e[0] == "req"))
        mi_, mg_ = un_web(mi), un_web(mg)
        prop, corr = check_web(chk, sc, g, mi_, mg_)
        key = ("web", tuple(json.dumps(h[2][:2]) for h in sc["gets"] + sc["posts"]), tuple(e[0] for e in sc["events"]))
        if key not in seen and mg_[1]:
            seen.add(key)
            chk.count("distinct_nontrivial")
        chk.count("handler_invocations", len(mg_[1]))
        if prop and prop.get("known_class") and chk.match_known(prop["known_class"]):
            chk.finding(prop["known_class"], "a named handler failing with KeyError is run twice", {"scenario": sc, "failure": prop})
            chk.count("known_finding_scenarios")
        elif prop and first_prop is None:
            first_prop = (sc, prop)
        if corr and first_corr is None:
            first_corr = (sc, corr)
        if not prop and not corr:
            chk.sample({"gets": [[p, c] for p, c, _ in sc["gets"]], "posts": [[p, c] for p, c, _ in sc["posts"]],
                        "events": [e[:3] if e[0] == "def" else e for e in sc["events"]][:6], "responses": g.get("resps", [])[:6]}, limit=3)
    for sc, g, m in zip(wss, gs, m_ws):
        chk.count("evaluations")
        chk.count("ws_scenarios")
        chk.count("ws_messages", len(sc["msgs"]))
        prop, known, corr = check_ws(chk, sc, g, m)
        key = ("ws", tuple(msg_class(x) or type(x).__name__ for x in sc["msgs"]))
        if key not in seen and g.get("calls_final"):
            seen.add(key)
            chk.count("distinct_nontrivial")
        if corr and first_corr is None:
            first_corr = (sc, corr)
        if prop:
            if known and not corr and prop.get("known_classes_present") and all(chk.match_known(k) for k in known):
                # the failure is exactly the one the model predicts for these (listed) message classes
                for k in known:
                    chk.finding(k, "websocket message class %s is not handed to .ws.m intact" % k, {"scenario": sc, "failure": prop})
                chk.count("known_finding_scenarios")
            elif first_prop is None:
                first_prop = (sc, prop)
        elif not corr:
            chk.sample({"ws_messages": sc["msgs"], "handler_received": g.get("calls_final"), "sent": g.get("sent")}, limit=5)
    return first_prop, first_corr


def replay(path):
    body = json.load(open(path))
    sc = body.get("replay", {}).get("scenario")
    if not sc:
        print(json.dumps(body, indent=1))
        return 0
    chk = Check("C20", "quick")
    chk.generate(generate())
    chk.build_model()
    sc["gets"] = [tuple(x) for x in sc.get("gets", [])]
    sc["posts"] = [tuple(x) for x in sc.get("posts", [])]
    if sc["kind"] == "ws":
        sc["sends"] = [tuple(x) for x in sc["sends"]]
    fp, fc = evaluate(chk, [sc])
    print(json.dumps({"scenario": sc, "property_failure": fp and fp[1], "model_mismatch": fc and fc[1]}, indent=1, ensure_ascii=False, default=str))
    return 1 if fp else 0
