"""Canonical S-expression form of Klong/Python values (DESIGN.md 1.3)."""
import struct

import numpy as np

from klongpy.core import KGSym, KGChar, KGFn, KGLambda, KLONG_UNDEFINED
from klongpy.types import KGUndefined


def fbits(x):
    return struct.unpack(">Q", struct.pack(">d", float(x)))[0]


def bits_to_float(b):
    return struct.unpack(">d", struct.pack(">Q", b))[0]


def canon(v):
    """Python value -> nested python structure printable by common.sx"""
    if v is KLONG_UNDEFINED:
        return ["u", 1]
    if isinstance(v, KGUndefined):
        return ["u", 0]
    if v is None:
        return ["none"]
    if isinstance(v, (bool, np.bool_)):
        return ["i", int(v)]
    if isinstance(v, (int, np.integer)):
        return ["i", int(v)]
    if isinstance(v, (float, np.floating)):
        return ["r", fbits(v)]
    if isinstance(v, KGChar):
        return ["c", ord(str(v))]
    if isinstance(v, KGSym):
        return ["y"] + [ord(c) for c in str(v)]
    if isinstance(v, str):
        return ["s"] + [ord(c) for c in v]
    if isinstance(v, np.ndarray):
        if v.ndim == 0:
            return canon(v.item())
        return ["l"] + [canon(x) for x in v]
    if isinstance(v, (list, tuple)):
        return ["l"] + [canon(x) for x in v]
    if isinstance(v, dict):
        items = [[canon(k), canon(x)] for k, x in v.items()]
        items.sort(key=lambda kv: repr(kv[0]))
        return ["d"] + items
    if isinstance(v, KGFn):
        return ["f", int(v.arity)]
    if isinstance(v, KGLambda):
        return ["f", int(v.get_arity())]
    if isinstance(getattr(v, "fn", None), KGFn):      # KGFnWrapper around a Klong function
        return ["f", int(v.fn.arity)]
    if callable(v):
        return ["f", -1]
    try:
        import torch
        if isinstance(v, torch.Tensor):
            return canon(v.detach().cpu().numpy())
    except ImportError:
        pass
    return ["other", type(v).__name__]
